-------------------------------- MODULE Attrs --------------------------------
(* Per-file life cycle of xz for a named source file (not stdin), as the     *)
(* sequence of the system calls that decide refusal, creation, metadata and  *)
(* removal.  Transcribes, from src/xz/file_io.c (POSIX branch, O_NOFOLLOW    *)
(* available, HAVE_FUTIMENS):                                                *)
(*   io_open_src_real()  -> OpenSrc, StatSrc                                 *)
(*   coder_run()         -> InitCoder (first read + coder_init before the    *)
(*                          target is touched), Code                         *)
(*   io_open_dest_real() -> NameDst, UnlinkDst, CreateDst                    *)
(*   io_copy_attrs()     -> ChownOwner, ChownGroup, Chmod, Utimens           *)
(*   io_close()/io_close_src()/io_unlink() -> CloseAndUnlink                 *)
(* and args.c (--stdout/--test imply --keep), main.c exit status via         *)
(* ExitStatus.  Directory open/fsync and the data transfer itself belong to  *)
(* C17 / C18 and are not modelled.                                           *)
(*                                                                           *)
(* `cfg` is the scenario (file kind, mode bits, flags, outcomes of the       *)
(* fchown/fchmod calls); everything else is determined by it.  `sys` is the  *)
(* log of system calls on the source / target, compared with strace.         *)
EXTENDS Naturals, Sequences, Bitwise, ExitStatus

VARIABLES cfg, pc, sys, msgs, srcThere, dst
avars == <<cfg, pc, sys, msgs, srcThere, dst>>

Kinds == {"reg", "lnk_reg", "lnk_dangling", "fifo", "dir", "missing"}
DstKinds == {"none", "reg", "dir"}

(* args.c: opt_stdout or --test => opt_keep_original                         *)
KeepEff(c) == c.keep \/ c.stdout \/ c.kind = "stdin"
(* io_open_src_real(): follow_symlinks / reg_files_only                      *)
FollowSymlinks(c) == c.stdout \/ c.force \/ KeepEff(c)
RegFilesOnly(c) == ~c.stdout
(* what fstat() on the opened descriptor reports                             *)
StatKind(c) == IF c.kind = "lnk_reg" THEN "reg" ELSE c.kind

S_ISUID == 2048
S_ISGID == 1024
S_ISVTX == 512

(* io_copy_attrs(): the mode given to fchmod()                               *)
RestrictedMode(m) ==
    LET go == ((m & 56) \div 8) & (m & 7)            \* ((mode & 0070) >> 3) & (mode & 0007)
    IN  (m & 448) | (go * 8) | go                    \* (mode & 0700) | (go << 3) | go
PlainMode(m) == m & 511                              \* mode & 0777
TargetMode(m, groupFailed) == IF groupFailed THEN RestrictedMode(m) ELSE PlainMode(m)

NoDst == [there |-> FALSE, fresh |-> FALSE, kind |-> "none", mode |-> 0, uid |-> "me", gid |-> "me", times |-> "now"]
OldDst(k) == [there |-> k # "none", fresh |-> FALSE, kind |-> k, mode |-> 0, uid |-> "me", gid |-> "me", times |-> "old"]

AInit(c) == /\ cfg = c /\ pc = "open_src" /\ sys = <<>> /\ msgs = <<>>
            /\ srcThere = (c.kind # "missing") /\ dst = OldDst(c.dstKind)

Log(call) == sys' = Append(sys, call)
Warn(why) == msgs' = Append(msgs, [sev |-> "warn", why |-> why])
Err(why)  == msgs' = Append(msgs, [sev |-> "error", why |-> why])

(* open(src_name, O_RDONLY | O_NOCTTY | O_NONBLOCK [| O_NOFOLLOW])           *)
(* a source of kind "stdin" is the name "-" given on the command line (main.c): nothing is opened, args.c /
   io_open_dest_real() make the output go to stdout, and a file that happens to be called "-" is not touched *)
OpenStdin ==
    /\ pc = "open_src" /\ cfg.kind = "stdin"
    /\ UNCHANGED <<cfg, srcThere, dst, sys, msgs>>
    /\ pc' = IF cfg.opmode = "decompress" THEN "init" ELSE "name_dst"

OpenSrc ==
    /\ pc = "open_src" /\ cfg.kind # "stdin"
    /\ UNCHANGED <<cfg, srcThere, dst>>
    /\ LET o == [call |-> "open_src", nofollow |-> ~FollowSymlinks(cfg)] IN
       \* open() fails with ELOOP on a symlink: lstat() tells whether that was the reason
       IF cfg.kind \in {"lnk_reg", "lnk_dangling"} /\ ~FollowSymlinks(cfg)
       THEN sys' = sys \o <<o, [call |-> "stat_src", follow |-> FALSE]>>
       ELSE sys' = Append(sys, o)
    /\ CASE cfg.kind = "missing" -> Err("ENOENT") /\ pc' = "done"
         [] cfg.kind \in {"lnk_reg", "lnk_dangling"} /\ ~FollowSymlinks(cfg) ->
                Warn("symlink") /\ pc' = "done"          \* ELOOP + lstat says S_ISLNK
         [] cfg.kind = "lnk_dangling" /\ FollowSymlinks(cfg) -> Err("ENOENT") /\ pc' = "done"
         [] OTHER -> UNCHANGED msgs /\ pc' = "stat_src"

(* fstat(src_fd) and the refusal rules, in the order of the code             *)
Refusal(c) ==
    LET k == StatKind(c)
        m == c.smode
    IN  IF k = "dir" THEN "directory"
        ELSE IF RegFilesOnly(c) /\ k # "reg" THEN "not_regular"
        ELSE IF RegFilesOnly(c) /\ ~c.force /\ ~KeepEff(c)
             THEN IF (m & (S_ISUID + S_ISGID)) # 0 THEN "setuid_setgid"
                  ELSE IF (m & S_ISVTX) # 0 THEN "sticky"
                  ELSE IF c.nlink > 1 THEN "hardlinks"
                  ELSE ""
        ELSE ""
StatSrc ==
    /\ pc = "stat_src"
    /\ UNCHANGED <<cfg, srcThere, dst, sys>>
    /\ IF Refusal(cfg) # ""
       THEN Warn(Refusal(cfg)) /\ pc' = "done"
       ELSE UNCHANGED msgs /\ pc' = IF cfg.opmode = "decompress" THEN "init" ELSE "name_dst"

(* coder_run(): when decompressing the first chunk is read and the format    *)
(* detected before the target is opened; garbage is an error unless          *)
(* --force --stdout (pass-through)                                           *)
InitCoder ==
    /\ pc = "init"
    /\ UNCHANGED <<cfg, srcThere, dst, sys>>
    /\ IF cfg.payloadOK \/ (cfg.force /\ cfg.optStdout)      \* opt_stdout itself, not "writes to stdout because it reads stdin"
       THEN UNCHANGED msgs /\ pc' = "name_dst"
       ELSE Err("format") /\ pc' = "done"

(* io_open_dest_real(): stdout, or suffix_get_dest_name()                    *)
NameDst ==
    /\ pc = "name_dst"
    /\ UNCHANGED <<cfg, srcThere, dst, sys>>
    /\ IF cfg.stdout THEN UNCHANGED msgs /\ pc' = "code"
       ELSE IF ~cfg.nameOK THEN Warn("suffix") /\ pc' = "done"
       ELSE UNCHANGED msgs /\ pc' = IF cfg.force THEN "unlink_dst" ELSE "create_dst"

(* if (opt_force && unlink(dest_name) && errno != ENOENT) -> error           *)
UnlinkDst ==
    /\ pc = "unlink_dst"
    /\ Log([call |-> "unlink_dst"])
    /\ UNCHANGED <<cfg, srcThere>>
    /\ CASE dst.kind = "dir" -> Err("cannot_remove") /\ pc' = "done" /\ UNCHANGED dst
         [] dst.kind = "reg" -> UNCHANGED msgs /\ dst' = NoDst /\ pc' = "create_dst"
         [] OTHER -> UNCHANGED msgs /\ UNCHANGED dst /\ pc' = "create_dst"

(* open(dest_name, O_WRONLY | O_NOCTTY | O_CREAT | O_EXCL | O_NONBLOCK, 0600)*)
CreateDst ==
    /\ pc = "create_dst"
    /\ Log([call |-> "create_dst", excl |-> TRUE, mode |-> 384])
    /\ UNCHANGED <<cfg, srcThere>>
    /\ IF dst.there
       THEN Err("exists") /\ pc' = "done" /\ UNCHANGED dst
       ELSE /\ UNCHANGED msgs /\ pc' = "code"
            /\ dst' = [there |-> TRUE, fresh |-> TRUE, kind |-> "reg", mode |-> 384, uid |-> "me", gid |-> "me", times |-> "now"]

(* holes are made only when decompressing into a file created by xz, unless --no-sparse (io_open_dest_real) *)
SparseOn(c) == c.opmode = "decompress" /\ ~c.stdout /\ ~c.nosparse
(* cfg.tail: how the output data ends - "data", "hole" (data followed by all-zero 8 KiB blocks up to the end),
   "allhole" (nothing but such blocks); with SparseOn a hole is still pending when coding is over *)
PendingHole(c) == SparseOn(c) /\ c.tail \in {"hole", "allhole"}

(* coder_normal()/coder_passthru(): the payload is valid, coding succeeds; the io_write() calls on the target
   are one "data_dst" entry (none at all if everything went into the pending hole) *)
Code ==
    /\ pc = "code"
    /\ UNCHANGED <<cfg, srcThere, msgs>>
    /\ IF cfg.stdout THEN UNCHANGED <<sys, dst>> /\ pc' = "close"
       ELSE /\ IF SparseOn(cfg) /\ cfg.tail = "allhole" THEN UNCHANGED sys ELSE Log([call |-> "data_dst"])
            /\ dst' = [dst EXCEPT !.times = "now"]
            /\ pc' = IF PendingHole(cfg) THEN "finish_sparse" ELSE "chown_owner"

(* io_close(): lseek(dest_fd, pending - 1, SEEK_CUR) and one zero byte - before the attributes are copied, *)
(* because writing sets the modification time                                                              *)
FinishSparse ==
    /\ pc = "finish_sparse"
    /\ Log([call |-> "finish_sparse"])
    /\ dst' = [dst EXCEPT !.times = "now"]
    /\ UNCHANGED <<cfg, srcThere, msgs>>
    /\ pc' = "chown_owner"

(* fchown(dest_fd, src_st.st_uid, -1); failure warns only for root           *)
ChownOwner ==
    /\ pc = "chown_owner"
    /\ Log([call |-> "fchown", what |-> "uid"])
    /\ UNCHANGED <<cfg, srcThere>>
    /\ IF cfg.ownOK THEN dst' = [dst EXCEPT !.uid = IF cfg.uidSame THEN "me" ELSE "src"] /\ UNCHANGED msgs
       ELSE /\ UNCHANGED dst
            /\ IF cfg.root THEN Warn("owner") ELSE UNCHANGED msgs
    /\ pc' = "chown_group"

(* if (dest gid != src gid && fchown(dest_fd, -1, src gid)) -> restricted    *)
ChownGroup ==
    /\ pc = "chown_group"
    /\ UNCHANGED <<cfg, srcThere>>
    /\ IF cfg.gidSame THEN UNCHANGED <<sys, msgs, dst>> /\ pc' = "chmod"
       ELSE /\ Log([call |-> "fchown", what |-> "gid"])
            /\ IF cfg.grpOK THEN dst' = [dst EXCEPT !.gid = "src"] /\ UNCHANGED msgs /\ pc' = "chmod"
               ELSE UNCHANGED dst /\ Warn("group") /\ pc' = "chmod_restricted"

Chmod ==
    /\ pc \in {"chmod", "chmod_restricted"}
    /\ LET m == TargetMode(cfg.smode, pc = "chmod_restricted") IN
       /\ Log([call |-> "fchmod", mode |-> m])
       /\ IF cfg.chmodOK THEN dst' = [dst EXCEPT !.mode = m] /\ UNCHANGED msgs
          ELSE UNCHANGED dst /\ Warn("perms")
    /\ UNCHANGED <<cfg, srcThere>>
    /\ pc' = "utimens"

(* futimens(dest_fd, {src atime, src mtime}) with nanoseconds                *)
Utimens ==
    /\ pc = "utimens"
    /\ Log([call |-> "utimens", times |-> "src"])
    /\ dst' = [dst EXCEPT !.times = "src"]
    /\ UNCHANGED <<cfg, srcThere, msgs>>
    /\ pc' = "close"

(* io_close_dest(), io_close_src(): unlink the source unless --keep; with    *)
(* --force the identity check uses stat() (follows a symlink), else lstat()  *)
CloseAndUnlink ==
    /\ pc = "close"
    /\ UNCHANGED <<cfg, dst, msgs>>
    /\ IF KeepEff(cfg) THEN UNCHANGED <<sys, srcThere>>
       ELSE /\ sys' = sys \o << [call |-> "stat_src", follow |-> cfg.force], [call |-> "unlink_src"] >>
            /\ srcThere' = FALSE
    /\ pc' = "done"

ANext == OpenStdin \/ OpenSrc \/ StatSrc \/ InitCoder \/ NameDst \/ UnlinkDst \/ CreateDst \/ Code \/ FinishSparse
            \/ ChownOwner \/ ChownGroup \/ Chmod \/ Utimens \/ CloseAndUnlink

Sevs == [i \in 1..Len(msgs) |-> msgs[i].sev]
ExitOf == ExitCode(Sevs, cfg.nowarn)
StderrOf == StderrUsed(Sevs, cfg.quiet)
=============================================================================
