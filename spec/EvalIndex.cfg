INIT Init
NEXT Next
CONSTANTS
 BugDupChecks = FALSE  BugIterEmpty = FALSE  BugAppendTotal = FALSE
 NSlots = 3  MaxStreams = 0  MaxRecs = 0
 USizes = {}  VSizes = {}  Pads = {}  FlagSet = {}
