SPECIFICATION MCSpec
CONSTANTS MaxOpts = 2  Wide = TRUE  DoFiles = FALSE  Cov = FALSE  Big = TRUE  Strict = "none"
INVARIANTS TypeOK ScanContract EarlyExitContract NoPatternContract StatusContract ReadContract NameContract LabelContract StrictInv
CHECK_DEADLOCK FALSE
