SPECIFICATION GSpec
ACTION_CONSTRAINT Emit
CHECK_DEADLOCK FALSE
