SPECIFICATION Spec
CONSTANTS Profile = "thorough" DevDepth = 2 FlagMode = "some" Variant = "ok"
ACTION_CONSTRAINT Emit
CHECK_DEADLOCK FALSE
