------------------------------- MODULE Slicing -------------------------------
(* C06: an application that drives one abstract coder (SliceCoder) through   *)
(* lzma_code() (LzmaCode, the transcription of common.c used by C11) with    *)
(* arbitrary buffer slicing.  A behaviour IS a slicing:                       *)
(*   Feed(k)     the application makes k more input bytes available          *)
(*               (k = 0: an empty call is coming)                            *)
(*   OutSpace(m) the application grants m bytes of output space              *)
(*   DoCall      lzma_code(strm, fed everything ? LZMA_FINISH : LZMA_RUN)     *)
(* The one-shot observation <<output, return code, total_in>> of the same    *)
(* input is computed in Init; SliceIndependent says that every slicing ends  *)
(* with exactly that observation.                                            *)
EXTENDS LzmaCode, SliceCoder, TLC

CONSTANTS Inputs,      \* set of abstract inputs [fields, have, opt]
          MaxFeed,     \* largest Feed step
          MaxGrant     \* largest OutSpace grant below "everything"

VARIABLES inp,        \* the abstract input of this behaviour
          cs,         \* coder state (what the C code keeps between calls)
          fed,        \* input bytes made available so far
          grant,      \* avail_out of the coming call
          phase,      \* "feed" -> "space" -> "call" -> "feed" ...
          outAcc,     \* concatenated output
          oneShot,    \* observation of the one-shot run (function of inp)
          done        \* terminal observation reached

svars == <<inp, cs, fed, grant, phase, outAcc, oneShot, done>>
allvars == <<vars, svars>>

SInitWith(i) ==
    /\ InitWith({"RUN", "FINISH"}, TRUE)
    /\ inp = i /\ cs = CInit /\ fed = 0 /\ grant = 0 /\ phase = "feed" /\ outAcc = <<>>
    /\ oneShot = OneShot(i)
    /\ done = FALSE

SliceInit == \E i \in Inputs : SInitWith(i)

Feed(k) ==
    /\ phase = "feed" /\ ~done
    /\ fed + k <= inp.have
    /\ fed' = fed + k /\ phase' = "space"
    /\ UNCHANGED <<vars, inp, cs, grant, outAcc, oneShot, done>>

OutSpace(m) ==
    /\ phase = "space"
    /\ grant' = m /\ phase' = "call"
    /\ UNCHANGED <<vars, inp, cs, fed, outAcc, oneShot, done>>

Generous == fed = inp.have /\ grant >= Big(inp)

\* what next.code() hands to lzma_code() (overridden by MCStarveLazy.cfg to show that StarveLive is not vacuous)
InnerRet(r, ain, aout) == r.ret

DoCall ==
    /\ phase = "call"
    /\ LET a   == IF fed = inp.have THEN "FINISH" ELSE "RUN"
           ain == fed - totalIn
           r   == Code(inp, cs, ain, grant, a = "FINISH")
       IN /\ Call(a, ain, grant, FALSE, FALSE, FALSE, InnerRet(r, ain, grant), r.uin, Len(r.out))
          /\ cs' = IF obs'.innerRan THEN r.c ELSE cs
          /\ outAcc' = IF ~obs'.innerRan THEN outAcc
                       ELSE IF obs'.ret \in Notifs THEN outAcc \o r.out \o <<NoteMark(obs'.ret, totalIn')>>
                       ELSE outAcc \o r.out
          /\ done' = (obs'.ret \notin ({"OK", "BUF_ERROR"} \cup Notifs) \/ (obs'.ret = "BUF_ERROR" /\ Generous))
    /\ phase' = "feed"
    /\ UNCHANGED <<inp, fed, grant, oneShot>>

Grants == (0..MaxGrant) \cup {Big(inp)}

SliceNext ==
    \/ \E k \in 0..MaxFeed : Feed(k)
    \/ Feed(inp.have - fed)
    \/ \E m \in Grants : OutSpace(m)
    \/ DoCall

SliceSpec == SliceInit /\ [][SliceNext]_allvars

FinalObs == <<outAcc, obs.ret, totalIn>>

\* The property.  For rejected input behind a branch/call/jump filter only the status and the consumption are fixed
\* (the failing call leaves unconverted bytes in the caller's buffer).
Rejected == oneShot[2] # "STREAM_END"
SliceIndependent ==
    done => IF inp.opt.bcj > 0 /\ Rejected
            THEN obs.ret = oneShot[2] /\ totalIn = oneShot[3]
            ELSE FinalObs = oneShot
\* without the documented exception (violated by the BCJ configurations: shows that the exception is needed)
SliceIndependentStrict == done => FinalObs = oneShot

\* consequences used by the conformance side
TotalsAgree  == totalOut = Len(SelectSeq(outAcc, LAMBDA x : x < 9000))
NoInternal   == obs.kind = "call" => obs.ret \notin {"TIMED_OUT", "RET_INTERNAL2"}
Decodable    == (done /\ oneShot[2] = "STREAM_END" /\ inp.opt.bcj = 0) => Len(SelectSeq(outAcc, LAMBDA x : x < 9000)) = OutTotal(inp)

STypeOK == /\ TypeOK /\ fed \in 0..inp.have /\ totalIn <= fed /\ phase \in {"feed", "space", "call"}
=============================================================================
