SPECIFICATION Spec
CONSTANTS Which = "index" MaxTokens = 2
CONSTRAINT Emit
CHECK_DEADLOCK FALSE
