---------------------------- MODULE IndexContract ---------------------------
(* C13, index half: what must hold of every index reachable by any history   *)
(* of calls, stated against the declarative part of Index.tla.               *)
EXTENDS IndexOps, TLC

VARIABLE st

Regs == {st.reg[k] : k \in LiveSlots(st)}

\* every reported size is a valid lzma_vli, every Stream is within the format limits
InvValid == \A i \in Regs : Valid(i)

\* lzma_index_checks() = the set of Check IDs of the Streams whose flags are set
InvChecks == \A i \in Regs : ChecksOp(i) = ChecksI(i)

\* a complete iteration (rewind, next until it says "no more") returns exactly Items(mode): every Stream /
\* Block of the mode once, in file order
RECURSIVE Walk(_, _, _)
Walk(i, mode, p) == LET q == IterStep(i, mode, p) IN IF q = <<0, 0>> THEN <<>> ELSE <<q>> \o Walk(i, mode, q)
InvIterFull == \A i \in Regs : \A mode \in Modes : Walk(i, mode, <<0, 0>>) = Items(i, mode)
InvItems == \A i \in Regs :
               /\ Len(Items(i, BLOCK)) = BlockCount(i) /\ Len(Items(i, STREAM)) = StreamCount(i)
               /\ \A mode \in Modes : LET it == Items(i, mode) IN \A a, b \in 1..Len(it) : a < b => After(ANY, it[a], it[b])
               /\ {q[1] : q \in RangeOf(Items(i, ANY))} = 1..StreamCount(i)
               /\ RangeOf(Items(i, BLOCK)) \subseteq RangeOf(Items(i, ANY))
               /\ RangeOf(Items(i, NONEMPTY)) = {q \in RangeOf(Items(i, BLOCK)) : i.streams[q[1]].recs[q[2]].v # Zero}

\* from every position an iterator can be left at (including "Stream had no Blocks" positions of Streams that
\* have grown since), next(mode) returns the first item of the mode after the position
Positions(i) == {<<0, 0>>} \cup {q \in (1..StreamCount(i)) \X (0..MaxRecs) : q[2] <= NRecs(i, q[1])}
InvIterNext == \A i \in Regs : \A mode \in Modes : \A p \in Positions(i) : IterStep(i, mode, p) = NextItem(i, mode, p)

\* locate(t) fails exactly when t is beyond the data; otherwise it returns the unique non-empty Block containing t
InvLocate == \A i \in Regs : \A t \in LocTargetsOf(i, RangeOf(Layout(i).bl)) :
                LET S == Containing(i, t) IN
                /\ Cardinality(S) <= 1
                /\ S = {} <=> Le(USizeI(i), t)
                /\ LocateOp(i, t) = IF S = {} THEN <<0, 0>> ELSE PosOfBlock(i, LocateDecl(i, t))

\* operations: a failed call changes nothing; a call succeeds exactly when its arguments are valid and the
\* result is within the format limits; dup and encode->decode preserve what they must
ArgsOK(o) == Le(UnpaddedMin, o.u) /\ Le(o.u, UnpaddedMax) /\ IsVli(o.v)
InvOps == \A o \in CandIndexOps(st) :
            LET a == Apply(st, o)
                i == st.reg[o.k]
            IN  /\ a.ret # "OK" => a.st = st
                /\ o.op = "append" =>
                     (a.ret = "OK") = (ArgsOK(o) /\ Valid(WithLast(i, [LastStream(i) EXCEPT !.recs = Append(@, Rec(o.u, o.v))])))
                /\ o.op = "append" /\ ~ArgsOK(o) => a.ret = "PROG_ERROR"
                /\ o.op = "padding" =>
                     (a.ret = "OK") = (IsVli(o.u) /\ Mod4(o.u) = 0 /\ Valid(WithLast(i, [LastStream(i) EXCEPT !.pad = o.u])))
                /\ o.op = "cat" =>
                     /\ (a.ret = "OK") = Valid([streams |-> i.streams \o st.reg[o.j].streams, acc |-> {}])
                     /\ a.ret = "OK" => a.st.reg[o.k].streams = i.streams \o st.reg[o.j].streams
                /\ o.op = "dup" => a.st.reg[o.j].streams = i.streams /\ ChecksOp(a.st.reg[o.j]) = ChecksOp(i)
                /\ o.op = "encdec" =>
                     /\ a.ret = "OK" /\ DoEncDec(i) = DoEncDecFold(i)
                     /\ AllRecs(a.st.reg[o.j]) = AllRecs(i) /\ StreamCount(a.st.reg[o.j]) = 1
                     /\ SizeI(a.st.reg[o.j]) = SizeI(i)
                     /\ Len(EncodedBody(i)) + 4 = SizeI(i)

\* dup and encode->decode of every reachable index (also of those whose copy would not fit the exploration bounds)
InvDup == \A i \in Regs : LET d == DoDup(i).idx IN d.streams = i.streams /\ ChecksOp(d) = ChecksOp(i) /\ ChecksI(d) = ChecksI(i)
InvEncDec == \A i \in Regs : LET r == DoEncDec(i) IN
                /\ r.ret = "OK" /\ r = DoEncDecFold(i)
                /\ AllRecs(r.idx) = AllRecs(i) /\ StreamCount(r.idx) = 1 /\ SizeI(r.idx) = SizeI(i)
                /\ Len(EncodedBody(i)) + 4 = SizeI(i)
=============================================================================
