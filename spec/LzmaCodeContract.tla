-------------------------- MODULE LzmaCodeContract --------------------------
(* Property C11 stated on its own, as a monitor over what a caller can see   *)
(* (arguments, return code, bytes consumed/produced, whether the coder was   *)
(* asked to act).  It does not mention lzma_internal; it keeps the history   *)
(* a reader of the API documentation would keep.  MCLzmaCode checks          *)
(* LzmaCode!Spec => every step satisfies ContractStep.                       *)
EXTENDS LzmaCode

VARIABLES mEnded,   \* a RUN/FINISH call has reported end of stream
          mFatal,   \* a fatal error has been returned
          mFlush,   \* flush/finish action started and not yet completed, or "NONE"
          mPend,    \* avail_in left by the last accepted call
          mStall    \* the last accepted call could neither consume nor produce (and returned OK)

mvars == <<mEnded, mFatal, mFlush, mPend, mStall>>

MInit == mEnded = FALSE /\ mFatal = FALSE /\ mFlush = "NONE" /\ mPend = 0 /\ mStall = FALSE

NonFatalRets == {"OK", "STREAM_END", "BUF_ERROR", "SEEK_NEEDED"} \cup NonFatal

ProgrammingError(o) ==
    \/ ~inited
    \/ o.action \notin ValidActions
    \/ o.action \notin supported
    \/ (o.inNull /\ o.ain # 0)
    \/ (o.outNull /\ o.aout # 0)

\* What the call described by observation o must have done, given the monitor state before it.
Verdict(o) ==
    IF ProgrammingError(o) THEN o.ret = "PROG_ERROR" /\ ~o.innerRan
    ELSE IF o.resv THEN o.ret = "OPTIONS_ERROR" /\ ~o.innerRan
    ELSE IF mEnded THEN o.ret = "STREAM_END" /\ ~o.innerRan
    ELSE IF mFatal THEN o.ret = "PROG_ERROR" /\ ~o.innerRan
    ELSE IF mFlush # "NONE" /\ (o.action # mFlush \/ o.ain # mPend) THEN o.ret = "PROG_ERROR" /\ ~o.innerRan
    ELSE /\ o.innerRan
         /\ (o.ret = "BUF_ERROR") <=> (o.innerRet = "OK" /\ o.uin = 0 /\ o.uout = 0 /\ mStall)
         /\ o.ret # "BUF_ERROR" => o.ret = (IF o.innerRet = "TIMED_OUT" THEN "OK" ELSE o.innerRet)

Accounting(o) ==
    /\ o.uin <= o.ain /\ o.uout <= o.aout
    /\ ~o.innerRan => (o.uin = 0 /\ o.uout = 0)
    /\ totalIn' = totalIn + o.uin /\ totalOut' = totalOut + o.uout
    /\ (o.inNull => o.uin = 0) /\ (o.outNull => o.uout = 0)

MStep(o) ==
    IF ~o.innerRan THEN UNCHANGED mvars
    ELSE /\ mEnded' = (o.ret = "STREAM_END" /\ o.action \in {"RUN", "FINISH"})
         /\ mFatal' = (o.ret \notin NonFatalRets)
         /\ mFlush' = IF o.ret = "STREAM_END" \/ (o.ret = "SEEK_NEEDED" /\ o.action = "FINISH") THEN "NONE"
                      ELSE IF o.action \in FlushActions THEN o.action ELSE mFlush
         /\ mPend' = o.ain - o.uin
         /\ mStall' = (o.innerRet = "OK" /\ o.uin = 0 /\ o.uout = 0)

ContractStep == obs'.kind = "call" => (Verdict(obs') /\ Accounting(obs'))

\* -- consequences stated the way the property text states them (checked separately as invariants)
StickyEnd   == mEnded => seq = "END"
StickyFatal == mFatal => seq = "ERROR"
BufErrorNotFatal == (obs.kind = "call" /\ obs.ret = "BUF_ERROR") => ~mFatal /\ seq \notin {"ERROR"}
=============================================================================
