SPECIFICATION Spec
CONSTANTS
 MaxUpdates = 0
 MaxReinit = 0 BSChoices = {} FixBlockSize = TRUE  FixLostWorker = TRUE
 CountCalls = TRUE
 NW = 2  NW0 = 2  NWChoices = {2}  BS = 2  Total = 2  Chunk = 1  HdrSz = 1  TailSz = 2
 Timeout = FALSE  Spurious = FALSE  MayFail = FALSE MayFailMain = FALSE
 Gives = {0, 1, 100}  Spaces = {0, 1, 100}
 FlushActs = {"FULL_BARRIER"}
 MaxCalls = 5
CONSTRAINT CallBound
VIEW MCView
INVARIANTS OrderedOutput BlocksPartitionInput BoundariesOnlyWhereRequested FlushCompletes BarrierCompletes FinishCompletes ProgressTruthful BufErrorOnlyWhenStarved DocumentedCodes QueueBound EndJoinsAll InBufFits
