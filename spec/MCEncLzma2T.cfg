SPECIFICATION Spec
CONSTANTS LenMin = 2 LenMax = 3 RepeatMax = 3 ChunkUncompMax = 4 ChunkCompMax = 3
 Alphabet = {0, 1} DictSizes = {2, 4} MaxOut = 7
 Presets <- MCPresets
INVARIANTS TypeOK CountersAgree PropsKnownInChunk PropsAreTheConfigured ObligationsMet AggregatesSufficient MatchedLiteralInChunk
CHECK_DEADLOCK FALSE
