------------------------------ MODULE GenSimple ------------------------------
(* (G) for C15: call plans of the simple_code() protocol.  TLC simulates the  *)
(* MCBcj machine with a history variable and prints, when a behaviour reaches *)
(* LZMA_STREAM_END, every call with the predicted (input consumed, bytes      *)
(* written, return value).  The driver performs exactly these calls on the    *)
(* real coder and compares each of them.                                      *)
EXTENDS MCBcj, Json, IOUtils

Seed == atoi(IOEnv.SEED) % 30011
VARIABLE hist
gvars == <<mvars, hist>>

GLen(a) == CASE a = "ia64" -> 50 [] a = "riscv" -> 34 [] OTHER -> 21
GInit == /\ arch \in MCArchs
         /\ enc \in BOOLEAN
         /\ off \in Offsets(arch)
         /\ \E sd \in SampleSeeds, sh \in {0, 1} :
               LET x == Sample(arch, GLen(arch) + sd, Seed * 53 + sd * 11, sh)
               IN data = IF enc THEN x ELSE Stream(arch, TRUE, off, x)
         /\ s = ScInit(arch, off)
         /\ ipos = 0 /\ out = <<>> /\ ret = "OK" /\ hist = <<>>
GCall(nin, space) ==
    /\ MCCall(nin, space)
    /\ LET avail == Min3(nin, Len(data) - ipos)
       IN hist' = Append(hist, [nin |-> avail, space |-> space, finish |-> (ipos + avail = Len(data)),
                                used |-> ipos' - ipos, out |-> SubSeq(out', Len(out) + 1, Len(out')), ret |-> ret'])
GNext == \E nin \in InSizes, space \in OutSizes : GCall(nin, space)
GSpec == GInit /\ [][GNext]_gvars
Emit == (ret' = "STREAM_END" \/ Len(hist') = 40) =>
           PrintT(ToJson([arch |-> arch, enc |-> enc, off |-> off, data |-> data, calls |-> hist']))
=============================================================================
