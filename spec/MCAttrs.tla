------------------------------- MODULE MCAttrs -------------------------------
(* Attrs (transcription) against the overwrite / refusal / metadata clauses  *)
(* of C19, for every scenario in the constants.  Two configurations:         *)
(*   MCAttrs.cfg      every flag / kind / outcome combination, modes from a  *)
(*                    representative set                                     *)
(*   MCAttrsModes.cfg the whole mode lattice 0..07777 x both fchown outcomes *)
EXTENDS Attrs, TLC

CONSTANTS Modes, KindSet, DstSet, NlinkSet, OpModes, KeepSet, ForceSet, StdoutSet, NameSet, PayloadSet,
          UidSameSet, GidSameSet, OwnSet, GrpSet, ChmodSet, NoWarnSet, TailSet, NoSparseSet

Init == \E om \in OpModes, k \in KeepSet, f \in ForceSet, so \in StdoutSet, nw \in NoWarnSet,
           kd \in KindSet, m \in Modes, nl \in NlinkSet, us \in UidSameSet, gs \in GidSameSet,
           dk \in DstSet, nm \in NameSet, pl \in PayloadSet, oo \in OwnSet, go \in GrpSet, co \in ChmodSet, tl \in TailSet, ns \in NoSparseSet :
          AInit([opmode |-> om, keep |-> k, force |-> f, stdout |-> (so \/ kd = "stdin"), optStdout |-> so, tail |-> tl, nosparse |-> ns, nowarn |-> nw, quiet |-> 0,
                 kind |-> kd, smode |-> m, nlink |-> nl, uidSame |-> us, gidSame |-> gs,
                 dstKind |-> dk, nameOK |-> nm, payloadOK |-> pl,
                 ownOK |-> oo, grpOK |-> go, chmodOK |-> co, root |-> TRUE])
Spec == Init /\ [][ANext]_avars /\ WF_avars(ANext)

AllModes == 0..4095
Done == pc = "done"
Success == Done /\ \A i \in 1..Len(msgs) : msgs[i].sev # "error" /\ msgs[i].why \notin
              {"symlink", "directory", "not_regular", "setuid_setgid", "sticky", "hardlinks", "suffix"}
Subset(a, b) == (a & b) = a          \* bit set a within bit set b

(* never overwrites an existing target without --force                      *)
NoOverwrite == Done /\ cfg.dstKind # "none" /\ ~cfg.force => dst = OldDst(cfg.dstKind)
(* an existing target is only ever removed by --force, and only after the   *)
(* source has been accepted, recognised and named                           *)
OldTargetGone == Done /\ cfg.dstKind = "reg" /\ dst # OldDst("reg") =>
                    /\ cfg.force /\ ~cfg.stdout /\ cfg.nameOK
                    /\ (cfg.opmode = "decompress" => cfg.payloadOK) /\ Refusal(cfg) = ""
(* never writes a file from a non-regular source                            *)
NonRegularNeverWritten == StatKind(cfg) # "reg" => ~dst.fresh
(* without --force / --keep / --stdout: no symlinks, several links, setuid  *)
StrictRefusal ==
    Done /\ ~cfg.force /\ ~cfg.keep /\ ~cfg.stdout
         /\ (cfg.kind \in {"lnk_reg", "lnk_dangling"} \/ (cfg.kind = "reg" /\ (cfg.nlink > 1 \/ (cfg.smode & 3584) # 0)))
      => /\ ~dst.fresh /\ srcThere /\ dst = OldDst(cfg.dstKind)
         /\ Len(msgs) = 1 /\ msgs[1].sev = "warn"
         /\ ExitOf = IF cfg.nowarn THEN 0 ELSE 2
(* the target's permission bits: never broader than the source, no 07000    *)
ModeSafe == dst.fresh => Subset(dst.mode, cfg.smode & 511) \/ dst.mode = 384
ModeNoSpecial == dst.fresh => (dst.mode & 3584) = 0
ModeExact == Done /\ dst.fresh /\ cfg.chmodOK /\ (cfg.gidSame \/ cfg.grpOK) => dst.mode = (cfg.smode & 511)
(* group could not be set: group and other get only what both had           *)
ModeRestricted == Done /\ dst.fresh /\ cfg.chmodOK /\ ~cfg.gidSame /\ ~cfg.grpOK =>
                    LET g == (dst.mode & 56) \div 8  o == dst.mode & 7
                        sg == (cfg.smode & 56) \div 8  so == cfg.smode & 7 IN
                    g = o /\ Subset(g, sg) /\ Subset(g, so) /\ (dst.mode & 448) = (cfg.smode & 448)
(* owner / group where permitted, timestamps always                         *)
OwnerGroupTimes == Done /\ dst.fresh =>
                    /\ dst.uid = (IF cfg.ownOK /\ ~cfg.uidSame THEN "src" ELSE "me")
                    /\ dst.gid = (IF ~cfg.gidSame /\ cfg.grpOK THEN "src" ELSE "me")
                    /\ dst.times = "src"
(* --keep / --stdout never remove the source; the source is removed only    *)
(* after a complete target exists                                           *)
KeepKeeps == (cfg.keep \/ cfg.stdout) /\ cfg.kind # "missing" => srcThere
RemovedOnlyOnSuccess == cfg.kind # "missing" /\ ~srcThere => Done /\ Success /\ dst.fresh /\ dst.times = "src"
RemovedOnSuccess == Done /\ Success /\ ~cfg.keep /\ ~cfg.stdout => ~srcThere /\ dst.fresh
(* nothing is written to the target after its timestamps were set: the target's times are the source's    *)
NoWriteAfterTimes == \A i \in 1..Len(sys), j \in 1..Len(sys) :
                        i < j /\ sys[i].call \in {"fchown", "fchmod", "utimens"} => sys[j].call \notin {"data_dst", "finish_sparse"}
(* a hole pending at the end of the data is turned into file size before the attributes are copied          *)
HoleFinished == Done /\ dst.fresh /\ PendingHole(cfg) => \E i \in 1..Len(sys) : sys[i].call = "finish_sparse"
(* the name "-" on the command line is standard input: no file is opened, created or removed               *)
StdinTouchesNothing == cfg.kind = "stdin" => sys = <<>> /\ srcThere /\ ~dst.fresh
(* exit status: 0 / 1 / 2                                                   *)
ExitOK == Done => /\ ExitContract(Sevs, cfg.nowarn)
                  /\ (Success /\ msgs = <<>> => ExitOf = 0)
(* the target is created exclusively with mode 0600                         *)
CreateExclusive == \A i \in 1..Len(sys) : sys[i].call = "create_dst" => sys[i].excl /\ sys[i].mode = 384
(* termination: every scenario reaches done                                 *)
Terminates == <>Done
=============================================================================
