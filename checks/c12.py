"""C12 - flush actions make all prior input decodable; mid-stream option changes are safe.

(M) MCXzStreamEnc*: XzStreamEnc (transcription of stream_encode / block_encode / lz_encode / lzma2_encode /
    lzma_encode / simple_code / delta_encode / stream_encode_mt and the lzma_filters_update chain, composed with
    LzmaCode of C11) => XzStreamEncContract (abstract decoder over the emitted format elements + the application's
    notebook) for all application histories within the constants.
(G/R) GenXzStreamEnc: histories with predicted return codes / accepted bytes / Blocks (breadth-first: one history
    per reachable model state; -simulate: longer ones) are executed by harness/pydrv/c12drv.py on the real encoders
    (stream, stream_mt, raw, Block) x filter chains x output grants (1 byte, random small, big) with real data.
    At every completed flush the output so far goes to a fresh liblzma decoder and to the glue codecs; both must
    give back exactly the bytes accepted so far.  Return codes of every lzma_code loop and lzma_filters_update,
    and the Blocks of the final output, are compared with the model.
(V) Every lzma_code() call of a subset of these runs (+ two xz command line plans: --flush-timeout through a slow
    pipe, --block-list with different filter chains) is validated by TraceXzStreamEnc, including the sequence of
    format elements that glue finds in the real output.
"""
import json, os, random, subprocess, time, threading, select, fcntl, collections
from concurrent.futures import ThreadPoolExecutor
from lib import tlc, build, tracev
from lib.ctx import MachineryError
from checks.c11 import plans_from_tlc

HERE = os.path.dirname(os.path.dirname(os.path.abspath(__file__)))

# ------------------------------------------------------------------------------------------------ (G) plans
def hist_key(p):
    return json.dumps([p["enc"], p["chain"], p["check"], p["bsize"],
                       [(o["k"], o.get("a"), o.get("n"), o.get("target"), o.get("fail"),
                         (o.get("ntok"), o.get("where"), o.get("during")) if o.get("mid") else None)
                        for o in p["ops"]]], sort_keys=True)

def prediction(p):
    """What the replay compares: one tuple per step."""
    mt = p["enc"] == "mt"
    out = []
    for o in p["ops"]:
        if o["k"] == "op":
            blk = None if (mt and not (o["ret"] == "STREAM_END" and o["a"] in ("FULL_FLUSH", "FINISH"))) \
                else [(b["n"], b["pre"]) for b in o["blocks"]]
            ret = o["ret"]
            if mt and ret == "BUF_ERROR":
                ret = "OK"       # whether a worker had produced output in time is not a function of the history
            out.append(("op", ret, o["given"], json.dumps(blk)))
        else:
            out.append(("update", o["ret"]))
    return tuple(out)

def collect_plans(outs):
    """-> {history key: (plan, set of predictions)}; all plans that are a proper prefix of another one are dropped."""
    by = {}
    for out in outs:
        for p in plans_from_tlc(out):
            k = hist_key(p)
            e = by.get(k)
            if e is None:
                by[k] = (p, {prediction(p)})
            else:
                e[1].add(prediction(p))
    prefixes = set()
    for k, (p, _) in by.items():
        h = json.loads(k)
        for i in range(len(h[4])):
            prefixes.add(json.dumps(h[:4] + [h[4][:i]], sort_keys=True))
    return {k: v for k, v in by.items() if k not in prefixes}

def features(p):
    """Kinds of steps in a plan: used to make the sample of replayed histories cover all of them."""
    f = set()
    prev_open = False
    given = 0
    for o in p["ops"]:
        if o["k"] == "op":
            f.add("%s:%s:%s" % (o["a"], o["ret"], "data" if o["n"] else "nodata"))
            if o["a"] != "RUN" and prev_open:
                # a flush / finish that has to end a Block that is open, with or without new input in the same call
                f.add("%s:%s:%s:blockopen" % (o["a"], o["ret"], "data" if o["n"] else "nodata"))
            if o["ret"] == "STREAM_END" and o["a"] != "RUN":
                f.add("%s:done:%s" % (o["a"], "new" if o["given"] > given else "nonew"))
            prev_open = o["open"]; given = o["given"]
        else:
            t = o["target"]
            if o.get("fail", "none") != "none":
                f.add("update:%s:alloc-%s:%s" % (o["ret"], o["fail"], "open" if prev_open else "closed"))
            f.add("update:%s:%s:%s%s" % (o["ret"], "open" if prev_open else "closed",
                                          "initfail" if t["pre"] == "armbad" else
                                          "samepre" if t["pre"] == p["chain"]["pre"] else "otherpre", ":" + t["props"]))
    return f

# ------------------------------------------------------------------------------------------------ (R) replay
def choose_sizes(p, rng, grant):
    nunits = sum(o["n"] for o in p["ops"] if o["k"] == "op") + 1
    x86 = p["chain"]["pre"] == "x86"
    if grant == "one":
        u = rng.choice([1, 2, 5, 17, 40])
    elif grant == "some":
        u = rng.choice([1, 3, 40, 300, 3000])
        u = min(u, 48000 // nunits)
    else:
        u = rng.choice([1, 7, 300, 5000, 70000, 200000])
        u = min(u, (900000 if p["enc"] == "mt" and p["bsize"] == 0 else 1600000) // nunits)
    if x86:
        u = max(u, 16)        # TinyInput = FALSE in GenXzStreamEnc: every piece is longer than the BCJ look-ahead
    return max(u, 1)

def make_history(p, rng, grant=None, long=False):
    grant = grant or rng.choice(["one", "some", "big", "big"])
    if any(o.get("ret") == "BUF_ERROR" for o in p["ops"]) and p["grant"] == "big":
        # LZMA_BUF_ERROR (two calls in a row without progress) depends on how the output is sliced: a call that only
        # gets one byte makes progress as long as any header byte is pending.  Replay with the grant of the plan.
        grant = "big"
    u = choose_sizes(p, rng, grant)
    if long:
        # streaming profile: many small writes (a write after a completed flush is much shorter than the encoder's
        # look-ahead), data whose matches reach back across the flush points
        u = rng.choice([1, 2, 5, 13, 20])
    # lzma_filters_update() calls made while an operation is unfinished are attached to that operation: the driver
    # makes them when the output ends at the same place (elements completed, element being written)
    ops = []
    pending = []
    for o in p["ops"]:
        if o["k"] == "update" and o.get("mid"):
            pending.append(dict(target=o["target"], fail=o["fail"], ntok=o["ntok"], where=o["where"], during=o["during"]))
        elif o["k"] == "update":
            ops.append(dict(k="update", target=o["target"], fail=o.get("fail", "none")))
        else:
            ops.append(dict(k="op", a=o["a"], n=o["n"], inject=pending))
            pending = []
    if pending:
        d = pending[0]["during"]
        ops.append(dict(k="op", a=d["a"], n=d["n"], inject=pending, nopred=True))
    if any(o.get("inject") for o in ops):
        grant = "one"
        u = max(rng.choice([1, 5, 17]), 16 if p["chain"]["pre"] == "x86" else 1)
    # the application always finishes the stream with some more input: "the whole stream still decodes to the whole
    # input".  Its outcome is decided by the contract (4): STREAM_END unless an earlier call was refused fatally.
    ops.append(dict(k="op", a="FINISH", n=rng.choice([1, 1, 0]), extra=True))
    h = dict(enc=p["enc"], chain=p["chain"], check=p["check"], grant=grant, bsize=p["bsize"], unit=u, ops=ops)
    if long:
        h["data"] = rng.choice(["repetitive", "repetitive", "repetitive", "mixed"])
        h["probe"] = False
    return h

def observed(h, res):
    """The same shape as prediction(), from a real run."""
    mt = h["enc"] == "mt"
    u = h["unit"]
    out = []
    closed = blocks_of(res["toks"])
    n_ops = len(res["ops"])
    for i, o in enumerate(res["ops"]):
        if o["k"] == "op":
            ret = o["ret"]
            if mt and ret == "BUF_ERROR":
                ret = "OK"
            out.append(["op", ret, o["given"], None])
        else:
            out.append(["update", o["ret"]])
    return out, closed

def blocks_of(toks):
    """[(uncompressed size, pre)] of the complete Blocks in a token list."""
    out = []
    pre = None; have_end = False
    idx = None
    for t in toks:
        if t["kind"] == "mt_block":
            out.append((t["n"], t["pre"]))
        elif t["kind"] == "block_header":
            pre = t["pre"]
        elif t["kind"] == "block_end":
            out.append((t.get("n"), pre))
        elif t["kind"] == "index":
            idx = t["records"]
    if idx is not None and len(idx) == len(out):
        out = [(idx[i], out[i][1]) for i in range(len(out))]
    return out

def compare(ctx, p, preds, h, res):
    """Compare a real run with the model's predictions (any of `preds`).  Returns list of (key, detail)."""
    u = h["unit"]; mt = h["enc"] == "mt"
    obs, closed = observed(h, res)
    probs = []
    best = None
    nopred = any(o.get("nopred") for o in h["ops"])
    if nopred:
        obs = obs[:len(p["ops"])]
    # After an update whose allocator fails in the initialisation phase ("init") the outcome is not a function of
    # the history (whether the re-initialisation allocates depends on what liblzma can reuse): the comparison stops
    # there, such runs are judged by the trace validation (both outcomes are behaviours of the model).
    stop = min([i for i, o in enumerate(p["ops"]) if o["k"] == "update" and o.get("fail") == "init"] + [len(p["ops"])])
    barrier = stop < len(p["ops"])
    for pr in preds:
        errs = []
        for i, (a, b) in enumerate(zip(pr, obs)):
            if i >= stop:
                break
            step = p["ops"][i]
            what = step.get("a") or "update"
            if a[0] == "update":
                if a[1] != b[1]:
                    errs.append(("replay:update_ret:%s:%s" % (h["enc"], a[1]),
                                 "step %d lzma_filters_update(%s): model %s, real %s" % (i, step["target"], a[1], b[1])))
                continue
            if a[1] != b[1]:
                errs.append(("replay:ret:%s:%s:%s" % (h["enc"], what, a[1]),
                             "step %d %s(%d units): model %s, real %s" % (i, what, step["n"], a[1], b[1])))
            if a[2] * u != b[2]:
                errs.append(("replay:given:%s:%s" % (h["enc"], what),
                             "step %d: model accepted %d bytes, real %d" % (i, a[2] * u, b[2])))
            # completed flush: both judges reproduce everything
            o = res["ops"][i]
            flush = a[1] == "STREAM_END" and what != "RUN" and not (mt and what == "FULL_BARRIER")
            if flush and b[1] == "STREAM_END" and "check" in o:
                for j in ("lib", "glue"):
                    if o["check"][j] != a[2] * u:
                        errs.append(("replay:decodable:%s:%s:%s" % (j, h["enc"], what),
                                     "step %d %s completed: model says %d bytes decodable, %s decoded %d (%s)"
                                     % (i, what, a[2] * u, j, o["check"][j], o["check"])))
        # the closing FINISH
        if len(obs) == len(pr) + 1 and not nopred and not barrier:
            fatal = any(x[0] == "op" and x[1] == "OPTIONS_ERROR" for x in pr)
            ended = any(x[0] == "op" and x[1] == "STREAM_END" and p["ops"][i]["a"] == "FINISH" for i, x in enumerate(pr))
            want = "PROG_ERROR" if fatal and not ended else "STREAM_END"
            if obs[-1][1] != want:
                errs.append(("replay:final_finish:%s:%s" % (h["enc"], obs[-1][1]),
                             "closing LZMA_FINISH returned %s, expected %s" % (obs[-1][1], want)))
            fin_total = (pr[-1][2] if pr and pr[-1][0] == "op" else max([x[2] for x in pr if x[0] == "op"] + [0])) * u
            o = res["ops"][-1]
            if want == "STREAM_END" and not ended and obs[-1][1] == want:
                for j in ("lib", "glue"):
                    if o.get("check", {}).get(j) != o["given"]:
                        errs.append(("replay:decodable:%s:%s:FINISH" % (j, h["enc"]),
                                     "finished stream: %d bytes accepted, %s decoded %s" % (o["given"], j, o.get("check"))))
        # Blocks of the output against the model's index at the last modelled step (before the closing FINISH)
        last = pr[-1] if pr else None
        if last and last[0] == "op" and last[3] != "null" and h["enc"] in ("stream", "mt") and not nopred and not barrier:
            want = [(n * u, pre) for n, pre in json.loads(last[3])]
            got = [(n, pre) for n, pre in closed]
            head = got[:len(want)]
            if len(head) != len(want) or [w[1] for w in want] != [g[1] for g in head] \
               or any(g[0] is not None and g[0] != w[0] for w, g in zip(want, head)) \
               or (h["enc"] == "stream" and len(got) > len(want) + 1):
                errs.append(("replay:blocks:%s" % h["enc"],
                             "Blocks in the final output %s; the model had closed %s before the closing FINISH" % (got, want)))
        errs = errs[:1]          # what follows the first divergence of a history is a consequence of it
        if best is None or len(errs) < len(best):
            best = errs
        if not errs:
            break
    return best or []

HANG_S = 25      # a history takes milliseconds to a few seconds; lzma_code() that does not return is a finding
HANGS = [0]      # hangs seen in this run: once it is a finding, later ones are not waited for that long

class Worker:
    """A child process running harness/pydrv/c12drv.py under the sanitizer runtime (a crash of liblzma must not
    take the check down: it is a finding)."""
    def __init__(self, so):
        e = build.asan_env()
        e["C12_LIBLZMA"] = so
        e["PYTHONPATH"] = HERE
        e["ASAN_OPTIONS"] = "detect_leaks=0:abort_on_error=1:allocator_may_return_null=1"
        self.env = e
        self.p = None
    def start(self):
        self.errf = open(os.path.join(self.workdir, "worker.%d.err" % id(self)), "w+")
        self.p = subprocess.Popen([os.sys.executable, "-m", "harness.pydrv.c12drv"], stdin=subprocess.PIPE,
                                  stdout=subprocess.PIPE, stderr=self.errf, env=self.env, cwd=HERE, text=True)
    def run(self, hist, seed):
        if self.p is None or self.p.poll() is not None:
            self.start()
        try:
            self.errf.seek(0); self.errf.truncate()      # keep only what the current history prints
            self.p.stdin.write(json.dumps(dict(hist=hist, seed=seed)) + "\n"); self.p.stdin.flush()
            limit = HANG_S if HANGS[0] == 0 else 8
            r, _, _ = select.select([self.p.stdout], [], [], limit)
            if not r:
                HANGS[0] += 1
                self.p.kill(); self.p.wait(); self.p = None
                return dict(crash=True, rc="hang", stderr="HANG: no answer within %d s" % limit)
            line = self.p.stdout.readline()
        except BrokenPipeError:
            line = ""
        if not line:
            rc = self.p.wait()
            self.errf.seek(0)
            err = self.errf.read()
            self.p = None
            return dict(crash=True, rc=rc, stderr=err[-3000:])
        return json.loads(line)
    def stop(self):
        if self.p and self.p.poll() is None:
            try:
                self.p.stdin.close(); self.p.wait(timeout=10)
            except Exception:
                self.p.kill()

def crash_key(h, err):
    """Stable key for a crash: sanitizer / assertion headline."""
    import re
    if err.startswith("HANG"):
        return "hang:%s" % h["enc"]
    m = re.search(r"Assertion `([^']*)' failed", err)
    if m:
        return "crash:assert:%s" % re.sub(r"[^A-Za-z0-9_>.=!<-]+", "_", m.group(1))[:60]
    m = re.search(r"ERROR: AddressSanitizer: ([A-Za-z-]+)", err)
    if m:
        return "crash:asan:%s:%s" % (m.group(1), h["enc"])
    m = re.search(r"runtime error: ([a-z ]+)", err)
    if m:
        return "crash:ubsan:%s" % m.group(1).strip().replace(" ", "_")[:40]
    return "crash:signal:%s" % h["enc"]

def sweep_histories(ctx, so, bfs, quick):
    """Flush / finish offsets swept over the bytes that follow a point where the encoder closes an LZMA2 chunk because
    it is FULL (the replay predictions elsewhere use inputs whose chunks end only at flushes).  The boundary is
    measured on the real encoder with glue; the histories are model plans RUN(e) X(0) and X(e), one unit = e bytes."""
    rng = ctx.rng
    lzopt = dict(dict_size=1 << 20, mf=0x14, mode=2, nice_len=rng.choice([64, 273]), depth=0)
    base = dict(chain=dict(pre="none", lz="lzma2", props="p0"), lzopt=lzopt, data="text",
                data_seed=rng.getrandbits(32), data_len=420000)
    w = Worker(so); w.workdir = ctx.workdir
    if w.p is None:
        w.start()
    w.errf.seek(0); w.errf.truncate()
    w.p.stdin.write(json.dumps(dict(boundaries=base)) + "\n"); w.p.stdin.flush()
    line = w.p.stdout.readline()
    w.stop()
    if not line:
        raise MachineryError("chunk boundary probe failed")
    bounds = [b["end"] for b in json.loads(line)["boundaries"] if b["kind"] == "lzma"]
    if not bounds or bounds[0] > 300000:
        raise MachineryError("the probe input does not fill an LZMA2 chunk: %s" % bounds[:3])
    B = bounds[0]
    # model plans of the two shapes, per encoder
    shapes = {}
    for k, (p, preds) in bfs.items():
        if p["chain"] != base["chain"] or p["enc"] == "mt" or p["check"] != "crc":
            continue
        o = p["ops"]
        if len(o) >= 2 and o[0]["k"] == "op" and o[0]["a"] == "RUN" and o[0]["n"] == 1 and o[1]["k"] == "op" \
           and o[1]["a"] != "RUN" and o[1]["n"] == 0 and o[1]["ret"] == "STREAM_END":
            shapes.setdefault((p["enc"], "run+" + o[1]["a"]), (dict(p, ops=o[:2]), {pr[:2] for pr in preds}))
        if len(o) >= 1 and o[0]["k"] == "op" and o[0]["a"] != "RUN" and o[0]["n"] == 1 and o[0]["ret"] == "STREAM_END":
            shapes.setdefault((p["enc"], o[0]["a"]), (dict(p, ops=o[:1]), {pr[:1] for pr in preds}))
    if len(shapes) < 8:
        raise MachineryError("only %d flush shapes found for the chunk-boundary sweep" % len(shapes))
    offs = list(range(B + 1, B + 700))
    rng.shuffle(offs)
    offs = offs[:(90 if quick else 699)]
    keys = sorted(shapes)
    out = []
    for i, e in enumerate(offs):
        p, preds = shapes[keys[(i + e) % len(keys)]]
        out.append((p, preds, dict(base, unit=e)))
    return out, B

def run_replays(ctx, so, plans, label, want_traces, ev_budget, nworkers=3, long=False):
    """plans: list of (plan, preds).  Returns list of (label, events) chosen for trace validation."""
    traces = []
    seen = set()
    used = [0]
    stats = collections.Counter()
    t0 = time.time()
    jobs = []
    for n, item in enumerate(plans):
        p, preds = item[0], item[1]
        h = make_history(p, ctx.rng, long=long)
        if len(item) > 2:
            # fixed sizes / data / encoder options given by the caller
            h.update(item[2]); h["grant"] = "big"; h["probe"] = False
            h["ops"][-1]["n"] = 0
        jobs.append((n, p, preds, h, ctx.rng.getrandbits(48)))
    lock = threading.Lock()
    def work(wi):
        w = Worker(so); w.workdir = ctx.workdir
        hangs = 0
        for n, p, preds, h, seed in jobs[wi::nworkers]:
            if hangs >= 2:
                stats["skipped_after_hangs"] += 1
                continue
            res = w.run(h, seed)
            if res.get("crash") and res.get("rc") == "hang":
                hangs += 1
            with lock:
                ctx.case(key=("replay", hist_key(p), h["grant"], h["unit"]))
                if res.get("crash"):
                    key = crash_key(h, res["stderr"])
                    if key not in seen:
                        seen.add(key)
                        ctx.violation(key, "the encoder process died (status %s) while executing the history:\n%s"
                                      % (res["rc"], res["stderr"][-1800:]), dict(kind="history", history=h, seed=seed))
                    continue
                if not res.get("ok"):
                    raise MachineryError("driver: %s on %s" % (res.get("error"), json.dumps(h)[:600]))
                h = res["hist"]
                if res.get("unrealised"):
                    # the planned position inside the output did not occur with this data (e.g. no Block Padding)
                    stats["unrealised"] += 1
                    probs = [tuple(x) for x in res["problems"]]
                else:
                    probs = [tuple(x) for x in res["problems"]] + compare(ctx, p, preds, h, res)
                for key, detail in probs:
                    if key in seen:
                        continue
                    seen.add(key)
                    ctx.violation(key, detail, dict(kind="history", history=h, seed=seed, observed=res["ops"], toks=res["toks"]))
                nev = len(res["events"])
                special = any(o["k"] == "update" and o.get("fail", "none") != "none" for o in p["ops"])
                if (len(traces) < want_traces or (special and len(traces) < want_traces + 40)) \
                   and used[0] + nev <= ev_budget + (3000 if special else 0) and nev <= 6000:
                    traces.append(("%s:%s:%s:%s:%d" % (h["enc"], h["chain"]["pre"], h["chain"]["lz"], h["grant"], n), res["events"]))
                    used[0] += nev
                if n == 3:
                    ctx.sample(dict(kind="replayed_history", history=h, observed=res["ops"], tokens=res["toks"][:12]))
        w.stop()
    errs = []
    def guarded(wi):
        try:
            work(wi)
        except Exception as e:
            errs.append(e)
    ths = [threading.Thread(target=guarded, args=(i,)) for i in range(nworkers)]
    for t in ths: t.start()
    for t in ths: t.join()
    if errs:
        raise errs[0]
    traces.sort(key=lambda t: int(t[0].rsplit(":", 1)[1]))
    ctx.log("replayed %d histories (%s) in %.1fs; %d kept for trace validation (%d events)%s"
            % (len(plans), label, time.time() - t0, len(traces), used[0],
               "; %d with a planned position that did not occur" % stats["unrealised"] if stats["unrealised"] else ""))
    return traces

# ------------------------------------------------------------------------------------------------ CLI plans
def _xz_env():
    e = dict(os.environ)
    for k in ("LD_PRELOAD", "ASAN_OPTIONS", "XZ_OPT", "XZ_DEFAULTS"):
        e.pop(k, None)
    return e

def cli_flush_timeout(ctx, cli, c12drv, lz):
    """xz --flush-timeout=1 fed through a slow pipe.  -> (label, events) or None."""
    rng = ctx.rng
    pre = rng.choice(["none", "delta"])
    chain = dict(pre=pre, lz="lzma2", props="p0")
    args = [cli["xz"], "-c", "--flush-timeout=1", "--check=crc32"]
    if pre == "delta":
        args += ["--delta=dist=%d" % c12drv.DELTA_DIST]
    args += ["--lzma2=dict=64KiB,lc=3,lp=0,pb=2,mf=hc4,mode=fast,nice=32"]
    pieces = [c12drv.gen_data(rng, rng.choice([1, 5, 200, 3000, 4000])) for _ in range(rng.randint(3, 6))]
    pr = subprocess.Popen(args, stdin=subprocess.PIPE, stdout=subprocess.PIPE, stderr=subprocess.PIPE, env=_xz_env())
    fd = pr.stdout.fileno()
    fcntl.fcntl(fd, fcntl.F_SETFL, fcntl.fcntl(fd, fcntl.F_GETFL) | os.O_NONBLOCK)
    out = b""; given = 0
    events = [dict(e="Reset", enc="stream", chain=chain, check="crc", bsize=0, grant="big")]
    lzopt = dict(dict_size=1 << 16)
    hist = dict(enc="stream", chain=chain, check="crc")
    judge = c12drv.Judge(hist, c12drv.chain_filters(chain, dict(dict_size=1 << 16)), lzopt)
    data = b"".join(pieces)
    def drain(wait):
        nonlocal out
        got = False
        end = time.time() + wait
        while time.time() < end:
            r, _, _ = select.select([fd], [], [], 0.05)
            if r:
                try:
                    b = os.read(fd, 1 << 16)
                except BlockingIOError:
                    b = None
                if b:
                    out += b; got = True; end = min(end, time.time() + 0.15)
                elif b == b"":
                    return got
            elif got:
                break
        return got
    try:
        for pc in pieces:
            os.write(pr.stdin.fileno(), pc)
            given += len(pc)
            if not drain(5.0):
                ctx.violation("cli:flush-timeout:no-output", "xz --flush-timeout=1 wrote nothing within 5 s after %d input bytes" % given,
                              dict(kind="cli", args=args))
                pr.kill(); return None
            lib_out, lib_ret = judge.lib(out, False)
            g_out, g_done, g_toks, g_detail = judge.glue(out)
            lib_n = len(lib_out) if data[:len(lib_out)] == lib_out else -1
            g_n = len(g_out) if g_toks is not None and data[:len(g_out)] == g_out else -1
            events.append(dict(e="Call", a="SYNC_FLUSH", ain=len(pc), aout=8192))
            events.append(dict(e="Ret", ret="STREAM_END", uin=len(pc), uout=-1, tin=given, tout=-1))
            events.append(dict(e="FlushCheck", lib=lib_n, glue=g_n, fin=False))
            ctx.case(key=("cli-flush", given, len(out)))
        pr.stdin.close()
        deadline = time.time() + 10
        while pr.poll() is None and time.time() < deadline:
            drain(0.2)
        drain(0.2)
        if pr.poll() is None:
            pr.kill()
            ctx.violation("cli:flush-timeout:hang", "xz did not exit after end of input", dict(kind="cli", args=args))
            return None
    finally:
        if pr.poll() is None:
            pr.kill()
    if pr.returncode != 0:
        ctx.violation("cli:flush-timeout:exit", "xz exit status %s: %s" % (pr.returncode, pr.stderr.read()[-500:]), dict(kind="cli", args=args))
        return None
    lib_out, lib_ret = judge.lib(out, True)
    g_out, g_done, g_toks, g_detail = judge.glue(out)
    lib_n = len(lib_out) if lib_out == data and lib_ret == "STREAM_END" else -1
    g_n = len(g_out) if g_toks is not None and g_out == data and g_done else -1
    events.append(dict(e="Call", a="FINISH", ain=0, aout=8192))
    events.append(dict(e="Ret", ret="STREAM_END", uin=0, uout=-1, tin=given, tout=-1))
    events.append(dict(e="FlushCheck", lib=lib_n, glue=g_n, fin=True))
    events.append(dict(e="Final", given=given))
    events[0]["toks"] = g_toks or []
    ctx.sample(dict(kind="cli_flush_timeout", args=args[1:], pieces=[len(x) for x in pieces], tokens=events[0]["toks"]))
    return ("cli:flush-timeout", events)

def cli_block_list(ctx, cli, c12drv, lz):
    """xz -T1 --block-list with two filter chains: FULL_BARRIER at the listed sizes, lzma_filters_update between."""
    rng = ctx.rng
    sizes = [rng.choice([1, 100, 8192, 9000, 20000]) for _ in range(rng.randint(2, 4))]
    chains = [rng.choice([1, 2]) for _ in sizes]
    tail = rng.choice([0, 1, 5000])
    total = sum(sizes) + tail
    data = c12drv.gen_data(rng, total)
    path = os.path.join(ctx.workdir, "blocklist.in")
    with open(path, "wb") as f:
        f.write(data)
    cdef = {1: dict(pre="none", lz="lzma2", props="p0"), 2: dict(pre="delta", lz="lzma2", props="p1")}
    args = [cli["xz"], "-c", "-T1", "--check=crc32",
            "--filters1=lzma2:dict=64KiB,lc=3,lp=0,pb=2,mf=hc4,mode=fast,nice=32",
            "--filters2=delta:dist=%d lzma2:dict=64KiB,lc=1,lp=1,pb=1,mf=bt4,mode=normal,nice=64" % c12drv.DELTA_DIST,
            "--block-list=" + ",".join("%d:%d" % (c, s) for c, s in zip(chains, sizes)), path]
    try:
        r = subprocess.run(args, stdout=subprocess.PIPE, stderr=subprocess.PIPE, env=_xz_env(), timeout=60)
    except subprocess.TimeoutExpired:
        ctx.violation("cli:block-list:hang", "xz did not finish within 60 s: %s" % " ".join(args[1:-1]), dict(kind="cli", args=args))
        return None
    if r.returncode != 0:
        ctx.violation("cli:block-list:exit", "xz exit status %s: %s" % (r.returncode, r.stderr[-500:]), dict(kind="cli", args=args))
        return None
    out = r.stdout
    # the calls xz makes (coder.c coder_normal / split_block): reads of min(block_remaining, 8192); the read that
    # completes a listed Block goes with LZMA_FULL_BARRIER; a short read means end of file => LZMA_FINISH;
    # after the last list entry its size and chain repeat.
    chain = cdef[chains[0]]
    events = [dict(e="Reset", enc="stream", chain=chain, check="crc", bsize=0, grant="big")]
    pos = 0; li = 0; rem = sizes[0]; given = 0
    fin = False
    while not fin:
        want = min(rem, 8192)
        got = min(want, total - pos)
        pos += got
        eof = got < want
        if eof:
            act = "FINISH"
        else:
            rem -= got
            act = "FULL_BARRIER" if rem == 0 else "RUN"
        given += got
        events.append(dict(e="Call", a=act, ain=got, aout=8192))
        events.append(dict(e="Ret", ret="OK" if act == "RUN" else "STREAM_END", uin=got, uout=-1, tin=given, tout=-1))
        if act == "FINISH":
            fin = True
        elif act == "FULL_BARRIER":
            if li + 1 < len(sizes):
                li += 1
                if chains[li] != chains[li - 1]:
                    events.append(dict(e="Update", target=cdef[chains[li]], ret="OK", fail="none", ntok=-1))
            rem = sizes[li]
    hist = dict(enc="stream", chain=chain, check="crc")
    judge = c12drv.Judge(hist, c12drv.chain_filters(chain, dict(dict_size=1 << 16)), dict(dict_size=1 << 16))
    lib_out, lib_ret = judge.lib(out, True)
    g_out, g_done, g_toks, g_detail = judge.glue(out)
    lib_n = len(lib_out) if lib_out == data and lib_ret == "STREAM_END" else -1
    g_n = len(g_out) if g_toks is not None and g_out == data and g_done else -1
    events.append(dict(e="FlushCheck", lib=lib_n, glue=g_n, fin=True))
    events.append(dict(e="Final", given=given))
    events[0]["toks"] = g_toks or []
    ctx.case(key=("cli-blocklist", tuple(sizes), tuple(chains), tail))
    ctx.sample(dict(kind="cli_block_list", args=args[1:-1], blocks=blocks_of(events[0]["toks"])))
    return ("cli:block-list", events)

# ------------------------------------------------------------------------------------------------ run
QUICK_MC = [("MCXzStreamEnc", "MCXzStreamEnc.cfg", 4), ("MCXzStreamEnc", "MCXzStreamEncOne.cfg", 3)]
# thorough: <= 4 operations x {1-byte, big} grants x {CRC, no check}; <= 5 operations (big grants); 0..2 bytes x <= 3 operations
THOROUGH_MC = [("MCXzStreamEnc", "MCXzStreamEncT_stream.cfg", 4), ("MCXzStreamEnc", "MCXzStreamEncT5_stream.cfg", 3)] + \
              [("MCXzStreamEnc", "MCXzStreamEncT_%s.cfg" % e, 3) for e in ("raw", "block", "mt")] + \
              [("MCXzStreamEnc", "MCXzStreamEncT2.cfg", 3)] + \
              [("MCXzStreamEnc", "MCXzStreamEncT5_%s.cfg" % e, 3) for e in ("raw", "block", "mt")]

def trace_key(label, e, idx):
    what = e.get("e")
    if what == "Ret":
        return "trace:%s:Ret:%s" % (label.split(":")[0], e.get("ret"))
    if what in ("FlushCheck", "Probe"):
        return "trace:%s:%s" % (label.split(":")[0], what)
    if what == "Update":
        return "trace:%s:Update:%s" % (label.split(":")[0], e.get("ret"))
    return "trace:%s:%s" % (label.split(":")[0], what)

def replay_one(ctx, so):
    obj = json.load(open(ctx.replay)).get("replay") or {}
    if obj.get("kind") != "history":
        ctx.log("replay file has no executable history (kind=%s)" % obj.get("kind"))
        return ctx.finish(rule="replay")
    w = Worker(so); w.workdir = ctx.workdir
    res = w.run(obj["history"], obj.get("seed", 1))
    w.stop()
    if res.get("crash"):
        ctx.violation(crash_key(obj["history"], res["stderr"]), res["stderr"][-2000:], obj)
    else:
        for o in res["ops"]:
            ctx.log("   ", o)
        ctx.log("tokens:", res["toks"])
        for key, detail in res["problems"]:
            ctx.violation(key, detail, obj)
        rej = tracev.validate(ctx, "TraceXzStreamEnc", [("replay:0", res["events"])], trace_key, maxl=True)
    ctx.case()
    return ctx.finish(rule="replay of one recorded history")

def run(ctx):
    from harness.pydrv import lz, c12drv
    L = build.lib("asan")
    if ctx.replay:
        return replay_one(ctx, L["so"])
    lz.load(L["so"])
    cli = build.cli()
    quick = ctx.quick
    # (M) in the background
    pool = ThreadPoolExecutor(6)
    mcpool = ThreadPoolExecutor(2 if quick else 3)
    mc_jobs = [(cfg, mcpool.submit(tlc.run, mod, cfg=cfg, workers=w, timeout=240 if quick else 1400, coverage=False))
               for mod, cfg, w in (QUICK_MC if quick else THOROUGH_MC)]
    # non-vacuity of the contract: deliberately wrong variants of the model (Bugs constant) must violate it
    bug_names = ["bcj_accepts_sync", "update_keeps_block_initialized"] if quick else \
        ["bcj_accepts_sync", "no_state_reset_after_uncompressed", "empty_block_on_full_flush", "update_mid_chunk",
         "stream_update_mid_block", "lzma2_init_ignores_unencoded", "block_sync_is_finish", "mt_update_mid_block",
         "lzma1_accepts_sync", "update_keeps_block_initialized", "stream_update_in_block_header", "mt_update_frees_first"]
    bug_jobs = [(b, pool.submit(tlc.run, "MCXzStreamEnc", cfg="MCXzStreamEncBug_%s.cfg" % b, workers=1, timeout=600))
                for b in bug_names]
    # (G)
    gen_bfs = pool.submit(tlc.run, "GenXzStreamEnc", cfg="GenXzStreamEncQ.cfg" if quick else "GenXzStreamEnc.cfg", workers=3, timeout=900)
    gen_long = pool.submit(tlc.run, "GenXzStreamEnc", cfg="GenXzStreamEncLong.cfg", workers=1, timeout=300,
                           simulate=40 if quick else 400, depth=2000, seed=ctx.seed + 7)
    gen_mid = pool.submit(tlc.run, "GenXzStreamEnc", cfg="GenXzStreamEncMid.cfg" if quick else "GenXzStreamEncMidT.cfg",
                          workers=3, timeout=900)
    gen_sim = pool.submit(tlc.run, "GenXzStreamEnc", cfg="GenXzStreamEncSim.cfg", workers=1, timeout=300,
                          simulate=150 if quick else 1500, depth=260, seed=ctx.seed)
    # CLI plans meanwhile
    cli_traces = []
    for fn in (cli_flush_timeout, cli_block_list):
        for _ in range(1 if quick else 4):
            t = fn(ctx, cli, c12drv, lz)
            if t:
                cli_traces.append(t)
    g = gen_bfs.result()
    ctx.add_tlc("GenXzStreamEnc(bfs)", g, exhaustive=True)
    gs = gen_sim.result()
    ctx.add_tlc("GenXzStreamEnc(simulate)", gs)
    bfs = collect_plans([g.out])
    sim = collect_plans([gs.out])
    if len(bfs) < 3000 or len(sim) < 20:
        raise MachineryError("plan generation produced only %d + %d histories" % (len(bfs), len(sim)))
    nondet = sum(1 for _, pr in bfs.values() if len(pr) > 1)
    ctx.log("GenXzStreamEnc: %d maximal histories (bfs, %d with more than one possible outcome), %d (simulate)"
            % (len(bfs), nondet, len(sim)))
    # sample: every (encoder, chain) gets its share
    groups = collections.defaultdict(list)
    for k in sorted(bfs):
        p = bfs[k][0]
        groups[(p["enc"], p["chain"]["pre"], p["chain"]["lz"], p["bsize"])].append(k)
    per = (32 if quick else 400)
    chosen = []
    featcount = collections.Counter()
    for gk in sorted(groups):
        ks = groups[gk]
        ctx.rng.shuffle(ks)
        # every kind of step (action x outcome, update x outcome x position) several times, then at random
        need = collections.Counter()
        pick = []
        rest = []
        for k in ks:
            f = features(bfs[k][0])
            if any(need[t] < (2 if quick else 25) for t in f) and len(pick) < per:
                pick.append(k)
                for t in f:
                    need[t] += 1
            else:
                rest.append(k)
        pick += rest[:max(0, per - len(pick))]
        for k in pick:
            featcount.update(features(bfs[k][0]))
        chosen += [bfs[k] for k in pick]
    ctx.extra["sampled_step_kinds"] = dict(sorted(featcount.items()))
    ctx.rng.shuffle(chosen)
    simk = sorted(sim)
    ctx.rng.shuffle(simk)
    chosen_sim = [sim[k] for k in simk[:(120 if quick else 1200)]]
    traces = run_replays(ctx, L["so"], chosen, "bfs histories <= 3 operations", 120 if quick else 700, 14000 if quick else 90000,
                         nworkers=3 if quick else 4)
    traces += run_replays(ctx, L["so"], chosen_sim, "simulated histories <= 8 operations", 40 if quick else 300, 8000 if quick else 50000,
                          nworkers=3 if quick else 4)
    gl = gen_long.result()
    ctx.add_tlc("GenXzStreamEnc(simulate, streaming profile)", gl)
    lng = collect_plans([gl.out])
    lk = sorted(lng)
    ctx.rng.shuffle(lk)
    if len(lk) < 40:
        raise MachineryError("streaming profile generation produced only %d histories" % len(lk))
    traces += run_replays(ctx, L["so"], [lng[k] for k in lk[:(100 if quick else 1000)]],
                          "streaming histories of 60 operations", 5 if quick else 40, 3000 if quick else 24000,
                          nworkers=3 if quick else 4, long=True)
    sw, B = sweep_histories(ctx, L["so"], bfs, quick)
    traces += run_replays(ctx, L["so"], sw, "flush / finish offsets swept over the %d bytes after the point where an LZMA2 "
                          "chunk closes because it is full (input offset %d)" % (699, B), 4 if quick else 20,
                          200 if quick else 1000, nworkers=3 if quick else 4)
    gm = gen_mid.result()
    ctx.add_tlc("GenXzStreamEnc(bfs, updates between the calls of an operation)", gm, exhaustive=True)
    mid = collect_plans([gm.out])
    # every (encoder, position inside the output, outcome) of such an update several times
    mgroups = collections.defaultdict(list)
    for k in sorted(mid):
        pl = mid[k][0]
        for o in pl["ops"]:
            if o["k"] == "update" and o.get("mid"):
                mgroups[(pl["enc"], pl["chain"]["pre"], o["where"], o["ret"], o["target"]["pre"] == pl["chain"]["pre"])].append(k)
    if len(mgroups) < 30:
        raise MachineryError("only %d kinds of mid-operation updates generated" % len(mgroups))
    mk = []
    for g2 in sorted(mgroups):
        ks = mgroups[g2]
        ctx.rng.shuffle(ks)
        mk += ks[:(2 if quick else 25)]
    mk = sorted(set(mk))
    ctx.rng.shuffle(mk)
    ctx.extra["mid_update_kinds"] = len(mgroups)
    traces += run_replays(ctx, L["so"], [mid[k] for k in mk], "histories with lzma_filters_update between two lzma_code calls (%d kinds)" % len(mgroups),
                          40 if quick else 300, 7000 if quick else 60000, nworkers=3 if quick else 4)
    traces += cli_traces
    # (V)
    rej = tracev.validate(ctx, "TraceXzStreamEnc", traces, trace_key, maxl=True, timeout=600 if quick else 1500)
    ctx.log("validated %d recorded executions (%d events): rejected=%d" % (len(traces), sum(len(e) for _, e in traces), rej))
    if traces:
        ctx.sample(dict(kind="recorded_execution", label=traces[0][0], events=traces[0][1][:40]))
    # (M) results
    for cfg, fut in mc_jobs:
        r = fut.result()
        ctx.add_tlc(cfg[:-4], r, exhaustive=True)
        ctx.log(cfg, r.summary())
        if r.violation:
            ctx.violation("model:%s:%s" % (cfg[:-4], r.violation), r.out[-4000:], dict(kind="tlc_counterexample", cfg=cfg))
    for b, fut in bug_jobs:
        r = fut.result()
        ctx.add_tlc("MCXzStreamEncBug_" + b, r)
        if not r.violation:
            raise MachineryError("model variant %s does not violate the contract: the contract is vacuous there\n%s" % (b, r.out[-1500:]))
    ctx.log("model variants violating the contract as they must: %s" % ", ".join(bug_names))
    pool.shutdown(); mcpool.shutdown()
    ctx.assumptions += [
        "data is abstracted to 'at least one byte' per pipeline stage; byte conservation between stages is assumed",
        "the application never withdraws input it has offered and never calls lzma_filters_update in the middle of an unfinished lzma_code loop",
        "replay predictions assume LZMA2 chunks end only at flushes (small inputs in small-grant runs) and BCJ pieces > 5 bytes; trace validation does not; "
        "chunks that close because they are full are covered by the boundary sweep (flush offsets over the 699 bytes after a measured boundary)",
        "threaded encoder: worker timing is 'a closed Block becomes readable at any time' (details: C08 / MtEncoder.tla)"]
    return ctx.finish(rule="evaluations = application histories executed on real encoders (distinct by history, grant, unit size) + xz "
                      "command line runs; traces = executions validated call by call against TraceXzStreamEnc",
                      trusted=["TLC", "harness/glue codecs", "ctypes driver", "gcc ASan/UBSan"])
