"""C01 - compression is lossless for every input and every accepted configuration.

(M) MCEncLz / MCEncLzma2: at small constants every admissible LZ symbol / LZMA2 chunk sequence expands
    deterministically, the circular-window formulation of the real decoder equals the infinite-history definition,
    the numeric accounting used for aggregate judging agrees with the byte-exact one (MCEncLzBroken: a deliberately
    wrong window reading violates WindowEquiv = the invariant is not vacuous).
(G) GenEncConfig: TLC emits the configuration plans (pairwise + corners over the option lattice of EncoderConfig).
(V) every plan x input class is encoded by the real liblzma (ASan+UBSan build for the small inputs, -O2 build for the
    big ones), once normally and again with the match finder forced to normalise early; the bytes are decoded by
    liblzma's matching decoder and tokenised by the independent glue decoder; TraceEncLz / TraceEncLzma2 decide:
    byte-exact expansion inside TLC for small inputs, per-chunk aggregates + digests of both decoders' outputs for big
    ones, identical bytes under every bias (normalisation = stuttering step), consumed prefix within the limit for
    the output-size-limited encoder.
"""
import json, os, time
from lib import tlc, build, tracev
from lib.ctx import MachineryError
from checks.c11 import plans_from_tlc
from harness.enc import cases

def model_check(ctx):
    r = tlc.run("MCEncLz", cfg="MCEncLz.cfg" if ctx.quick else "MCEncLzT.cfg", workers=4, timeout=1500, coverage=ctx.quick)
    ctx.add_tlc("MCEncLz", r, exhaustive=True)
    if r.violation:
        ctx.violation("model:MCEncLz:" + r.violation, r.out[-3000:], dict(kind="tlc_counterexample"))
    ctx.log("MCEncLz:", r.summary())
    b = tlc.run("MCEncLz", cfg="MCEncLzBroken.cfg", workers=2, timeout=300)
    ctx.tlc_runs.append(dict(name="MCEncLzBroken(expected violation)", **b.summary()))
    if b.violation != "WindowEquiv":
        raise MachineryError("non-vacuity run MCEncLzBroken did not violate WindowEquiv: %s" % (b.summary(),))
    r = tlc.run("MCEncLzma2", cfg="MCEncLzma2.cfg" if ctx.quick else "MCEncLzma2T.cfg", workers=4, timeout=1500)
    ctx.add_tlc("MCEncLzma2", r, exhaustive=True)
    if r.violation:
        ctx.violation("model:MCEncLzma2:" + r.violation, r.out[-3000:], dict(kind="tlc_counterexample"))
    ctx.log("MCEncLzma2:", r.summary())

def gen_plans(ctx, seeds):
    plans = []
    for sd in seeds:
        g = tlc.run("GenEncConfig", cfg="GenEncConfig.cfg" if ctx.quick else "GenEncConfigT.cfg", workers=1, timeout=900,
                    extra=(), env=None) if sd == 0 else _gen_seed(ctx, sd)
        ctx.add_tlc("GenEncConfig(seed=%d)" % sd, g, exhaustive=True)
        if g.violation:
            raise MachineryError("plan generator violated %s" % g.violation)
        p = plans_from_tlc(g.out)
        if len(p) < 100:
            raise MachineryError("plan generation produced only %d plans" % len(p))
        plans += p
    return plans

def _gen_seed(ctx, sd):
    cfg = os.path.join(ctx.workdir, "GenEncConfigS%d.cfg" % sd)
    src = open(os.path.join(tlc.SPEC, "GenEncConfig.cfg" if ctx.quick else "GenEncConfigT.cfg")).read()
    open(cfg, "w").write(src.replace("Seed = 0", "Seed = %d" % sd))
    return tlc.run("GenEncConfig", cfg=cfg, workers=1, timeout=900)

def build_jobs(ctx, plans, want, first_full=None):
    """All input classes for the first `first_full` plans (default: all), a rotating half of them for the rest."""
    jobs = []
    asan_max = 9000 if ctx.quick else 70000
    for pi, plan in enumerate(plans):
        inputs = cases.inputs_for(plan, pi, ctx.tier, ctx.rng)
        if first_full is not None and pi >= first_full:
            inputs = [x for k, x in enumerate(inputs) if (k + pi) % 2 == 0]
        for ii, inp in enumerate(inputs):
            big = inp["n"] > asan_max or int(plan["preset"]) >= 7 and plan["entry"] in ("easy", "easy_buffer", "stream_mt")
            jobs.append(dict(idx=len(jobs), plan=plan, inp=inp, seed=ctx.rng.randrange(1 << 30),
                             variant="plain" if big else "asan", want=want, quick=ctx.quick))
    return jobs

def key_of(label, e, idx):
    entry = label.split(",")[0]
    return "trace:%s:%s" % (entry, e.get("e", "?") if e.get("e") != "Chunk" else "Chunk-" + str(e.get("kind")))

def run(ctx):
    model_check(ctx)
    plans = gen_plans(ctx, [0] if ctx.quick else [0] + [ctx.seed * 100 + k for k in range(1, 11)])
    ctx.log("plans from TLC: %d" % len(plans))
    build.lib("asan"); build.lib("plain")
    jobs = build_jobs(ctx, plans, {"lz", "bias"}, first_full=None if ctx.quick else 520)
    # big jobs first so that the pool is balanced
    order = sorted(range(len(jobs)), key=lambda k: -jobs[k]["inp"]["n"])
    t = time.time()
    results = cases.run_all([jobs[k] for k in order], procs=4 if ctx.quick else 6, workdir=ctx.workdir)
    ctx.log("executed %d cases (%d encoder runs) in %.1fs" % (len(results), sum(r["encs"] for r in results), time.time() - t))
    l1, l2 = [], []
    nb = 0
    for r in results:
        entry = r["plan"]["entry"]
        for key, detail in r["errors"]:
            if key == "machinery":
                raise MachineryError(detail)
            ctx.violation(key, detail, dict(kind="case", plan=r["plan"], inp=r["inp"]))
        ctx.case(key=("case", json.dumps(r["plan"], sort_keys=True), json.dumps(r["inp"], sort_keys=True)),
                 nontrivial=r["inp"]["n"] > 0)
        nb += r["nbias"]
        for label, fmt, evs in r["lz"]:
            (l1 if fmt == "lzma1" else l2).append((label, evs))
    ctx.extra["bias_runs"] = nb
    for mod, hs in (("TraceEncLz", l1), ("TraceEncLzma2", l2)):
        if not hs:
            continue
        t = time.time()
        rej = tracev.validate(ctx, mod, hs, key_of, timeout=1500)
        ctx.log("%s: %d executions, %d events, rejected=%d (%.1fs)" % (mod, len(hs), sum(len(e) for _, e in hs), rej, time.time() - t))
    for hs in (l1, l2):
        for label, evs in hs:
            if 8 < len(evs) < 40:
                ctx.sample(dict(kind="execution", label=label, events=evs), limit=3)
                break
    ctx.assumptions += ["the glue range decoder/tokeniser (harness/glue, closure-tested against liblzma both ways) reports the symbols that are in the bytes",
                        "sha256 digests stand for byte equality of the multi-MiB outputs",
                        "inputs >= 4 GiB are replaced by the match finder offset bias (lzma_verif_mf_normalize_after)"]
    return ctx.finish(rule="evaluations = (TLC-generated configuration plan x input class) executed on the real encoder and judged by "
                      "TraceEncLz/TraceEncLzma2; each also re-encoded under 1-4 normalisation biases; distinct by plan+input; "
                      "non-trivial = non-empty input",
                      trusted=["TLC", "harness/glue decoders", "gcc ASan/UBSan", "ctypes driver"])
