"""C01 - compression is lossless for every input and every accepted configuration.

(M) MCEncLz / MCEncLzma2: at small constants every admissible LZ symbol / LZMA2 chunk sequence expands
    deterministically, the circular-window formulation of the real decoder equals the infinite-history definition,
    the numeric accounting used for aggregate judging agrees with the byte-exact one (MCEncLzBroken: a deliberately
    wrong window reading violates WindowEquiv = the invariant is not vacuous).
(G) GenEncConfig: TLC emits the configuration plans (pairwise + corners over the option lattice of EncoderConfig).
(V) every plan x input class is encoded by the real liblzma (ASan+UBSan build for the small inputs, -O2 build for the
    big ones), once normally and again with the match finder forced to normalise early; the bytes are decoded by
    liblzma's matching decoder and tokenised by the independent glue decoder; TraceEncLz / TraceEncLzma2 decide:
    byte-exact expansion inside TLC for small inputs, per-chunk aggregates + digests of both decoders' outputs for big
    ones, identical bytes under every bias (normalisation = stuttering step), consumed prefix within the limit for
    the output-size-limited encoder.
"""
import json, os, time
from lib import tlc, build, tracev
HERE = os.path.dirname(os.path.dirname(os.path.abspath(__file__)))
from lib.ctx import MachineryError
from checks.c11 import plans_from_tlc
from harness.enc import cases, encrun

def model_check_runs(quick):
    """The (M) runs; executed in a thread while the cases run.  -> list of (name, TlcResult, kind)"""
    out = []
    r = tlc.run("MCEncLz", cfg="MCEncLz.cfg" if quick else "MCEncLzT.cfg", workers=3, timeout=1500)
    out.append(("MCEncLz", r, "mc"))
    b = tlc.run("MCEncLz", cfg="MCEncLzBroken.cfg", workers=1, timeout=300)
    out.append(("MCEncLzBroken(expected violation)", b, "broken:WindowEquiv"))
    r = tlc.run("MCEncLzma2", cfg="MCEncLzma2.cfg" if quick else "MCEncLzma2T.cfg", workers=3, timeout=1500)
    out.append(("MCEncLzma2", r, "mc"))
    # encoder window / chunk-size reserve, dictionary size as parameter
    for d in ((4, 14) if quick else (1, 4, 9, 14)):
        r = tlc.run("MCEncWindow", cfg="MCEncWindow%s_d%d.cfg" % ("Q" if quick else "", d), workers=3, timeout=900)
        out.append(("MCEncWindow(dict=%d)" % d, r, "mc"))
    b = tlc.run("MCEncWindow", cfg="MCEncWindowBrokenBefore.cfg", workers=1, timeout=300)
    out.append(("MCEncWindowBrokenBefore(expected violation)", b, "broken:ChunkStaysInWindow"))
    b = tlc.run("MCEncWindow", cfg="MCEncWindowBrokenReserve.cfg", workers=1, timeout=300)
    out.append(("MCEncWindowBrokenReserve(expected violation)", b, "broken:UncompressedFits"))
    return out

def model_check_apply(ctx, runs):
    for name, r, kind in runs:
        if kind == "mc":
            ctx.add_tlc(name, r, exhaustive=True)
            if r.violation:
                ctx.violation("model:%s:%s" % (name, r.violation), r.out[-3000:], dict(kind="tlc_counterexample"))
            ctx.log(name + ":", r.summary())
        else:
            ctx.tlc_runs.append(dict(name=name, **r.summary()))
            want = kind.split(":", 1)[1]
            if not r.violation or (want != "*" and r.violation != want):
                raise MachineryError("non-vacuity run %s did not violate %s: %s" % (name, want, r.summary()))

class Background:
    """Run fn() in a thread; .result() re-raises."""
    def __init__(self, fn):
        import threading
        self.out = None; self.exc = None
        def go():
            try:
                self.out = fn()
            except BaseException as x:
                self.exc = x
        self.t = threading.Thread(target=go, daemon=True)
        self.t.start()
    def result(self):
        self.t.join()
        if self.exc:
            raise self.exc
        return self.out

# ------------------------------------------------------------------------------------------- MicroLZMA limit sweep
RETN = {0: "OK", 1: "STREAM_END", 5: "MEM_ERROR", 8: "OPTIONS_ERROR", 9: "DATA_ERROR", 10: "BUF_ERROR", 11: "PROG_ERROR"}

def sweep_input(kind, n, rng):
    if kind == "sixbit":       # moderately compressible: six random bits per byte
        return bytes(0x30 + rng.getrandbits(6) for _ in range(n))
    if kind == "nibble":
        return bytes(0x41 + rng.getrandbits(4) for _ in range(n))
    return encrun.gen_input(kind, n, rng)

def micro_sweep(quick, plans, seed, exe):
    """Every output limit in a range, for a few TLC-chosen MicroLZMA configurations -> [(label, events)], pairs.
    Runs in a background thread (subprocess + glue decoding of sampled limits)."""
    import random, subprocess
    from harness.glue import lzma as glzma
    rng = random.Random(seed * 7919 + 13)
    cand = [p for p in plans if p["entry"] == "microlzma"]
    small = [p for p in cand if p.get("dict") in ("4096", "65536", "4097", "98304")]
    k = 3 if quick else 8
    rng.shuffle(small)
    chosen = small[:k] if quick else (small + [p for p in cand if p not in small])[:k]
    lmax = 4005 if quick else 8005
    hists = []; pairs = 0
    for pi, plan in enumerate(chosen):
        info = encrun.resolve(plan)
        o = info["opt"]
        # moderately compressible literals / match-rich data with far distances (direct bits, reps) / the rest by seed
        kind = ["sixbit", "mixed", ["nibble", "rand"][seed % 2], "text", "sixbit", "mixed", "rand", "nibble"][pi % 8]
        n = {"sixbit": 16384, "rand": 12288, "nibble": 24576, "mixed": 40000, "text": 120000}[kind]
        data = sweep_input(kind, n, rng)
        # (the extreme flag only changes nice_len/depth/mode, which are passed explicitly)
        hdr = "%d %d %d %d %d %d %d %d %d %d\n" % (len(data), info["preset32"] & 0xF, o.lc, o.lp, o.pb, o.dict_size, o.mf, o.mode,
                                                  o.nice_len, o.depth)
        e = dict(os.environ); e.pop("LD_PRELOAD", None)
        label = "microsweep," + encrun.plan_label(plan) + "/" + kind
        ev = [{"e": "Reset", "mode": "sweep", "dict": o.dict_size, "preset": [], "presetlen": 0, "inlen": len(data), "lc": o.lc,
               "lp": o.lp, "pb": o.pb, "eopm": "no", "limited": True, "limit": lmax, "id": label, "enclen": 0, "encdig": ""}]
        nxt = 6
        restarts = 0
        while nxt <= lmax and restarts < 25:
            p = subprocess.run([exe, str(nxt), str(lmax), "97"], input=hdr.encode() + data, stdout=subprocess.PIPE,
                               stderr=subprocess.PIPE, env=e, timeout=600)
            for ln in p.stdout.decode(errors="replace").splitlines():
                f = ln.split()
                if len(f) < 9 or f[-1] != "." or not f[0].isdigit() or int(f[0]) != nxt:
                    break               # incomplete record: the driver died while working on this limit
                ret, tin, tout, guard, dret, dn, eq = f[1], int(f[2]), int(f[3]), f[4] == "1", f[5], int(f[6]), f[7] == "1"
                x = {"e": "Limit", "limit": nxt, "ret": RETN.get(int(ret), ret) if ret.lstrip("-").isdigit() else ret, "tin": tin,
                     "tout": tout, "guard": guard, "libret": RETN.get(int(dret), dret), "liblen": dn, "libeq": eq, "glue": "skip",
                     "props": -1}
                if len(f) > 9:
                    enc = bytes.fromhex(f[8])
                    x["props"] = (~enc[0]) & 0xFF
                    r = glzma.decode(b"\x00" + enc[1:], o.lc, o.lp, o.pb, o.dict_size, usize=tin, allow_eopm=False, collect=None)
                    good = r.status == "ok_size" and r.consumed == len(enc) and r.out == data[:tin]
                    x["glue"] = "ok" if good else "bad:%s:%d/%d:%d" % (r.status, r.consumed, len(enc), len(r.out))
                ev.append(x)
                pairs += 1
                nxt += 1
            if nxt <= lmax:
                # the driver died (assertion / sanitizer / signal) while working on limit `nxt`
                ev.append({"e": "Limit", "limit": nxt, "ret": "CRASH_%s" % p.returncode, "tin": 0, "tout": 0, "guard": False,
                           "libret": "", "liblen": 0, "libeq": False, "glue": "skip", "props": -1,
                           "stderr": p.stderr.decode(errors="replace")[-600:]})
                pairs += 1
                nxt += 1
                restarts += 1
        hists.append((label, ev))
    return hists, pairs

def gen_plans(ctx, seeds):
    plans = []
    for sd in seeds:
        g = tlc.run("GenEncConfig", cfg="GenEncConfig.cfg" if ctx.quick else "GenEncConfigT.cfg", workers=1, timeout=900,
                    extra=(), env=None) if sd == 0 else _gen_seed(ctx, sd)
        ctx.add_tlc("GenEncConfig(seed=%d)" % sd, g, exhaustive=True)
        if g.violation:
            raise MachineryError("plan generator violated %s" % g.violation)
        p = plans_from_tlc(g.out)
        if len(p) < 100:
            raise MachineryError("plan generation produced only %d plans" % len(p))
        plans += p
    return plans

def _gen_seed(ctx, sd):
    cfg = os.path.join(ctx.workdir, "GenEncConfigS%d.cfg" % sd)
    src = open(os.path.join(tlc.SPEC, "GenEncConfig.cfg" if ctx.quick else "GenEncConfigT.cfg")).read()
    open(cfg, "w").write(src.replace("Seed = 0", "Seed = %d" % sd))
    return tlc.run("GenEncConfig", cfg=cfg, workers=1, timeout=900)

def build_jobs(ctx, plans, want, first_full=None, sweeps=True):
    """All input classes for the first `first_full` plans (default: all), a rotating half of them for the rest."""
    jobs = []
    asan_max = 9000 if ctx.quick else 70000
    for pi, plan in enumerate(plans):
        inputs = cases.inputs_for(plan, pi, ctx.tier, ctx.rng)
        if first_full is not None and pi >= first_full:
            inputs = [x for k, x in enumerate(inputs) if (k + pi) % 3 == 0]
        for ii, inp in enumerate(inputs):
            big = inp["n"] > asan_max or int(plan["preset"]) >= 7 and plan["entry"] in ("easy", "easy_buffer", "stream_mt")
            jobs.append(dict(idx=len(jobs), plan=plan, inp=inp, seed=ctx.rng.randrange(1 << 30),
                             variant="plain" if big else "asan", want=want, quick=ctx.quick))
    # chunk-boundary sweep (no bias re-encodes: the point is the position of the boundary)
    for plan, inp in (cases.srf_jobs(plans, ctx.tier, ctx.rng, 0) if sweeps else []):
        jobs.append(dict(idx=len(jobs), plan=plan, inp=inp, seed=ctx.rng.randrange(1 << 30), variant="plain",
                         want=set(want) - {"bias"}, quick=ctx.quick, mode="agg"))
    return jobs

def key_of(label, e, idx):
    entry = label.split(",")[0]
    return "trace:%s:%s" % (entry, e.get("e", "?") if e.get("e") != "Chunk" else "Chunk-" + str(e.get("kind")))

def run(ctx):
    plans = gen_plans(ctx, [0] if ctx.quick else [0] + [ctx.seed * 100 + k for k in range(1, 12)])
    ctx.log("plans from TLC: %d" % len(plans))
    build.lib("asan"); build.lib("plain")
    jobs = build_jobs(ctx, plans, {"lz", "bias"}, first_full=None if ctx.quick else 260)
    # big jobs first so that the pool is balanced
    order = sorted(range(len(jobs)), key=lambda k: -jobs[k]["inp"]["n"])
    t = time.time()
    from harness.pydrv import lz
    lz.load(build.lib("plain")["so"])
    sweep_exe = build.cprog("c01_microsweep", [os.path.join(HERE, "harness/cdrv/c01_microsweep.c")], "plain", internal=False)
    bg = {}
    def start_background():     # (M) runs and the MicroLZMA limit sweep overlap with the case execution
        bg["mc"] = Background(lambda: model_check_runs(ctx.quick))
        bg["sweep"] = Background(lambda: micro_sweep(ctx.quick, plans, ctx.seed, sweep_exe))
    results = cases.run_all([jobs[k] for k in order], procs=4 if ctx.quick else 6, workdir=ctx.workdir, log=ctx.log,
                            after_spawn=start_background)
    mc = bg["mc"]
    ctx.log("executed %d cases (%d encoder runs) in %.1fs" % (len(results), sum(r["encs"] for r in results), time.time() - t))
    model_check_apply(ctx, mc.result())
    l1, l2 = [], []
    nb = 0
    for r in results:
        entry = r["plan"]["entry"]
        for key, detail in r["errors"]:
            if key == "machinery":
                raise MachineryError(detail)
            ctx.violation(key, detail, dict(kind="case", plan=r["plan"], inp=r["inp"]))
        ctx.case(key=("case", json.dumps(r["plan"], sort_keys=True), json.dumps(r["inp"], sort_keys=True)),
                 nontrivial=r["inp"]["n"] > 0)
        nb += r["nbias"]
        for label, fmt, evs in r["lz"]:
            (l1 if fmt == "lzma1" else l2).append((label, evs))
    ctx.extra["bias_runs"] = nb
    sweeps, pairs = bg["sweep"].result()
    ctx.extra["microlzma_limit_pairs"] = pairs
    for label, evs in sweeps:
        ctx.case(key=("sweep", label, len(evs)))
    l1 = l1 + sweeps
    ctx.log("MicroLZMA limit sweep: %d configurations, %d (input, limit) pairs" % (len(sweeps), pairs))
    for mod, hs in (("TraceEncLz", l1), ("TraceEncLzma2", l2)):
        if not hs:
            continue
        t = time.time()
        rej = tracev.validate(ctx, mod, hs, key_of, timeout=1500)
        ctx.log("%s: %d executions, %d events, rejected=%d (%.1fs)" % (mod, len(hs), sum(len(e) for _, e in hs), rej, time.time() - t))
    for hs in (l1, l2):
        pick = [x for x in hs if 8 < len(x[1]) < 40] or hs[:1]
        for label, evs in pick[:1]:
            ctx.sample(dict(kind="execution", label=label, events=evs[:60]), limit=3)
    ctx.assumptions += ["the glue range decoder/tokeniser (harness/glue, closure-tested against liblzma both ways) reports the symbols that are in the bytes",
                        "sha256 digests stand for byte equality of the multi-MiB outputs",
                        "inputs >= 4 GiB are replaced by the match finder offset bias (lzma_verif_mf_normalize_after)"]
    return ctx.finish(rule="evaluations = (TLC-generated configuration plan x input class) executed on the real encoder and judged by "
                      "TraceEncLz/TraceEncLzma2; each also re-encoded under 1-4 normalisation biases; distinct by plan+input; "
                      "non-trivial = non-empty input",
                      trusted=["TLC", "harness/glue decoders", "gcc ASan/UBSan", "ctypes driver"])
