"""C06 - results do not depend on buffer slicing; encoder output is deterministic.

(M) MCSlicing{Xz,Lzma1,Lzip,Bcj}: Slicing.tla (application Feed/OutSpace/DoCall o LzmaCode o SliceCoder) satisfies
    SliceIndependent for every slicing of every abstract input of the family.  MCSlicingLzma1Recomputed (5.8.1 as
    released: eopm_is_valid lost when a call resumes inside the end marker) and MCSlicingBcjStrict (no exception for
    rejected input behind a BCJ filter) must each yield a counterexample (non-vacuity).
(R) GenSlicing emits slicing plans (windows per call at field boundary -1/0/+1, empty calls, output modes incl.
    zero-space calls that provoke LZMA_BUF_ERROR in the middle); the ctypes driver maps them onto the field maps of
    concrete inputs (harness/glue) and performs them - together with every two-piece split, one byte at a time in/out,
    seeded random splits and starvation episodes - on every decoder and encoder, valid and invalid input; each
    observation (output, status, total_in[, decoded Index]) must equal the one-shot observation.
(V) recorded runs (Reset / Call* / Final) and determinism groups (Group / Run*) are validated by TraceSlicing.tla.
"""
import concurrent.futures, json, os, subprocess, sys, time, hashlib

from lib import tlc, build, tracev
from lib.ctx import MachineryError

HERE = os.path.dirname(os.path.dirname(os.path.abspath(__file__)))
EOPM_KEY = "slice:lzma1:known-size+eopm:split-in-eopm"


# ------------------------------------------------------------------------------------------------ (M)
def start_models(cfgs, module="MCSlicing", workers=2, timeout=900):
    """Run TLC configurations in background threads; returns {name: future}."""
    ex = concurrent.futures.ThreadPoolExecutor(max_workers=max(1, len(cfgs)))
    futs = {}
    for c in cfgs:
        futs[c] = ex.submit(tlc.run, module, cfg=c + ".cfg", workers=workers, timeout=timeout)
    ex.shutdown(wait=False)
    return futs


def temporal_violation(r):
    """lib/tlc.py does not recognise 'Temporal property X was violated': normalise."""
    if "Temporal property" in r.out and "was violated" in r.out:
        r.violation = r.violation or "temporal"
        r.error = None
    return r


def collect_models(ctx, futs, expect_violation=()):
    for name, fu in futs.items():
        r = temporal_violation(fu.result())
        if name in expect_violation:
            # a deliberately weakened model / strengthened property: TLC must find the counterexample
            if r.error and not r.violation:
                raise MachineryError("TLC run %s failed: %s\n%s" % (name, r.error, r.out[-2000:]))
            ctx.tlc_runs.append(dict(name=name + " (counterexample expected)", **r.summary()))
            ctx.states += r.distinct; ctx.transitions += r.states
            if not r.violation:
                raise MachineryError("non-vacuity: %s found no counterexample" % name)
            ctx.log("%s: counterexample found as expected (%s), %d states" % (name, r.violation, r.distinct))
            continue
        ctx.add_tlc(name, r, exhaustive=True)
        if r.violation:
            ctx.violation("model:%s:%s" % (name, r.violation), r.out[-4000:], dict(kind="tlc_counterexample", cfg=name))
        ctx.log("%s: %s" % (name, r.summary()))


# ------------------------------------------------------------------------------------------------ (G)
def gen_plans(ctx):
    g = tlc.run("GenSlicing", workers=1, timeout=600)
    ctx.add_tlc("GenSlicing(NB=5,MaxCuts=2,MaxZero=1)", g, exhaustive=True)
    if g.violation:
        ctx.violation("model:GenSlicing:" + g.violation, g.out[-3000:], dict(kind="tlc_counterexample"))
    plans = []
    for line in g.out.splitlines():
        if line.startswith('<<"PLAN", "'):
            plans.append(json.loads(line[len('<<"PLAN", "'):-3].encode().decode("unicode_escape")))
    if len(plans) < 500:
        raise MachineryError("GenSlicing produced only %d plans\n%s" % (len(plans), g.out[-2000:]))
    return plans


NB = 5
def concretise(plan, bounds, n, rng):
    """Map the slots of a symbolic plan onto real field boundaries of an n-byte input."""
    pool = sorted(set(bounds))
    if len(pool) >= NB - 1:
        inner = sorted(rng.sample(pool, NB - 1))
    else:
        inner = sorted((pool + [rng.randrange(0, n + 1) for _ in range(NB)])[:NB - 1])
    slot = [0] + inner + [n]
    ins = []; outs = []
    fed = 0
    for c in plan["calls"]:
        j, d = c["to"]
        tgt = max(fed, min(n, max(0, slot[j] + d)))
        ins.append(tgt - fed)
        fed = tgt
        outs.append(0 if c["grant"] == "0" else 1 << 30 if c["grant"] == "ALL" else int(c["grant"]))
    orep = {"one": 1, "two": 2}.get(plan["mode"], 0)
    return {"k": "lists", "ins": ins, "outs": outs, "irep": 0, "orep": orep, "mode": plan["mode"]}


def plans_for(s, ctx, sym, quick, n_tlc, n_rand):
    rng = ctx.rng
    n = len(s["data"])
    if s["entry"] == "block_decoder":
        n -= s["args"]["header_len"]
        bounds = [b - s["args"]["header_len"] for b in s["bounds"] if b > s["args"]["header_len"]]
    else:
        bounds = list(s["bounds"])
    mt = s["entry"].endswith("_mt")
    P = []
    if s.get("lattice"):
        # encoder window refill: one byte at a time, odd piece sizes, pieces that end near each other, random
        P += [{"k": "in1"}, {"k": "pieces", "size": 4093}, {"k": "pieces", "size": rng.choice((3, 17, 333, 1021))},
              {"k": "lists", "ins": [], "outs": [], "irep": rng.randint(2, 600), "orep": rng.choice((0, 1, 7))},
              {"k": "two", "at": rng.randint(1, n - 1)}, {"k": "two", "at": 4093}]
        return P
    if s["kind"] == "dec":
        P.append({"k": "around_stop", "w": 6})
    # every two-piece split (files <= 4 KiB); for threaded coders and in the quick tier a seeded sample + boundaries +-1
    if n <= 4096:
        full = (not mt) and (n <= (450 if quick else 4096))
        if full:
            P.append({"k": "every2", "from": 0, "to": n})
        else:
            pts = set()
            for b in bounds:
                pts.update((b - 1, b, b + 1))
            pts.update(rng.randrange(0, n + 1) for _ in range(16 if quick else 200))
            for k in (rng.sample(sorted(p for p in pts if 0 <= p <= n), min(len([p for p in pts if 0 <= p <= n]), 45)) if quick else sorted(p for p in pts if 0 <= p <= n)[:600]):
                P.append({"k": "two", "at": k})
    elif bounds:
        for b in rng.sample(bounds, min(len(bounds), 12)):
            P.append({"k": "two", "at": b + rng.choice((-1, 0, 1))})
    small = n <= 6000 and (s.get("cap") or 0) <= 12000
    if small or not quick:
        P.append({"k": "byte1", "z": 0, "rec": n <= 64})
        P.append({"k": "byte1", "z": rng.choice((3, 7))})
    P.append({"k": "in1"})
    P.append({"k": "out1"} if small or not quick else {"k": "lists", "ins": [], "outs": [0, 1, 1, 0], "orep": 0})
    for pl in rng.sample(sym, n_tlc):
        c = concretise(pl, bounds, n, rng)
        c["rec"] = not (s["entry"].endswith("_mt") and s["args"].get("timeout"))
        P.append(c)
    for _ in range(n_rand):
        ins = []
        left = n
        while left > 0 and len(ins) < 40:
            k = rng.choice((0, 1, 1, 2, rng.randint(0, 9), rng.randint(0, max(1, n // 3))))
            ins.append(min(k, left)); left -= min(k, left)
        outs = [rng.choice((0, 1, 2, 3, rng.randint(0, 50), 1 << 30)) for _ in range(rng.randint(0, 30))]
        P.append({"k": "lists", "ins": ins, "outs": outs, "irep": rng.choice((0, 0, 1, 5)), "orep": rng.choice((0, 0, 1, 7))})
    # starvation in the middle (nothing new, no space), then continue: LZMA_BUF_ERROR is not fatal
    for _ in range(1 if quick else 3):
        at = (rng.choice(bounds) + rng.choice((-1, 0, 1))) if bounds and rng.random() < 0.7 else rng.randint(0, n)
        slow = mt and s["args"].get("timeout")
        P.append({"k": "starve", "at": max(0, min(n, at)), "n": 60 if slow else 10 if mt else 6, "rec": not slow})
    return P


# ------------------------------------------------------------------------------------------------ jobs
def run_jobs(ctx, subjects, groups=(), parses=(), nproc=4, rec_budget=20000, timeout=1800, item_timeout=240, strcmps=()):
    """Distribute the work over driver subprocesses (ASan+UBSan, asserts on).  A crash / sanitizer report / hang is
    attributed to the subject named in OUT.cur; the rest of that batch is resumed in a new process."""
    so = build.lib("asan")["so"]
    env = build.asan_env()
    env["PYTHONPATH"] = HERE
    batches = [dict(so=so, rec_budget=rec_budget // nproc, item_timeout=item_timeout, subjects=[], groups=[], parses=[], strcmps=[])
               for _ in range(nproc)]
    for i, s in enumerate(subjects):
        d = dict(s); d["data"] = s["data"].hex()
        batches[i % nproc]["subjects"].append(d)
    for i, g in enumerate(groups):
        d = dict(g); d["data"] = g["data"].hex()
        batches[i % nproc]["groups"].append(d)
    for i, p in enumerate(parses):
        batches[i % nproc]["parses"].append(p)
    for i, p in enumerate(strcmps):
        batches[i % nproc]["strcmps"].append(p)
    results = []
    crashes = []

    def run_batch(bi, job):
        out = []
        attempt = 0
        while job["subjects"] or job["groups"] or job["parses"] or job["strcmps"]:
            attempt += 1
            jp = os.path.join(ctx.workdir, "job%d_%d.json" % (bi, attempt))
            op = os.path.join(ctx.workdir, "out%d_%d.ndjson" % (bi, attempt))
            json.dump(job, open(jp, "w"))
            try:
                p = subprocess.run([sys.executable, "-m", "harness.pydrv.c06drv", jp, op], cwd=HERE, env=env,
                                   stdout=subprocess.PIPE, stderr=subprocess.STDOUT, text=True, errors="replace", timeout=timeout)
                rc, log = p.returncode, p.stdout
            except subprocess.TimeoutExpired as ex:
                rc, log = "timeout", (ex.stdout or b"").decode("latin1") if isinstance(ex.stdout, bytes) else (ex.stdout or "")
            done = [json.loads(l) for l in open(op)] if os.path.exists(op) else []
            out.extend(done)
            cur = open(op + ".cur").read().split() if os.path.exists(op + ".cur") else ["?"]
            if rc == 0 and cur[0] == "done":
                break
            if cur[0] not in ("subject", "group", "parse", "strcmp"):
                raise MachineryError("driver failed outside a subject (rc=%s, cur=%r, batch %d attempt %d):\n%s" % (rc, cur, bi, attempt, log[-3000:]))
            kind, cid = cur[0], int(cur[1])
            crashes.append(dict(kind=kind, id=cid, rc=rc, log=log[-6000:]))
            seen = {(r["kind"], r["id"]) for r in done} | {(kind, cid)}
            job = dict(job, subjects=[x for x in job["subjects"] if ("subject", x["id"]) not in seen],
                       groups=[x for x in job["groups"] if ("group", x["id"]) not in seen],
                       parses=[x for x in job["parses"] if ("parse", x["id"]) not in seen],
                       strcmps=[x for x in job["strcmps"] if ("strcmp", x["id"]) not in seen])
            if attempt > 12:
                raise MachineryError("driver batch keeps failing:\n" + log[-3000:])
        return out
    with concurrent.futures.ThreadPoolExecutor(max_workers=nproc) as ex:
        for out in ex.map(lambda t: run_batch(*t), enumerate(batches)):
            results.extend(out)
    return results, crashes


def short_cls(cls):
    p = cls.split(":")
    return ":".join(p[:3]) if p[0] != "testfile" else cls


def asan_summary(log):
    for line in log.splitlines():
        if "SUMMARY:" in line or "runtime error:" in line or "Assertion" in line:
            return line.strip()[:300]
    return log.strip().splitlines()[-1][:300] if log.strip() else "no output"


def is_eopm_case(sub, mm):
    c = sub["cls"]
    return (sub["entry"] in ("alone_decoder", "auto_decoder", "raw_decoder") and "ret" in mm["what"].split("+")
            and ("known_size+eopm" in c or "known_size-with_eopm" in c or "lzma1ext:allow1:eopm" in c)
            and mm["one"]["ret"] == "STREAM_END" and mm["obs"]["ret"] == "DATA_ERROR")


def glue_says_csize_short(sub):
    """Independent judgement (harness/glue): the input contains an LZMA2 chunk whose LZMA data needs more than its
    declared compressed size.  liblzma lets the LZMA decoder read past the chunk and reports afterwards, so where the
    error is noticed depends on the input available in that call."""
    from harness.glue import lzma2 as G2, xz as GX
    try:
        e = sub["entry"]
        if e == "block_decoder":
            return "csize_short" in G2.decode(sub["data"][sub["args"]["header_len"]:], 1 << 24).status
        if e == "raw_decoder":
            return sub["args"]["filters"][-1][0] == "lzma2" and "csize_short" in G2.decode(sub["data"], 1 << 24).status
        if e in ("stream_decoder", "stream_decoder_mt", "auto_decoder"):
            return "csize_short" in GX.parse(sub["data"]).verdict
    except Exception:
        return False
    return False


def judge(ctx, subjects, results, crashes, prefix="slice", with_final=True):
    """Turn driver results into violations; returns the recorded histories for trace validation."""
    byid = {s["id"]: s for s in subjects}
    hists = []
    bad_hists = []
    seen = set()
    BAD = {}
    MAX_BAD = 6
    for c in crashes:
        if c["kind"] != "subject":
            continue
        s = byid[c["id"]]
        what = "hang" if c["rc"] in ("timeout", -14) else "crash"
        key = "%s:%s:%s" % (what, s["entry"], short_cls(s["cls"]))
        if key not in seen:
            seen.add(key)
            ctx.violation(key, asan_summary(c["log"]) + "\n" + c["log"][-2500:],
                          dict(kind="subject", entry=s["entry"], args=s["args"], cls=s["cls"], data=s["data"].hex()))
    for r in results:
        if r["kind"] != "subject":
            continue
        s = byid[r["id"]]
        if r.get("machinery"):
            raise MachineryError("driver: subject %s %s: %s" % (s["entry"], s["cls"], r["machinery"]))
        ctx.evaluations += r["runs"]
        ctx.nontrivial_n += max(0, r["runs"] - 1)
        ctx.extra["lzma_code_calls"] = ctx.extra.get("lzma_code_calls", 0) + r["calls"]
        badkeys = {}
        for mm in r["mism"]:
            key = EOPM_KEY if is_eopm_case(s, mm) else "%s:%s:%s:%s" % (prefix, s["entry"], short_cls(s["cls"]), mm["what"])
            if s["entry"] == "stream_decoder_mt" and mm["what"] == "total_in" and mm["one"]["ret"] not in ("STREAM_END",):
                key = "%s:stream_decoder_mt:rejected-input:total_in" % prefix
            if s["entry"] == "microlzma_decoder" and mm["what"] == "total_in" and ":inexact" in s["cls"]:
                key = "%s:microlzma_decoder:inexact-size:total_in" % prefix
            if s["entry"] == "file_info_decoder" and mm["what"] == "total_in" and (mm["obs"].get("seeks") or mm["one"].get("seeks")):
                key = "%s:file_info_decoder:seek:total_in" % prefix
            if "ret" not in mm["what"].split("+") and mm["one"]["ret"] == "DATA_ERROR" and not s["cls"].startswith("valid") \
               and glue_says_csize_short(s):
                key = "%s:lzma2:csize-short:rejected-input" % prefix
            badkeys[json.dumps(mm["plan"], sort_keys=True)] = key
            if key in seen:
                continue
            seen.add(key)
            # the recorded run goes to TraceSlicing (Final must equal the one-shot observation): the trace specification
            # reports it under this key; beyond MAX_BAD distinct keys the driver's own comparison reports directly
            if len(BAD) < MAX_BAD and any(json.dumps(t["plan"], sort_keys=True) == json.dumps(mm["plan"], sort_keys=True) and t["bad"]
                                          for t in r["traces"]):
                BAD[key] = dict(kind="subject", entry=s["entry"], args=s["args"], cls=s["cls"], data=s["data"].hex(),
                                plan=mm["plan"], obs=mm["obs"], one=mm["one"])
            else:
                ctx.violation(key, "observation depends on the slicing: plan %s gives %s, one-shot gives %s" % (
                    json.dumps(mm["plan"])[:300], mm["obs"], mm["one"]),
                    dict(kind="subject", entry=s["entry"], args=s["args"], cls=s["cls"], data=s["data"].hex(), plan=mm["plan"],
                         obs=mm["obs"], one=mm["one"]))
        for pb in r["problems"]:
            w = pb["what"]
            if w.startswith("internal:"):
                key = "undocumented:%s:%s" % (s["entry"], w.split(":")[1])
                if key not in seen:
                    seen.add(key)
                    ctx.violation(key, "lzma_code returned the internal/unknown code %s (%s)" % (w.split(":")[1], s["cls"]),
                                  dict(kind="subject", entry=s["entry"], args=s["args"], cls=s["cls"], data=s["data"].hex(), plan=pb["plan"]))
                continue
            key = {"accounting": "protocol:accounting:%s", "guard": "crash:guard-bytes:%s", "hang": "hang:%s",
                   "starve": "starve:%s:no-buf-error", "leak": "leak:%s", "badfree": "leak:badfree:%s",
                   "roundtrip": "roundtrip:%s"}[w] % s["entry"]
            if w in ("leak", "hang", "guard"):
                key += ":" + short_cls(s["cls"])
            if key in seen:
                continue
            seen.add(key)
            ctx.violation(key, "%s on plan %s (%s)" % (w, json.dumps(pb["plan"])[:300], s["cls"]),
                          dict(kind="subject", entry=s["entry"], args=s["args"], cls=s["cls"], data=s["data"].hex(), plan=pb["plan"]))
        one = r["one"]
        if s.get("expect_ret") and one is not None:
            # the verdict on this input is fixed by the format (judged independently by harness/glue)
            hists.append(("%s|%s|" % (s["entry"], short_cls(s["cls"])),
                          [{"e": "Parse", "entry": s["entry"], "ret": one["ret"], "expect": s["expect_ret"], "cls": s["cls"],
                            "olen": one["olen"], "input": s["data"].hex()[:2000]}]))
        for t in r["traces"]:
            if one is None or one["ret"].startswith("INIT_"):
                continue
            bkey = badkeys.get(json.dumps(t["plan"], sort_keys=True)) if t["bad"] else None
            if t["bad"] and (bkey is None or bkey not in BAD or BAD[bkey].get("sent")):
                continue
            if bkey:
                BAD[bkey]["sent"] = True
            evs = [{"e": "Reset", "coder": s["entry"], "cls": s["cls"], "exempt": bool(s.get("exempt")) and one["ret"] != "STREAM_END",
                    "one": {"ret": one["ret"], "tin": one["tin"], "olen": one["olen"], "dig": one["dig"]}}]
            if bkey:
                evs[0].update(input=s["data"].hex(), args=json.dumps(s["args"]), plan=json.dumps(t["plan"]))
            # Final is the observation at the terminal call; the two extra starving calls come after it in the log
            tail = t["events"][-2:] if len(t["events"]) >= 2 else []
            body = t["events"][:-2] if len(t["events"]) >= 2 else t["events"]
            f = t["final"]
            evs += body
            if with_final:
                evs.append({"e": "Final", "ret": f["ret"], "tin": f["tin"], "olen": f["olen"], "dig": f["dig"],
                            "dlen": sum(e["uout"] for e in body)})
            evs += tail
            (bad_hists if bkey else hists).append(("%s|%s|%s" % (s["entry"], short_cls(s["cls"]), bkey or ""), evs))
    return hists, bad_hists, BAD


def validate_traces(ctx, hists, bad_hists, BAD, extra=()):
    """(V): recorded runs against TraceSlicing.  Runs whose observation differed from the one-shot run are validated
    separately (each must be rejected at its Final event, which is where the violation is reported)."""
    rej = 0
    if bad_hists:
        before = len(ctx.violations) + len(ctx.known_hits)
        rej = tracev.validate(ctx, "TraceSlicing", bad_hists, trace_key, timeout=600, max_rounds=len(bad_hists) + 2, name="TraceSlicingBad")
        if rej < len(bad_hists):
            raise MachineryError("TraceSlicing accepted %d runs whose observation differs from the one-shot run" % (len(bad_hists) - rej))
    good = list(hists) + list(extra)
    rej2 = tracev.validate(ctx, "TraceSlicing", good, trace_key, timeout=900) if good else 0
    ctx.log("TraceSlicing: %d histories (%d events), rejected=%d (+%d runs that differ from one-shot)" % (
        len(good), sum(len(e) for _, e in good), rej2, rej))
    return rej + rej2


def judge_groups(ctx, groups, results):
    hists = []
    byid = {g["id"]: g for g in groups}
    for r in results:
        if r["kind"] != "group":
            continue
        if r.get("machinery"):
            raise MachineryError("driver: group %s: %s" % (byid[r["id"]]["cls"], r["machinery"]))
        evs = [{"e": "Group", "cls": r["cls"], "entry": r["entry"]}]
        for run in r["runs"]:
            if run["ret"] != "STREAM_END":
                ctx.violation("determinism:%s:run-failed:%s" % (r["entry"], run["ret"]), json.dumps(run)[:500],
                              dict(kind="group", group=r["cls"], run=run))
            evs.append({"e": "Run", "dig": run["dig"], "cfg": json.dumps(run["cfg"])[:200], "text": run.get("text") or ""})
            ctx.case(key=("group", r["cls"], json.dumps(run["cfg"], sort_keys=True)))
        hists.append((r["entry"] + "|" + r["cls"] + "|", evs))
    return hists


# ------------------------------------------------------------------------------------------------ text vs structure
PREFIX_SPEC = {"": [], "x86": [["x86", {}]], "delta:dist=3": [["delta", {"dist": 3}]], "arm64:start=4096": [["arm64", {"start_offset": 4096}]]}


def gen_str_items(ctx, quick):
    """(G) SliceStr.tla: option strings with the options they denote."""
    r = tlc.run("SliceStr", cfg="GenSliceStr.cfg", workers=1, timeout=600)
    ctx.add_tlc("SliceStr", r, exhaustive=True)
    items = []
    for line in r.out.splitlines():
        if line.startswith('<<"ITEM", "'):
            items.append(json.loads(line[len('<<"ITEM", "'):-3].encode().decode("unicode_escape")))
    if len(items) < 1000:
        raise MachineryError("SliceStr produced %d items\n%s" % (len(items), r.out[-1500:]))
    rng = ctx.rng
    data = (b"".join(rng.choice([b"alpha ", b"beta", b"\x00\x00\x00", b"0123456789", b"xz "]) for _ in range(900))
            + bytes(rng.getrandbits(8) for _ in range(300)))
    out = []
    enc_budget = 60 if quick else 600
    rng.shuffle(items)
    for it in items:
        text = (it["prefix"] + " " if it["prefix"] else "") + it["filter"] + ":preset=%d%s" % (it["level"], "e" if it["extreme"] else "")
        if it["opt"] != "none":
            text += ",%s=%s" % (it["opt"], it["val"].strip('"'))
        d = dict(text=text, filter=it["filter"], want=it["want"], prefix_spec=PREFIX_SPEC[it["prefix"]], opt=it["opt"],
                 cls="str:%s:%s%s" % (it["filter"], it["level"], "e" if it["extreme"] else ""))
        if it["want"]["dict"] <= (1 << 20) and enc_budget > 0:
            enc_budget -= 1
            d["data"] = data.hex()
        out.append(d)
    return out


def judge_strcmp(ctx, items, results):
    byid = {x["id"]: x for x in items}
    seen = set()
    fields = []
    hists = []
    for r in results:
        if r["kind"] != "strcmp":
            continue
        if r.get("machinery"):
            raise MachineryError("driver: strcmp %s: %s" % (byid[r["id"]]["text"], r["machinery"]))
        it = byid[r["id"]]
        ctx.case(key=("strcmp", it["text"], "data" in it))
        if r["msg"]:
            if ("rej", it["opt"]) in seen:
                continue
            seen.add(("rej", it["opt"]))
            ctx.violation("text:str_to_filters:rejected:%s" % it["opt"], "%r -> %s" % (it["text"], r["msg"]), dict(kind="strcmp", item=it, result=r))
            continue
        fields.append({"e": "Fields", "text": it["text"], "opt": it["opt"], 
                       "got": r["got"], "want": r["want"]})
        if r["digs"]:
            evs = [{"e": "Group", "cls": "text-vs-structure", "text": it["text"]}]
            for d in r["digs"]:
                evs.append({"e": "Run", "dig": d["dig"], "cfg": d["form"], "text": it["text"]})
            hists.append(("text-vs-structure|%s|" % it["text"], evs))
    for i in range(0, len(fields), 400):
        hists.append(("str_to_filters|fields|", fields[i:i + 400]))
    return hists


def trace_key(label, e, idx):
    if e.get("e") == "Fields":
        return "text:str_to_filters:fields:%s" % ("preset" if e.get("opt") == "none" else e.get("opt"))
    parts = label.split("|")
    entry, cls = parts[0], parts[1]
    if len(parts) > 2 and parts[2] and e.get("e") == "Final":
        return parts[2]
    if e.get("e") == "Parse":
        return "verdict:%s:%s:%s" % (entry, ":".join(cls.split(":")[:3]), e.get("ret"))
    if e.get("e") == "Run":
        return "determinism:%s:output-differs" % entry
    if e.get("e") == "Final":
        return "trace:%s:%s:final-differs" % (entry, cls)
    if e.get("e") == "Call":
        return "trace:%s:%s:%s" % (entry, e.get("action"), e.get("ret"))
    return "trace:%s:%s" % (entry, e.get("e"))


def run(ctx):
    quick = ctx.quick
    from harness.pydrv import lz, c06corpus
    L = build.lib("asan")
    lz.load(L["so"])
    # (M) in the background
    cfgs = ["MCSlicingXz", "MCSlicingLzma1", "MCSlicingLzip", "MCSlicingBcj"]
    if not quick:
        cfgs = [c + "T" for c in cfgs]          # MaxFeed = 4, MaxGrant = 3
    neg = ["MCSlicingLzma1Recomputed", "MCSlicingBcjStrict"]
    futs = start_models(cfgs + neg, workers=1 if quick else 2)
    efuts = start_models(["MCSliceEnc", "MCSliceEncShort"], module="MCSliceEnc", workers=1)
    # (G)
    sym = gen_plans(ctx)
    ctx.log("GenSlicing: %d symbolic plans" % len(sym))
    # corpus
    rng = ctx.rng
    S = []
    S += c06corpus.xz_subjects(rng, quick, 3 if quick else 20, 6 if quick else 60)
    S += c06corpus.tests_files(rng, quick)
    S += c06corpus.lzma1_subjects(rng, quick, 2 if quick else 8)
    S += c06corpus.microlzma_subjects(rng, quick, 2 if quick else 6)
    S += c06corpus.lzma2_subjects(rng, quick, 2 if quick else 10)
    S += c06corpus.lzip_subjects(rng, quick, 2 if quick else 6)
    S += c06corpus.block_index_subjects(rng, quick, 1 if quick else 6)
    S += c06corpus.first_symbol_subjects(rng, quick)
    S += c06corpus.init_reject_subjects(rng, quick)
    S += c06corpus.internal_limit_subjects(rng, quick)
    S += c06corpus.flag_variants(S, rng, 0.25 if quick else 1.0)
    S += c06corpus.encoder_subjects(rng, quick)
    for i, s in enumerate(S):
        s["id"] = i
        s["plans"] = plans_for(s, ctx, sym, quick, 3 if quick else 12, 2 if quick else 8)
    G = c06corpus.determinism_groups(rng, quick)
    for i, g in enumerate(G):
        g["id"] = i
    T = gen_str_items(ctx, quick)
    for i, t in enumerate(T):
        t["id"] = i
    ctx.log("corpus: %d subjects (%d decoder, %d encoder), %d determinism groups" % (
        len(S), sum(1 for s in S if s["kind"] == "dec"), sum(1 for s in S if s["kind"] == "enc"), len(G)))
    # heavy subjects first, round-robin
    S.sort(key=lambda s: -len(s["data"]) * (3 if s["entry"].endswith("_mt") else 1))
    results, crashes = run_jobs(ctx, S, G, nproc=4 if quick else 6, rec_budget=22000 if quick else 220000, strcmps=T)
    for c in crashes:
        if c["kind"] in ("group", "strcmp"):
            ctx.violation("crash:%s" % c["kind"], asan_summary(c["log"]) + "\n" + c["log"][-2500:], dict(kind=c["kind"], id=c["id"]))
    hists, bad_hists, BAD = judge(ctx, S, results, crashes)
    ghists = judge_groups(ctx, G, results) + judge_strcmp(ctx, T, results)
    nruns = sum(r["runs"] for r in results if r["kind"] == "subject")
    ctx.log("driver: %d runs, %d lzma_code calls, %d recorded histories, %d groups" % (
        nruns, ctx.extra.get("lzma_code_calls", 0), len(hists), len(ghists)))
    by_entry = {}
    for r in results:
        if r["kind"] == "subject":
            by_entry[r["entry"]] = by_entry.get(r["entry"], 0) + r["runs"]
    ctx.extra["runs_by_entry"] = by_entry
    # (V)
    validate_traces(ctx, hists, bad_hists, BAD, ghists)
    if hists:
        ctx.sample(dict(kind="recorded_run", label=hists[len(hists) // 2][0], events=hists[len(hists) // 2][1][:12]))
    if ghists:
        ctx.sample(dict(kind="determinism_group", label=ghists[0][0], events=ghists[0][1][:6]))
    ctx.sample(dict(kind="symbolic_plan", plan=sym[len(sym) // 3]))
    # (M) results
    collect_models(ctx, futs, expect_violation=neg)
    collect_models(ctx, efuts, expect_violation=["MCSliceEncShort"])
    ctx.assumptions += [
        "SliceCoder.tla abstracts the decoders to five resume idioms (buffer copy, byte-wise fields, Stream Padding mod 4, "
        "LZMA symbol with recomputed locals, known-size end) plus simple_code(); per-format detail is in the conformance runs",
        "the conformance side compares every slicing with the one-shot run of the same build (it does not judge the one-shot result; C03/C05 do)",
        "threaded coders: schedules are whatever the OS produced during the runs (systematic schedules are C07/C08)"]
    return ctx.finish(rule="evaluations = executed (subject, plan) runs on the real coders, each compared with the one-shot observation, "
                      "+ determinism-group runs; distinct by (subject, plan); trivial = the one-shot runs themselves",
                      trusted=["TLC", "harness/glue (input generation only)", "gcc ASan/UBSan", "ctypes driver"])
