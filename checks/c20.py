"""C20 - xzgrep/xzdiff and friends act as grep/diff on decompressed data; names are data.

(M) MCXzGrep (wide: option scanner vs a declarative getopt; files: scanner + per-file fold/label contract over
    all file-state vectors of length <= 3) and MCXzDiff: transcription of the scripts => contract.
    Strict configurations check the clauses the scripts are known to deviate from (reported with narrow keys,
    only when the replay confirms them on the real scripts).
(G/R) GenXzDiff suffix matrix (breadth-first): every suffix in both operand positions x every suffix / none, same and
    different contents, xzdiff and xzcmp, one-operand form, "-" first.
(G/R) GenXzGrep / GenXzDiff (tlc -simulate, seeded): plans = program name, label method, option words, pattern
    form/class, files with state, suffix and hostile NAME CLASS, with everything the model predicts.  The driver
    materialises every plan in a scratch directory, runs the real scripts (bindir first in PATH; GREP pointing
    at a wrapper that rejects --label for the sed fallback), and compares stdout / exit status / stderr class
    with model + real grep/diff/cmp run on the decompressed data; the directory must be unchanged (CANARY).

Shell word-splitting / quoting / eval semantics are NOT modelled: they are observed on the hostile name and
pattern classes (the model treats words as opaque placeholders)."""
import json, os, re, struct, subprocess, shutil, zlib, lzma, gzip, bz2, collections
from concurrent.futures import ThreadPoolExecutor
from lib import tlc, build
from lib.ctx import MachineryError
from checks.c11 import plans_from_tlc

# ------------------------------------------------------------------ hostile words
NAME_STEMS = {
    "plain": b"plain%d", "nl": b"new\nline%d", "sq": b"it's%d", "dq": b'say"hi"%d', "semi": b"a;touch CANARY;b%d",
    "bs": b"back\\slash\\n%d", "amp": b"a&touch CANARY&b%d", "pipe": b"a|touch CANARY|b%d",
    "subst": b"$(touch CANARY)%d", "btick": b"`touch CANARY`%d", "glob": b"*g?[lo]b%d", "colon": b"co:lon:%d",
    "space": b" two  words %d", "sqsubst": b"x';touch CANARY;'%d", "sedmix": b"a&b|c\\d\ne&%d",
    "bsend": b"end%d\\", "nlend": b"tn%d\n",
    # the token already starts with "-": these are the rest of the name
    "dash": b"dash%d", "dashopt": b"-help%d", "dashsubst": b"e$(touch CANARY)%d",
}
PAT_LITERALS = {
    "plain": b"needle", "quote": b"nee'dle", "dquote": b'nee"d le', "subst": b"needle$(touch CANARY)",
    "btick": b"needle`touch CANARY`", "semi": b"needle;touch CANARY;", "ampipe": b"needle&touch CANARY|x",
    "bslash": b"nee\\dle", "glob": b"needle*?[a]", "newline": b"needle\nzzznothere", "bad": b"needle\\(",
}
PATFILE_NAMES = [b"pat file", b"pat'$(touch CANARY)", b"pat;f&|", b"patX\n;touch CANARY;'q", b"pat'X"]
DIFF_OPT_TEXTS = [b"it's", b"aX\n;touch CANARY;'b", b"q'X", b"plain", b"'", b"X\n'"]
# classes "esc:<letters>": words over the alphabet of the scripts' own escaping code (sed script "escape"):
# X = the sentinel letter, q = single quote, n = newline, c = a command
ESC_TOKENS = {"X": b"X", "q": b"'", "n": b"\n", "c": b";touch CANARY;"}

def esc_bytes(cls):
    return b"".join(ESC_TOKENS[ch] for ch in cls[4:])

def name_stem(cls, i):
    if cls.startswith("esc:"):
        return b"%d" % i + esc_bytes(cls)       # index first: the end of the name (X, quote, newline) is preserved
    return NAME_STEMS[cls] % i

def pat_literal(cls, base=b"needle"):
    if cls.startswith("esc:"):
        lit = base + esc_bytes(cls)
    elif cls == "never":
        return NEVER
    else:
        return PAT_LITERALS[cls]
    # an empty line in a pattern list matches everything: keep the shape, fill the empty alternatives
    return b"\n".join(piece or b"zzzEMPTY" for piece in lit.split(b"\n"))

NEVER = b"zzzNOTHERE"
FILLERS = [b"alpha", b"beta gamma", b"delta", b"epsilon zeta", b"eta", b"theta"]
FORMAT_OF_SUFFIX = {".xz": "xz", "": "xz", ".txz": "xz", "-xz": "xz", ".txt": "xz",
                    ".lzma": "lzma", "-lzma": "lzma", ".tlz": "lzma", ".lz": "lzip", "-lz": "lzip",
                    ".gz": "gz", ".tgz": "gz", ".taz": "gz", "-z": "gz", ".z": "gz", ".Z": "gz", "_z": "gz", "-gz": "gz",
                    ".bz2": "bz2", ".tbz2": "bz2", "-bz2": "bz2", ".tbz": "bz2"}

def regex_quote(lit, matcher):
    if matcher == "F":
        return lit
    special = b"\\.*[]^$" if matcher == "G" else b"\\.*[]^$()|+?{}"
    return b"".join((b"\\" + bytes([c])) if c in special else bytes([c]) for c in lit)

def pattern_text(pcl, matcher):
    lit = pat_literal(pcl)
    if pcl == "bad":
        return b"needle(" if matcher == "E" else lit
    return b"\n".join(regex_quote(part, matcher) for part in lit.split(b"\n"))

def compress(data, fmt):
    if fmt == "xz":
        return lzma.compress(data, format=lzma.FORMAT_XZ, check=lzma.CHECK_CRC32, preset=0)
    if fmt == "lzma":
        return lzma.compress(data, format=lzma.FORMAT_ALONE, preset=0)
    if fmt == "lzip":
        raw = lzma.compress(data, format=lzma.FORMAT_RAW,
                            filters=[{"id": lzma.FILTER_LZMA1, "dict_size": 1 << 16, "lc": 3, "lp": 0, "pb": 2}])
        return b"LZIP\x01\x10" + raw + struct.pack("<IQQ", zlib.crc32(data), len(data), 6 + len(raw) + 20)
    if fmt == "gz":
        return gzip.compress(data, mtime=0)
    if fmt == "bz2":
        return bz2.compress(data)
    raise MachineryError("unknown format " + fmt)

def xz_corrupt_header(data):
    x = bytearray(compress(data, "xz")); x[7] ^= 0xFF          # stream flags: header CRC mismatch, nothing is output
    return bytes(x)

def xz_corrupt_late(data):
    x = bytearray(compress(data, "xz"))
    isz = (struct.unpack("<I", x[-8:-4])[0] + 1) * 4           # index size from the footer's backward size
    x[len(x) - 12 - isz - 1] ^= 0xFF                          # last byte of the block's CRC32: all data is output first
    return bytes(x)

SUBST = re.compile(rb"@([pqro123])")

class World:
    """Tools shared by all plans of a run."""
    def __init__(self, ctx):
        self.ctx = ctx
        self.cli = build.cli()
        self.bindir = self.cli["bindir"]
        self.root = os.path.join(ctx.workdir, "c20")
        os.makedirs(self.root, exist_ok=True)
        self.tools = {t: shutil.which(t) for t in ("grep", "diff", "cmp", "gzip", "bzip2", "sed", "expr")}
        for t in ("grep", "diff", "cmp", "sed", "expr"):
            if not self.tools[t]:
                raise MachineryError("required tool %s not found" % t)
        self.have = {"gz": bool(self.tools["gzip"]), "bz2": bool(self.tools["bzip2"]), "xz": True, "lzma": True, "lzip": True}
        tb = os.path.join(self.root, "tools"); fb = os.path.join(tb, "fakebin")
        os.makedirs(fb, exist_ok=True)
        # GREP wrapper that does not know --label: forces the sed fallback (line 220-250 of xzgrep)
        self.nolabel = os.path.join(tb, "nolabelgrep")
        with open(self.nolabel, "w") as f:
            f.write('#!/bin/sh\nfor a; do case $a in --label|--label=*) echo "grep: unrecognized option --label" >&2; exit 2;; esac; done\n'
                    'exec %s "$@"\n' % self.tools["grep"])
        os.chmod(self.nolabel, 0o755)
        # gzip stand-in: real gzip unless the file asks for a decompressor that dies of a signal
        if self.tools["gzip"]:
            with open(os.path.join(fb, "gzip"), "w") as f:
                f.write('#!/bin/sh\nfor f; do :; done\n'
                        'case $(head -c 6 -- "$f" 2>/dev/null) in\n'
                        ' KILLME) kill -KILL $$;;\n'
                        ' PIPEME) tail -c +8 -- "$f"; kill -PIPE $$;;\n'
                        'esac\nexec %s "$@"\n' % self.tools["gzip"])
            os.chmod(os.path.join(fb, "gzip"), 0o755)
        self.path = os.pathsep.join([self.bindir, fb, os.environ.get("PATH", "/usr/bin:/bin")])
        self.bigtail = b"".join(b"%s %d\n" % (FILLERS[i % 6], i) for i in range(150000))
        self.bigcache = {}

    def big(self, firstline):
        """a 1.9 MB file whose first line is given (cached with its .xz form)"""
        if firstline not in self.bigcache:
            data = firstline + b"\n" + self.bigtail
            self.bigcache[firstline] = (data, compress(data, "xz"))
        return self.bigcache[firstline]

    def env(self, plandir, grepvar=None):
        e = {"PATH": self.path, "LC_ALL": "C", "HOME": os.path.join(plandir, ".home"), "TMPDIR": os.path.join(plandir, ".tmp")}
        if grepvar:
            e["GREP"] = grepvar
        return e

def sh(cmd, cwd, env, stdin_bytes=None, timeout=120):
    p = subprocess.run(cmd, cwd=cwd, env=env, input=stdin_bytes if stdin_bytes is not None else b"",
                       stdout=subprocess.PIPE, stderr=subprocess.PIPE, timeout=timeout)
    return p.returncode, p.stdout, p.stderr

def listing(d):
    out = []
    for root, dirs, files in os.walk(os.fsencode(d)):
        for n in dirs + files:
            out.append(os.path.join(root, n))
    return sorted(out)

# ------------------------------------------------------------------ xzgrep
def flat_has_invert(gopts):
    for g in gopts:
        o = g["o"]
        if o == "--invert-match":
            return True
        if not o.startswith("--") and o[1:2] not in ("e", "f") and "v" in o.split("@")[0][1:]:
            return True
    return False

def grep_content(kind, lit, invert):
    first = lit.split(b"\n")[0]
    pat1 = b"ww -" + first + b" yy"; pat2 = b"yy -" + first + b" ww end"      # no letter x: "X" is a pattern of the esc classes
    f = FILLERS
    if kind in ("match", "plainmatch", "clmatch", "pipe"):
        lines = [f[0], pat1, f[1], f[2], f[3], pat1.upper(), f[4], f[5], pat2, f[0]]
    elif invert:
        lines = [pat1, pat2]
    else:
        lines = [f[0], f[1], f[2], b"ww -noodle yy", f[3], f[4], f[5]]
    return b"\n".join(lines) + b"\n"

def materialise_grep(W, plan, d):
    """Create the files of a plan in directory d.  Returns dict with argv (bytes), names, data seen by grep, stdin."""
    matcher = plan["matcher"] or {"xzegrep": "E", "xzfgrep": "F"}.get(plan["prog"], "G")
    invert = flat_has_invert(plan["gopts"])
    pat = pattern_text(plan["pcl"], matcher)
    lit = pat_literal(plan["pcl"])
    words = {b"p": pat, b"r": b"\n".join(regex_quote(x, matcher) for x in pat_literal(plan.get("rcl", "never"), NEVER).split(b"\n"))}
    names = {}; seen = {}
    for i, m in enumerate(plan["meta"]):
        if m["kind"] == "stdin":
            continue
        words[str(i + 1).encode()] = name_stem(m["ncls"], i + 1)
    if any("@q" in a for a in plan["argv"]):
        pf = PATFILE_NAMES[len(plan["argv"]) % len(PATFILE_NAMES)]
        words[b"q"] = pf
        with open(os.path.join(os.fsencode(d), pf), "wb") as f:
            f.write(pat + b"\n")
    sub = lambda tok: SUBST.sub(lambda mm: words[mm.group(1)], tok.encode())
    for i, m in enumerate(plan["meta"]):
        kind = m["kind"]
        if kind == "stdin":
            continue
        name = sub(m["tok"]); names[m["tok"]] = name
        suffix = m["tok"].split("@", 1)[1][1:]
        fmt = FORMAT_OF_SUFFIX[suffix]
        content = W.big(b"ww -" + lit.split(b"\n")[0] + b" yy BIG")[0] if kind == "big" else grep_content(kind, lit, invert)
        if kind in ("match", "nomatch"):
            blob = compress(content, fmt); data = content
        elif kind in ("plainmatch", "plainnomatch"):
            blob = content; data = content
        elif kind == "missing":
            blob = None; data = b""
        elif kind == "corrupt":
            blob = xz_corrupt_header(content); data = b""
        elif kind in ("clmatch", "clnomatch"):
            blob = xz_corrupt_late(content); data = content
        elif kind == "big":
            blob = W.big(b"ww -" + lit.split(b"\n")[0] + b" yy BIG")[1]; data = content
        elif kind == "kill":
            blob = b"KILLME\n"; data = b""
        elif kind == "pipe":
            blob = b"PIPEME\n" + content; data = content
        else:
            raise MachineryError("kind " + kind)
        seen[m["tok"]] = data
        if blob is not None:
            with open(os.path.join(os.fsencode(d), name), "wb") as f:
                f.write(blob)
    sk = plan["stdin"]
    sc = grep_content(sk, lit, invert)
    stdin_blob = sc if sk.startswith("plain") else compress(sc, "xz")
    seen["-"] = sc; names["-"] = b"-"
    argv = [sub(a) for a in plan["argv"]]
    gargs = []
    for g in plan["gopts"]:
        gargs.append(sub(g["o"]))
        if g["has"]:
            gargs.append(sub(g["a"]))
    return dict(argv=argv, names=names, seen=seen, stdin=stdin_blob, gargs=gargs)

def sub_words(plan, tok):
    """substitute only the pattern placeholders of an option word"""
    matcher = plan["matcher"] or {"xzegrep": "E", "xzfgrep": "F"}.get(plan["prog"], "G")
    w = {b"p": pattern_text(plan["pcl"], matcher), b"r": pat_literal(plan.get("rcl", "never"), NEVER), b"q": b"patfile"}
    return re.sub(rb"@([pqr])", lambda mm: w[mm.group(1)], tok.encode())

LBL = b"\x01L\x01"
def relabel(out, name):
    return b"\n".join((name + l[len(LBL):]) if l.startswith(LBL) else l for l in out.split(b"\n"))

def grep_needed_formats(plan):
    fm = set()
    for m in plan["meta"]:
        if m["kind"] != "stdin":
            fm.add(FORMAT_OF_SUFFIX[m["tok"].split("@", 1)[1][1:]])
    return fm

def replay_grep(W, idx, plan):
    """Returns list of (key, detail) problems, and a dict describing the run."""
    d = os.path.join(W.root, "g%d" % idx)
    os.makedirs(os.path.join(d, ".home")); os.makedirs(os.path.join(d, ".tmp"))
    M = materialise_grep(W, plan, d)
    before = listing(d)
    grepvar = None
    if not plan["labelOK"]:
        grepvar = W.nolabel + {"xzegrep": " -E", "xzfgrep": " -F"}.get(plan["prog"], "")
    env = W.env(d, grepvar)
    rc, out, err = sh([os.path.join(W.bindir, plan["prog"])] + M["argv"], d, env, M["stdin"])
    after = listing(d)
    probs = []
    info = dict(argv=[a.decode("latin-1") for a in M["argv"]], rc=rc, stdout=out[:400].decode("latin-1"),
                stderr=err[:400].decode("latin-1"))
    if before != after:
        probs.append(("replay:grep:canary", "directory changed: %r" % (sorted(set(after) ^ set(before))[:5],)))
    oc = plan["outcome"]
    # xzgrep.in:148 sends an option word through the quote-escaping code only if a character FOLLOWS the quote
    # ((*\'?*) instead of (*\'*)): a glued option word that ENDS in a quote breaks the eval'ed command line
    glued_q = [g["o"] for g in plan["gopts"] if not g["has"] and "@" in g["o"] and sub_words(plan, g["o"]).endswith(b"'")]
    if rc != plan["exit"]:
        probs.append(("replay:grep:status:%s" % oc, "exit status %d, model predicts %d" % (rc, plan["exit"])))
    if oc in ("ran", "killed"):
        oenv = {"PATH": os.environ.get("PATH", "/usr/bin:/bin"), "LC_ALL": "C"}
        G = [W.tools["grep"]] + {"xzegrep": ["-E"], "xzfgrep": ["-F"]}.get(plan["prog"], []) + M["gargs"]
        exp_impl = b""; exp_contract = b""; exp_Hwins = b""
        for k, o in enumerate(plan["out"]):
            f = o["f"]; data = M["seen"].get(f, b""); name = M["names"].get(f)
            if name is None:
                raise MachineryError("plan reads unknown file %r" % f)
            st = plan["hist"][k]["st"]
            # the delegated part: grep's own verdict on the data the decompressor delivered
            qrc, _, qerr = sh(G + ["-q"], d, oenv, data)
            if qrc != st["gr"]:
                raise MachineryError("harness: file %s realises grep status %d, plan says %d (%r %r)"
                                     % (f, qrc, st["gr"], G, qerr[:200]))
            how = o["how"]
            def lines(how, labelname):
                if how == "none":
                    return b""
                if how == "name":
                    return name + b"\n"
                if how == "plain":
                    return sh(G, d, oenv, data)[1]
                if f == "-" and how == "label":
                    return sh(G + ["-H"], d, oenv, data)[1]        # grep's own name for stdin
                return relabel(sh(G + ["-H", "--label=" + LBL.decode()], d, oenv, data)[1], labelname)
            exp_c = lines(how, name)
            exp_i = exp_c
            if "H-then-h" in plan["div"] and how in ("label", "sed"):
                exp_c = lines("plain", name)
            if how == "sed" and "sed-context" in plan["div"]:
                raw = sh(G, d, oenv, data)[1]
                exp_i = b"".join(name + b":" + l + b"\n" for l in raw.split(b"\n")[:-1])
            exp_impl += exp_i; exp_contract += exp_c
            if plan.get("hhconf") and how == "plain":
                # what a script in which -H always beats -h (the behaviour before fix 7cf9214) would print
                if plan["labelOK"]:
                    exp_Hwins += lines("label", name)
                else:
                    exp_Hwins += b"".join((b"-" if f == "-" else name) + b":" + l + b"\n" for l in exp_c.split(b"\n")[:-1])
            else:
                exp_Hwins += exp_c
        if out == exp_contract:
            pass
        elif plan["div"] and out == exp_impl:
            for tag in plan["div"]:
                probs.append(("contract:grep:" + tag, "real script output equals the transcription's prediction, "
                              "not the contract's: got %r want %r" % (out[:300], exp_contract[:300])))
        elif plan.get("hhconf") and out == exp_Hwins:
            probs.append(("contract:grep:H-then-h", "-H given before -h still labels the lines (in grep the last of -h/-H wins): "
                          "got %r want %r" % (out[:300], exp_contract[:300])))
        else:
            hows = sorted(set(o["how"] for o in plan["out"]))
            probs.append(("replay:grep:stdout:%s" % "+".join(hows), "stdout %r, expected %r" % (out[:400], exp_contract[:400])))
        clean = all(h["st"]["xs"] in ("ok", "pipe") and h["st"]["gr"] < 2 for h in plan["hist"])
        if clean and err:
            probs.append(("replay:grep:stderr", "unexpected stderr %r" % err[:300]))
        if not clean and oc == "ran" and not err:
            probs.append(("replay:grep:stderr-missing", "error run without any diagnostic"))
    elif oc == "help":
        if not out.startswith(b"Usage: "):
            probs.append(("replay:grep:help", "stdout %r" % out[:200]))
    elif oc == "version":
        if not out.startswith(plan["prog"].encode() + b" (XZ Utils)"):
            probs.append(("replay:grep:version", "stdout %r" % out[:200]))
    else:
        if out:
            probs.append(("replay:grep:stdout:%s" % oc, "stdout %r on a usage error" % out[:200]))
    # Attribution: a deviation that is exactly a known contract class (real output == the transcription's prediction)
    # keeps its own key; only symptoms of a failing quoting (wrong status/output vs the model, stderr noise, new files)
    # in a plan with a glued word ending in a quote are reported under the quoting key.
    other = [pr for pr in probs if not pr[0].startswith("contract:")]
    if glued_q and other and oc in ("ran", "killed"):
        probs = [pr for pr in probs if pr[0].startswith("contract:")] + [
                 ("quoting:grep:glued-option-ends-in-quote",
                  "option word %r ends in a single quote: exit status %d (model %d), stderr %r, new files %r; first symptom %s"
                  % (glued_q, rc, plan["exit"], err[:200], sorted(set(after) - set(before))[:3], other[0][0]))]
    shutil.rmtree(d, ignore_errors=True)
    return probs, info

# ------------------------------------------------------------------ xzdiff
DIFF_CONTENT = {"A": b"line one\nline two\nline three\n", "B": b"line one\nline 2\nline three\nextra\n", "empty": b""}

def materialise_diff(W, plan, d):
    words = {}
    for i, m in enumerate(plan["meta"]):
        if m["kind"] != "stdin":
            words[str(i + 1).encode()] = name_stem(m["ncls"], i + 1)
    words[b"o"] = DIFF_OPT_TEXTS[(len(plan["argv"]) + len(plan["meta"][0]["ncls"] if plan["meta"] else "")) % len(DIFF_OPT_TEXTS)]
    sub = lambda tok: SUBST.sub(lambda mm: words[mm.group(1)], tok.encode())
    content = dict(DIFF_CONTENT); content["big"] = W.big(b"BIG first line")[0]
    raw = {}
    for i, m in enumerate(plan["meta"]):
        kind = m["kind"]
        if kind == "stdin":
            continue
        name = sub(m["tok"])
        suffix = m["tok"].split("@", 1)[1][1:]
        fmt = FORMAT_OF_SUFFIX[suffix]
        c = content[m["c"]]
        if kind in ("ok", "ok2"):
            blob = compress(c, fmt)
        elif kind == "big":
            blob = W.big(b"BIG first line")[1]
        elif kind == "plain":
            blob = c
        elif kind == "missing":
            blob = None
        elif kind == "corrupt":
            blob = xz_corrupt_header(c)
        elif kind == "late":
            blob = xz_corrupt_late(c)
        elif kind == "pipe":
            blob = b"PIPEME\n" + c
        elif kind == "kill":
            blob = b"KILLME\n"
        else:
            raise MachineryError("kind " + kind)
        raw[i] = blob
        if blob is not None:
            with open(os.path.join(os.fsencode(d), name), "wb") as f:
                f.write(blob)
    if plan["stemname"] and plan["stem"] != "absent":
        sn = sub(plan["stemname"])
        p = os.path.join(os.fsencode(d), sn)
        if not os.path.lexists(p):
            with open(p, "wb") as f:
                f.write(content[plan["stem"]])
    sc = content[plan["sin"]["c"]]
    stdin_blob = sc if plan["sin"]["cond"] == "plain" else compress(sc, "xz")
    return dict(argv=[sub(a) for a in plan["argv"]], raw=raw, stdin=stdin_blob, content=content,
                stemname=sub(plan["stemname"]) if plan["stemname"] else b"",
                copts=[sub(a) for a in plan["copts"]])

def diff_formats(plan):
    return set(FORMAT_OF_SUFFIX[m["tok"].split("@", 1)[1][1:]] for m in plan["meta"] if m["kind"] != "stdin")

def norm_diff_out(out, copts, prog):
    if out.startswith(b"Binary files ") and out.endswith(b" differ\n"):
        return b"Binary files differ\n"
    if prog == "xzcmp" or any(o in ("-q", "--brief", "-s") for o in copts):
        return b"<some output>" if out else b""
    if any(o in ("-u", "-U1") or o.startswith("--label=") for o in copts):
        i = out.find(b"@@ ")
        return out[i:] if i >= 0 else out
    return out

def replay_diff(W, idx, plan):
    d = os.path.join(W.root, "d%d" % idx)
    os.makedirs(os.path.join(d, ".home")); os.makedirs(os.path.join(d, ".tmp"))
    M = materialise_diff(W, plan, d)
    before = listing(d)
    rc, out, err = sh([os.path.join(W.bindir, plan["prog"])] + M["argv"], d, W.env(d), M["stdin"])
    after = listing(d)
    probs = []
    info = dict(argv=[a.decode("latin-1") for a in M["argv"]], rc=rc, stdout=out[:400].decode("latin-1"),
                stderr=err[:400].decode("latin-1"))
    if before != after:
        probs.append(("replay:diff:canary", "directory changed: %r" % (sorted(set(after) ^ set(before))[:5],)))
    oc = plan["outcome"]
    want = plan["want"]
    if rc != plan["exit"]:
        probs.append(("replay:diff:status:%s" % oc, "exit status %d, model predicts %d" % (rc, plan["exit"])))
    elif rc not in want:
        for tag in plan["div"]:
            probs.append(("contract:diff:" + tag, "exit status %d as the transcription predicts; the contract wants %r" % (rc, want)))
    if oc == "ran" and len(plan["views"]) == 2:
        od = os.path.join(W.root, "o%d" % idx); os.makedirs(od)
        paths = []
        for j, v in enumerate(plan["views"]):
            p = os.path.join(od, "LR"[j])
            if v[0] == "data":
                open(p, "wb").write(M["content"][v[1]])
            elif v[0] == "raw":
                open(p, "wb").write(M["raw"][j])
            elif v[0] == "stdin":
                open(p, "wb").write(b"")
            paths.append(p)       # "nofile": the path does not exist
        tool = W.tools["cmp"] if plan["prog"] == "xzcmp" else W.tools["diff"]
        orc, oout, oerr = sh([tool] + M["copts"] + ["--"] + paths, od, {"PATH": os.environ.get("PATH", ""), "LC_ALL": "C"})
        shutil.rmtree(od, ignore_errors=True)
        if orc != plan["cmpst"]:
            raise MachineryError("harness: %s on the model's views returns %d, model says %d (%r)" % (tool, orc, plan["cmpst"], plan["views"]))
        if rc == plan["exit"] and all(x in ("ok", "pipe") for x in plan["xst"]) and plan["views"][1][0] != "nofile":
            a = norm_diff_out(out, plan["copts"], plan["prog"]); b = norm_diff_out(oout, plan["copts"], plan["prog"])
            if a != b:
                probs.append(("replay:diff:stdout", "stdout %r, %s prints %r" % (out[:300], os.path.basename(tool), oout[:300])))
            if err and plan["cmpst"] < 2 and not (plan["prog"] == "xzcmp" and b"EOF" in err):
                probs.append(("replay:diff:stderr", "unexpected stderr %r" % err[:300]))
    elif oc == "help":
        if not out.startswith(b"Usage: "):
            probs.append(("replay:diff:help", "stdout %r" % out[:200]))
    elif oc == "version":
        if not out.startswith(plan["prog"].encode() + b" (XZ Utils)"):
            probs.append(("replay:diff:version", "stdout %r" % out[:200]))
    elif oc != "ran" and out:
        probs.append(("replay:diff:stdout:%s" % oc, "stdout %r" % out[:200]))
    # xzdiff.in:95-103 computes $FILE with `expr` inside a command substitution, which strips trailing newlines
    if probs and oc == "ran" and len(plan["ops"]) == 1 and plan["stemname"] and M["stemname"].endswith(b"\n"):
        probs = [("quoting:diff:one-operand-stem-ends-in-newline",
                  "FILE1 minus its suffix ends in a newline (%r): exit status %d (model %d), stderr %r; first symptom %s"
                  % (M["stemname"], rc, plan["exit"], err[:200], probs[0][0]))]
    shutil.rmtree(d, ignore_errors=True)
    return probs, info

# ------------------------------------------------------------------ orchestration
def select(plans, n, tags, per_tag=3):
    """first n distinct plans + up to per_tag later plans for each divergence tag (so that a deviation found by TLC
    is always confronted with the real scripts)."""
    seen = set(); uniq = []
    for p in plans:
        k = json.dumps(p, sort_keys=True)
        if k not in seen:
            seen.add(k); uniq.append(p)
    sel = uniq[:n]
    cnt = collections.Counter(t for p in sel for t in p["div"])
    for p in uniq[n:]:
        for t in p["div"]:
            if t in tags and cnt[t] < per_tag:
                sel.append(p); cnt.update(p["div"]); break
    return sel

def tlc_jobs(ctx):
    q = ctx.quick
    return [
        # name, module, cfg, workers, timeout, exhaustive, strict-tag
        ("MCXzGrep(scanner, wide vocabulary, MaxOpts=%d)" % (1 if q else 2), "MCXzGrep", "MCXzGrep.cfg" if q else "MCXzGrepWide2.cfg", 3, 240 if q else 1200, True, None),
        ("MCXzGrep(scanner+file loop, all file-state vectors <= 3)", "MCXzGrep", "MCXzGrepFiles.cfg" if q else "MCXzGrepFilesBig.cfg", 3, 240 if q else 1200, True, None),
        ("MCXzGrep(every pattern form x file-state vectors, action coverage)", "MCXzGrep", "MCXzGrepCov.cfg", 2, 240, "cov", None),
        ("MCXzGrep(strict context-separator contract)", "MCXzGrep", "MCXzGrepStrict_sedctx.cfg", 1, 120, None, "grep:sed-context"),
        ("MCXzDiff", "MCXzDiff", "MCXzDiff.cfg" if q else "MCXzDiffBig.cfg", 2, 240 if q else 1200, True, None),
        ("MCXzDiff(strict: stdin as second operand)", "MCXzDiff", "MCXzDiffStrict.cfg", 1, 120, None, "diff:stdin-second-operand"),
    ]

def run(ctx):
    W = World(ctx)
    q = ctx.quick
    if ctx.replay:
        obj = json.load(open(ctx.replay))
        plan = obj["replay"]["plan"]
        probs, info = (replay_grep if plan["tool"] == "grep" else replay_diff)(W, 0, plan)
        for key, detail in probs:
            ctx.violation(key, detail, dict(plan=plan, run=info))
        ctx.case(key=json.dumps(plan, sort_keys=True))
        ctx.log("replayed 1 plan:", info, probs)
        return ctx.finish(rule="single replay", trusted=["TLC"])
    # ---------------- (M) + (G): all TLC runs concurrently (each has its own metadir)
    n_grep, pool_grep = (300, 1100) if q else (6000, 9000)
    n_diff, pool_diff = (110, 500) if q else (2000, 3500)
    with ThreadPoolExecutor(max_workers=4) as ex:
        futs = [(j, ex.submit(tlc.run, j[1], cfg=j[2], workers=j[3], timeout=j[4], coverage=(j[5] == "cov" or j[1] == "MCXzDiff" and j[5] is True))) for j in tlc_jobs(ctx)]
        fg = ex.submit(tlc.run, "GenXzGrep", workers=1, timeout=900, simulate=pool_grep, depth=90, seed=ctx.seed)
        fd = ex.submit(tlc.run, "GenXzDiff", workers=1, timeout=900, simulate=pool_diff, depth=60, seed=ctx.seed)
        fm = ex.submit(tlc.run, "GenXzDiff", cfg="GenXzDiffMatrix.cfg", workers=1, timeout=600)
        strict = {}
        for j, f in futs:
            r = f.result()
            ctx.add_tlc(j[0], r, exhaustive=bool(j[5]) if j[5] is not None else None)
            ctx.log(j[0] + ":", r.summary())
            if j[6] is None:
                if r.violation:
                    st = tlc.trace_states(r.out)
                    ctx.violation("model:%s:%s" % (j[1], r.violation),
                                  "the transcription violates the contract:\n" + r.out[-3000:], dict(kind="tlc_counterexample", states=st[-2:]))
            elif r.violation:
                st = tlc.trace_states(r.out)
                strict[j[6]] = dict(argv=st[0].get("argv") if st else None, final={k: v for k, v in (st[-1] if st else {}).items()
                                                                                    if k in ("out", "fl", "exit", "views", "labelOK", "sin")})
        g = fg.result(); dgen = fd.result(); mgen = fm.result()
    ctx.add_tlc("GenXzGrep(simulate %d)" % pool_grep, g)
    ctx.add_tlc("GenXzDiff(simulate %d)" % pool_diff, dgen)
    ctx.add_tlc("GenXzDiff(suffix matrix, breadth-first)", mgen, exhaustive=True)
    mp = [p for p in plans_from_tlc(mgen.out) if all(W.have[f] for f in diff_formats(p))]
    if len(mp) < 500:
        raise MachineryError("suffix matrix produced only %d plans" % len(mp))
    gp = [p for p in plans_from_tlc(g.out) if all(W.have[f] for f in grep_needed_formats(p))]
    dp = [p for p in plans_from_tlc(dgen.out) if all(W.have[f] for f in diff_formats(p))]
    if len(gp) < n_grep // 2 or len(dp) < n_diff // 2:
        raise MachineryError("plan generation produced only %d / %d plans" % (len(gp), len(dp)))
    gsel = select(gp, n_grep, ("sed-context",))
    hh = [p for p in gp if p.get("hhconf") and p not in gsel][:4]          # -H ... -h plans are rare: always include some
    gq = [p for p in gp if p["outcome"] == "ran" and p not in gsel and
          any(not g["has"] and "@" in g["o"] and sub_words(p, g["o"]).endswith(b"'") for g in p["gopts"])][:3]
    gsel += hh + gq
    dsel = select(dp, n_diff, ("stdin-second-operand",)) + mp
    ctx.log("plans: xzgrep %d (pool %d), xzdiff %d (pool %d); strict-contract deviations found by TLC: %s"
            % (len(gsel), len(gp), len(dsel), len(dp), sorted(strict)))
    # ---------------- (R)
    jobs = [(replay_grep, i, p) for i, p in enumerate(gsel)] + [(replay_diff, i, p) for i, p in enumerate(dsel)]
    seen = set(); confirmed = collections.Counter(); stats = collections.Counter()
    with ThreadPoolExecutor(max_workers=8) as ex:
        results = list(ex.map(lambda j: j[0](W, j[1], j[2]), jobs))
    for (fn, i, plan), (probs, info) in zip(jobs, results):
        ctx.case(key=json.dumps(plan, sort_keys=True))
        stats[plan["tool"] + ":" + plan["outcome"]] += 1
        for m in plan["meta"]:
            stats["name:" + m["ncls"]] += 1
        if plan["tool"] == "grep":
            stats["label:" + ("grep--label" if plan["labelOK"] else "sed-fallback")] += 1
        for key, detail in probs:
            if key.startswith("contract:"):
                confirmed[key[len("contract:"):]] += 1
            if key in seen:
                continue
            seen.add(key)
            extra = ""
            if key.startswith("contract:") and key[len("contract:"):] in strict:
                extra = "\nTLC counterexample of the strict contract: %r" % (strict[key[len("contract:"):]],)
            ctx.violation(key, detail + extra, dict(plan=plan, run=info))
    ctx.add_traces(len(jobs))
    for tag in strict:
        if not confirmed[tag]:
            ctx.notes.append("TLC finds the transcription deviating from the strict contract (%s) but no replayed plan exhibited it" % tag)
    ctx.sample(dict(kind="replayed_xzgrep_plan", plan=gsel[len(gsel) // 3], observed=results[len(gsel) // 3][1]))
    ctx.sample(dict(kind="replayed_xzdiff_plan", plan=dsel[len(dsel) // 3], observed=results[len(gsel) + len(dsel) // 3][1]))
    ctx.extra["replay_stats"] = dict(stats)
    ctx.extra["strict_contract_deviations"] = {k: dict(tlc=v, confirmed_on_real_scripts=confirmed[k]) for k, v in strict.items()}
    ctx.log("replayed %d xzgrep/xzegrep/xzfgrep and %d xzdiff/xzcmp invocations; outcomes %s" % (
        len(gsel), len(dsel), {k: v for k, v in stats.items() if not k.startswith("name:")}))
    ctx.assumptions += [
        "shell word splitting, quoting, eval and sed escaping are OBSERVED on the hostile name/pattern classes "
        "(newline, quotes, ;, \\, &, |, leading dash, $(...), backticks, glob characters, colon, spaces, and all words of "
        "length 2..4 over the scripts' own escaping alphabet: sentinel X, quote, newline, command), not modelled: "
        "the TLA+ models treat words as opaque placeholders and decide which files are read, labels, and exit status",
        "grep semantics are per file (one grep per decompressed file): the group separator GNU grep prints between "
        "files with -A/-B/-C is not demanded; stdin may be labelled '-' or '(standard input)'",
        "line content, per-file match status and diff/cmp output come from the system's grep/diff/cmp (trusted oracle)",
        "/bin/sh is the shell the scripts run under here (dash); POSIXLY_CORRECT unset; the mktemp fallback branch of "
        "xzdiff (no /dev/fd) and lzop/zstd/lz4 suffixes are modelled but not replayed; xzless/xzmore are not exercised",
        "decompressors dying of SIGKILL/SIGPIPE are realised with a gzip stand-in second in PATH; natural SIGPIPE with a 3 MB file",
    ]
    return ctx.finish(rule="evaluations = real script invocations (one per TLC-generated plan: argument vector x file states x "
                      "hostile name classes x label method), distinct by plan; all non-trivial",
                      trusted=["TLC", "system grep/diff/cmp/sed/gzip/bzip2", "python lzma/gzip/bz2 (fixtures)", "dash"])
