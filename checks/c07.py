"""C07 - threaded decompression is equivalent to single-threaded under every schedule.

(M) MtDecoder.tla (one action per critical section of stream_decoder_mt.c / outqueue.c) checked by TLC against
    the contract in MCMtDecoder.tla (sequential equivalence, no use after free, queue order, no premature
    BUF_ERROR, deadlock freedom incl. lost wake-ups with Spurious = FALSE) for all interleavings and all
    application slicings within small constants, in several configurations.
(V) real lzma_stream_decoder_mt (TSan build, VERIF_EV hooks, --wrap'ped pthread_cond_signal, seeded schedule
    perturbation and slicing) on generated multi-Block files (valid, corrupt, bad header, bad index, truncated,
    Blocks without sizes): every recorded execution must be a behaviour of TraceMtDecoder (= MtDecoder with the
    logged arguments bound), and its final status/output must equal the real single-threaded decoder's.
"""
import json, os, concurrent.futures as cf
from lib import tlc, build, tracev
from lib.ctx import MachineryError
from harness.mt import mtlib

QUICK_MC = ["err1", "badhdr2", "direct", "direrr", "trunc2", "memtight", "live", "live_trunc", "cat2_badpad", "cat1_trailpad",
            "memstop", "memstop_noraise", "memstop_err", "live_memstop", "tell_cat2", "tell_err1", "failmain_err1", "failmain_direct", "badinit", "badinit1", "badinit_direct"]
ALL_MC = ["ok", "err2", "err1", "badhdr", "badhdr2", "direct", "direrr", "empty", "trunc", "trunc2", "badtail",
          "spur", "timeout", "ff_err", "ff_trunc", "memtight", "live", "live_trunc", "cat2", "cat2_pad0", "cat2_badpad", "cat1_trailpad", "reinit", "reinit_err",
          "memstop", "memstop_noraise", "memstop_err", "live_memstop", "tell_cat2", "tell_err1", "failmain_err1", "failmain_direct", "failmain_cat2_pad0", "badinit", "badinit1", "badinit_direct"]

def model_check(ctx):
    names = QUICK_MC if ctx.quick else ALL_MC
    def go(n):
        return n, tlc.run("MCMtDecoder", cfg="MCMtDecoder_%s.cfg" % n, workers=4, timeout=1500, xmx="10g")
    if not ctx.quick:
        # beyond the exhaustive constants: random behaviours with 3 workers, 4 Blocks, time-outs and spurious wake-ups
        rs = tlc.run("MCMtDecoder", cfg="MCMtDecoder_sim3.cfg", workers=6, timeout=900, xmx="8g", simulate=25000, depth=250, seed=ctx.seed)
        ctx.add_tlc("MCMtDecoder_sim3(simulate)", rs, exhaustive=False)
        ctx.log("MC", "sim3", rs.summary())
        if rs.violation:
            ctx.violation("model:sim3:%s" % rs.violation, "TLC -simulate: %s\n%s" % (rs.violation, rs.out[-3000:]), dict(kind="tlc", cfg="sim3"))
    with cf.ThreadPoolExecutor(4) as ex:
        for n, r in ex.map(go, names):
            ctx.add_tlc("MCMtDecoder_" + n, r, exhaustive=True)
            ctx.log("MC", n, r.summary())
            if r.violation:
                ctx.violation("model:%s:%s" % (n, r.violation),
                              "TLC: the model of stream_decoder_mt.c violates %s in configuration %s\n%s" % (r.violation, n, r.out[-3000:]),
                              dict(kind="tlc", cfg=n))

def assemble_xz(lz, coders, pieces, check=1, preset=0):
    """One Stream whose Blocks (with size fields) hold the given pieces, empty ones included: lzma_block_buffer_encode
    per piece + Index + Stream Header / Footer."""
    import ctypes as C
    L = lz.L(); fl = coders.lzma2_filters(preset)
    sf = lz.StreamFlags(); sf.version = 0; sf.check = check
    hdr = lz.Buf(12); assert L.lzma_stream_header_encode(C.byref(sf), hdr.addr) == lz.OK
    body = b""; records = []
    for d in pieces:
        b = lz.Block(); b.version = 0; b.check = check; b.filters = C.cast(fl, C.POINTER(lz.Filter))
        cap = L.lzma_block_buffer_bound(len(d)); ob = lz.Buf(cap); pos = C.c_size_t(0); ib = lz.Buf(max(len(d), 1), d)
        assert L.lzma_block_buffer_encode(C.byref(b), None, ib.addr, len(d), ob.addr, C.byref(pos), cap) == lz.OK
        body += ob.data(pos.value); records.append((L.lzma_block_unpadded_size(C.byref(b)), len(d)))
    idx = coders.build_index(records)
    isz = L.lzma_index_size(idx); ibuf = lz.Buf(isz); p = C.c_size_t(0)
    assert L.lzma_index_buffer_encode(idx, ibuf.addr, C.byref(p), isz) == lz.OK
    L.lzma_index_end(idx, None)
    sf.backward_size = isz; ftr = lz.Buf(12); assert L.lzma_stream_footer_encode(C.byref(sf), ftr.addr) == lz.OK
    return hdr.data() + body + ibuf.data() + ftr.data()

def make_files(ctx):
    """Returns list of (name, bytes, layout)."""
    from harness.pydrv import lz, coders
    L = build.lib("asan"); lz.load(L["so"])
    rng = ctx.rng
    files = []
    text = coders.rand_data(rng, 80000, "text")
    rnd = coders.rand_data(rng, 70000, "rand")
    base = coders.encode_xz(text, preset=0, check=lz.CHECK_CRC32, block_size=20000)
    lay = mtlib.layout(base)
    files.append(("valid4", base, lay))
    big = coders.encode_xz(rnd, preset=0, check=lz.CHECK_CRC64, block_size=35000)
    files.append(("valid_rand2", big, mtlib.layout(big)))
    # corrupt data of one Block
    for which in (1, 2):
        lb = mtlib.layout(big); b = lb["blocks"][which - 1]
        x = bytearray(big); pos = b["off"] + b["bh"] + rng.randrange(10, b["insz"] - 20); x[pos] ^= 0x5A
        b["corrupt"] = True
        files.append(("corrupt_b%d" % which, bytes(x), lb))
    lt = mtlib.layout(base); b = lt["blocks"][2]
    x = bytearray(base); x[b["off"] + b["bh"] + 5] ^= 0xFF; b["corrupt"] = True
    files.append(("corrupt_text_b3", bytes(x), lt))
    # bad Block Header (CRC32 of the header no longer matches)
    lh = mtlib.layout(base); b = lh["blocks"][2]
    x = bytearray(base); x[b["off"] + 3] ^= 0x01; b["hdr"] = "bad"
    files.append(("badhdr_b3", bytes(x), lh))
    # bad Index
    li = mtlib.layout(base)
    x = bytearray(base); x[len(base) - li["tailsz"] + 2] ^= 0x01; li["tailok"] = False
    files.append(("badindex", bytes(x), li))
    # truncated in the middle of a Block / of a Block Header / of the Index
    lb = mtlib.layout(big)
    cut = lb["blocks"][1]["off"] + lb["blocks"][1]["bh"] + 20000
    lb["filelen"] = cut
    files.append(("trunc_midblock", big[:cut], lb))
    lb = mtlib.layout(base); cut = lb["blocks"][3]["off"] + 5; lb["filelen"] = cut
    files.append(("trunc_hdr", base[:cut], lb))
    # truncated inside the Check field / inside the Block Padding + last data bytes of a Block
    for nm, src, bi, back in (("trunc_check", big, 1, 3), ("trunc_tail", base, 2, 6)):
        lb = mtlib.layout(src); b = lb["blocks"][bi]
        cut = b["off"] + b["bh"] + b["insz"] - back
        lb["filelen"] = cut
        files.append((nm, src[:cut], lb))
    # concatenated Streams (what xz always decodes): the same Stream twice, separated / followed by Stream Padding
    small = coders.encode_xz(coders.rand_data(rng, 30000, "text"), preset=0, check=lz.CHECK_CRC32, block_size=12000)
    for nm, pad in (("cat2_pad4", 4), ("cat2_pad0", 0), ("cat2_pad8", 8), ("cat2_badpad3", 3)):
        lc = mtlib.layout(small)
        lc["copies"] = 2; lc["pad"] = pad; lc["concat"] = True
        data2 = (small + bytes(pad)) * 2
        lc["filelen"] = len(data2)
        files.append((nm, data2, lc))
    lc = mtlib.layout(small); lc["copies"] = 2; lc["pad"] = 4; lc["concat"] = True
    data2 = (small + bytes(4)) * 2
    cut = len(small) + 4 + 12 + 20
    lc["filelen"] = cut
    files.append(("cat2_trunc", data2[:cut], lc))
    # Blocks without size fields (single-threaded encoder + FULL_FLUSH): direct mode
    c = lz.Coder(); assert c.init("lzma_easy_encoder", 0, lz.CHECK_CRC32) == lz.OK
    import ctypes as C
    out = lz.Buf(1 << 20); ib = lz.Buf(len(text), text)
    s = c.strm; s.next_out = out.addr; s.avail_out = out.size
    pos = 0
    for piece, act in ((30000, lz.FULL_FLUSH), (25000, lz.FULL_FLUSH), (25000, lz.FINISH)):
        s.next_in = ib.addr + pos; s.avail_in = piece; pos += piece
        while True:
            r = c.code_raw(act)
            if r != lz.OK:
                break
        assert r == lz.STREAM_END
    c.end()
    direct = out.data(out.size - s.avail_out)
    files.append(("direct3", direct, mtlib.layout(direct)))
    ld = mtlib.layout(direct); b = ld["blocks"][1]
    x = bytearray(direct); x[b["off"] + b["bh"] + 300] ^= 0x40; b["corrupt"] = True
    files.append(("direct_corrupt_b2", bytes(x), ld))
    # Blocks whose filter chains need different amounts of memory (LZMA2 dictionary 256 KiB / 4 MiB / 256 KiB), with
    # size fields: threaded encoder, FULL_BARRIER between the Blocks, lzma_filters_update() for the next one.
    # Used with memlimit_stop between the two needs: Block 2 is refused (LZMA_MEMLIMIT_ERROR) while Block 1's output
    # may still be queued; lzma_memlimit_set() then lets decoding continue.
    dicts = [1 << 18, 1 << 22, 1 << 18]
    fl = [coders.lzma2_filters(0, dict_size=d) for d in dicts]
    mt = lz.Mt(); mt.threads = 1; mt.block_size = 1 << 20; mt.check = lz.CHECK_CRC32
    mt.filters = C.cast(fl[0], C.POINTER(lz.Filter))
    c = lz.Coder(); assert c.init("lzma_stream_encoder_mt", C.byref(mt)) == lz.OK
    out = lz.Buf(1 << 20); s = c.strm; s.next_out = out.addr; s.avail_out = out.size
    pos = 0
    for i, (piece, act) in enumerate(((30000, lz.FULL_BARRIER), (25000, lz.FULL_BARRIER), (25000, lz.FINISH))):
        if i:
            assert lz.L().lzma_filters_update(C.byref(s), fl[i]) == lz.OK
        s.next_in = ib.addr + pos; s.avail_in = piece; pos += piece
        while True:
            r = c.code_raw(act)
            if r != lz.OK:
                break
        assert r == lz.STREAM_END
    c.end()
    mix = out.data(out.size - s.avail_out)
    lm = mtlib.layout(mix)
    for b, f in zip(lm["blocks"], fl):
        b["fmem"] = int(lz.L().lzma_raw_decoder_memusage(f))
    files.append(("memmix3", mix, lm))
    # no integrity check at all (LZMA_TELL_NO_CHECK must say so, once, after the Stream Header)
    nc = coders.encode_xz(text[:50000], preset=0, check=lz.CHECK_NONE, block_size=20000)
    files.append(("nocheck3", nc, mtlib.layout(nc)))
    # a Block Header that decodes but whose filter chain lzma_block_decoder_init() rejects: ARM BCJ + LZMA2 written
    # with start offset 8, then the offset patched to 5 (not a multiple of 4) and the header CRC32 recomputed; in the
    # second / the first Block
    import zlib
    bo = lz.OptBcj(); bo.start_offset = 8
    chain = lz.make_filters([(lz.FILTER_ARM, bo), (lz.FILTER_LZMA2, lz.lzma_opts(0))])
    armf = coders.encode_xz(text[:60000], check=lz.CHECK_CRC32, filters=chain, block_size=20000)
    for nm, bi in (("badinit_b2", 1), ("badinit_b1", 0)):
        la = mtlib.layout(armf); b = la["blocks"][bi]
        x = bytearray(armf); h = x[b["off"]:b["off"] + b["bh"]]
        pos = h.index(bytes([0x07, 0x04, 0x08, 0x00, 0x00, 0x00]))        # filter ID 7 (ARM), 4 bytes of properties, offset 8
        h[pos + 2] = 5
        h[-4:] = zlib.crc32(bytes(h[:-4])).to_bytes(4, "little")
        x[b["off"]:b["off"] + b["bh"]] = h
        b["hdr"] = "badinit"
        for bb in la["blocks"]:
            bb["fmem"] = int(lz.L().lzma_raw_decoder_memusage(chain))
        files.append((nm, bytes(x), la))
    # empty Blocks: the queue head changes without a byte being copied (empty first Block, empty Block in the middle),
    # complete and cut in the middle of the Block that follows the empty one
    em = assemble_xz(lz, coders, [b"", text[:40000], b"", b"", rnd[:30000], b""])
    files.append(("empty6", em, mtlib.layout(em)))
    for nm, bi in (("empty6_trunc_b2", 1), ("empty6_trunc_b5", 4)):
        le = mtlib.layout(em); b = le["blocks"][bi]
        cut = b["off"] + b["bh"] + b["insz"] // 2
        le["filelen"] = cut
        files.append((nm, em[:cut], le))
    return files

def st_decode(data, flags=0, memlimit=None):
    from harness.pydrv import lz
    c = lz.Coder(); assert c.init("lzma_stream_decoder", lz.UINT64_MAX if memlimit is None else memlimit, flags) == lz.OK
    r = lz.run_coder(c, data, out_cap=1 << 20); c.end()
    return r["ret"], r["out"]

def run(ctx):
    model_check(ctx)
    from harness.pydrv import lz
    exe = mtlib.driver("tsan")
    files = make_files(ctx)
    import subprocess
    ovh_exe = build.cprog("outbuf_size", [os.path.join(os.path.dirname(os.path.dirname(os.path.abspath(__file__))), "harness/cdrv/outbuf_size.c")], "plain")
    outovh = int(subprocess.run([ovh_exe], stdout=subprocess.PIPE, text=True).stdout.strip())
    from harness.pydrv import coders
    fmem = lz.L().lzma_raw_decoder_memusage(coders.lzma2_filters(0))     # every generated Block uses LZMA2 preset 0
    for _, _, lay in files:
        for b in lay["blocks"]:
            b.setdefault("fmem", int(fmem))
            b["mem"] = int(b["fmem"] + b["insz"])
    wd = ctx.workdir
    nseeds = 3 if ctx.quick else 14
    groups = []     # (file, nw, timeout, failfast) -> list of runs
    jobs = []
    for fi, (name, data, lay) in enumerate(files):
        path = os.path.join(wd, name + ".xz")
        open(path, "wb").write(data)
        cflag = lz.CONCATENATED if lay.get("concat") else 0
        st_ret, st_out = st_decode(data, cflag)
        settings = [(2, 0, 0), (3, 0, 0)] if ctx.quick else [(1, 0, 0), (2, 0, 0), (3, 0, 0), (4, 0, 0), (8, 0, 0)]
        if fi % 3 == 0 or not ctx.quick:
            settings.append((2, 1, 0))          # timeout = 1 ms
        if fi % 3 == 1 or not ctx.quick:
            settings.append((2, 0, lz.FAIL_FAST))
        # memlimit_threading: room for exactly one Block at a time / not even one (forces direct mode)
        sized = [b for b in lay["blocks"] if b["hdr"] != "direct"]
        memsets = [(nw, to, fl, None, None) for (nw, to, fl) in settings]
        if sized and (fi % 2 == 0 or not ctx.quick):
            need = max(b["mem"] + b["outsz"] + outovh for b in sized)
            memsets.append((3, 0, 0, need + 1000, None))
            memsets.append((2, 0, 0, need - 1, None))
        # LZMA_TELL_* flags: a notification after each Stream Header, then decoding goes on
        if name in ("valid4", "cat2_pad4", "corrupt_b1"):
            memsets.append((2, 0, lz.TELL_ANY_CHECK, None, None))
        if name == "nocheck3":
            memsets += [(2, 0, lz.TELL_NO_CHECK, None, None), (3, 0, lz.TELL_ANY_CHECK | lz.TELL_NO_CHECK, None, None)]
        if name == "valid_rand2":
            memsets.append((2, 1, lz.TELL_NO_CHECK | lz.TELL_UNSUPPORTED_CHECK, None, None))     # neither applies
        if name == "memmix3":
            # memlimit_stop: between the needs of the small and the big chain (Block 1 threaded, Block 2 refused, then
            # decoded in direct mode because memlimit_threading stays at the old limit) / below every need (every
            # Block refused once; everything in direct mode)
            fm = sorted(set(b["fmem"] for b in lay["blocks"]))
            memsets += [(2, 0, 0, None, 2 << 20), (3, 0, 0, None, fm[0] - 1), (2, 1, 0, None, fm[0] + 70000)]
        settings = memsets
        for (nw, to, fl, memt, memstop) in settings:
            fl = fl | cflag
            g = dict(file=name, path=path, lay=lay, nw=nw, timeout=to, flags=fl, runs=[], st=(st_ret, st_out), memt=memt,
                     memstop=memstop)
            if memstop:
                g["st_limited"] = st_decode(data, cflag, memstop)
            chk = lay.get("check", 1)
            g["tell"] = ("NO_CHECK" if (fl & lz.TELL_NO_CHECK) and chk == 0 else
                         "UNSUPPORTED_CHECK" if (fl & lz.TELL_UNSUPPORTED_CHECK) and chk not in (0, 1, 4, 10) else
                         "GET_CHECK" if fl & lz.TELL_ANY_CHECK else "none")
            groups.append(g)
            for k in range(nseeds):
                seed = ctx.seed * 1000 + k + 17 * len(jobs)
                endafter = -1 if k % 3 != 2 else ctx.rng.randint(1, 6)
                p = dict(threads=nw, timeout=to, flags=fl, seed=seed, perturb=[0, 25, 60][k % 3],
                         **({"memthr": memt} if memt else {}),
                         # the last seed of a memlimit_stop group does not raise the limit: final LZMA_MEMLIMIT_ERROR
                         **({"memstop": memstop, "raise": 0 if k == nseeds - 1 else 1} if memstop else {}),
                         endafter=endafter, slicing=0 if (k == 0) else 1,
                         cpus=[0, 2, 1][k % 3] if not ctx.quick else 0)
                if k == 0:
                    # deterministic two-piece feeding: everything but the last few bytes, idle calls, then the tail
                    # (the tail of a Block - padding / Check - is consumed without producing output)
                    p["split_at"] = max(1, lay["filelen"] - [1, 3, 5, 9, 13][len(jobs) % 5])
                if k % 3 == 2 or (k == 0 and len(jobs) % 2):
                    # all input with LZMA_RUN first; LZMA_FINISH in a call of its own without new input, after a pause
                    p["lateact"] = 1
                if k % 3 == 1:
                    # re-initialise the same handle without lzma_end() after a few calls, then decode from the start
                    p["reinit_after"] = ctx.rng.randint(1, 6)
                jobs.append((g, p))
    # One allocation fails (initialisation, a thread, a worker's Block decoder, an input / output buffer, the Index
    # hash ...): every ordinal of one slicing run on two files, plus random ordinals elsewhere.  The decoder must end
    # with LZMA_MEM_ERROR after a prefix of the correct output, or behave exactly as without the failure; no hang, no
    # race.  Not trace-validated.
    import re
    for g in [x for x in groups if x["file"] in ("valid4", "corrupt_b2") and not x["memt"] and not x["memstop"]][:2 if ctx.quick else 6]:
        p0 = dict(threads=g["nw"], timeout=g["timeout"], flags=g["flags"], seed=ctx.seed * 1000 + 555, perturb=0, endafter=-1, slicing=1)
        r0 = mtlib.run_driver(exe, "dec", g["path"], os.path.join(wd, "cnt.out"), os.path.join(wd, "cnt.tr"), failalloc=10 ** 9, **p0)
        mm = re.search(r"allocs=(\d+)", r0["stdout"])
        if not mm:
            if r0["hang"] or r0["rc"] not in (0, 66):
                # the counting run (no allocation fails in it) is an ordinary run: a hang / crash in it is a verdict
                ctx.violation(("hang:%s:T%d:to%d" % (g["file"], g["nw"], g["timeout"])) if r0["hang"] else "crash:%s" % g["file"],
                              "the allocation-counting run of the threaded decoder did not finish (rc %s)\n%s" % (r0["rc"], r0["stderr"][-1500:]),
                              dict(kind="run", params=p0, file=g["file"]))
                continue
            raise MachineryError("could not count the allocations of a threaded decoder run: %r" % r0["stdout"][-200:])
        for kk in range(1, int(mm.group(1)) + 1):
            jobs.append((g, dict(p0, failalloc=kk)))
    for g in groups:
        if not g["memstop"] and ctx.rng.random() < (0.3 if ctx.quick else 1.0):
            jobs.append((g, dict(threads=g["nw"], timeout=g["timeout"], flags=g["flags"], seed=ctx.seed * 1000 + 556 + len(jobs),
                                 perturb=30, endafter=-1, slicing=1, failalloc=ctx.rng.randint(1, 60),
                                 **({"memthr": g["memt"]} if g["memt"] else {}))))
    def exec_job(j):
        g, params = j
        i = jobs.index(j)
        res = mtlib.run_driver(exe, "dec", g["path"], os.path.join(wd, "out.%d" % i), os.path.join(wd, "tr.%d" % i), **params)
        out = b""
        if os.path.exists(os.path.join(wd, "out.%d" % i)):
            out = open(os.path.join(wd, "out.%d" % i), "rb").read()
        return j, res, out
    with cf.ThreadPoolExecutor(8) as ex:
        results = list(ex.map(exec_job, jobs))
    refused = [0, 0, 0]
    failruns = [0, 0]
    for (g, params), res, out in results:
        label = "%s:T%d:to%d:fl%d:m%s:s%s:seed%d%s" % (g["file"], g["nw"], g["timeout"], g["flags"], g["memt"], g["memstop"], params["seed"],
                                                     ":failalloc%d" % params["failalloc"] if "failalloc" in params else "")
        ctx.case(key=label)
        for key, rep in mtlib.tsan_keys(res["stderr"]):
            ctx.violation(key, rep, dict(kind="run", params=params, file=g["file"]))
        if res["hang"]:
            ctx.violation("hang:%s:T%d:to%d" % (g["file"], g["nw"], g["timeout"]),
                          "driver watchdog fired (no termination within 25 s): deadlock or lost wake-up\n" + json.dumps(res["events"][-12:]),
                          dict(kind="run", params=params, file=g["file"]))
            continue
        if res["rc"] not in (0, 66):
            ctx.violation("crash:%s" % g["file"], "driver exit %s\n%s" % (res["rc"], res["stderr"][-3000:]),
                          dict(kind="run", params=params, file=g["file"]))
            continue
        init_ev, evs = mtlib.fold(res["events"])
        if any(e["e"] == "TOOMANYCALLS" for e in evs):
            # 200000 lzma_code() calls without an end: the coder keeps returning LZMA_OK without getting anywhere
            ctx.violation("livelock:%s:T%d:to%d" % (g["file"], g["nw"], g["timeout"]), "200000 lzma_code() calls did not finish the run: calls keep "
                      "returning without progress and without LZMA_BUF_ERROR (%s)\n%s" % (label, json.dumps(evs[-8:])), dict(kind="run", params=params, file=g["file"]))
            continue
        if any(e["e"] == "OVERFLOW" for e in evs):
            raise MachineryError("driver event buffer overflow: " + label)
        if "failalloc" in params:
            rets_f = [e for e in evs if e["e"] == "Ret"]
            last_f = rets_f[-1]["a"] if rets_f else (init_ev or {}).get("a")
            st_ret, st_out = g["st"]
            if last_f == lz.MEM_ERROR:
                if not st_out.startswith(out):
                    ctx.violation("failalloc:prefix:%s" % g["file"], "output before LZMA_MEM_ERROR is not a prefix of the correct "
                                  "output (%s, failalloc %d)" % (label, params["failalloc"]), dict(kind="run", params=params, file=g["file"]))
            elif not (g["flags"] & lz.FAIL_FAST) and (last_f != st_ret or out != st_out):
                ctx.violation("failalloc:stequiv:%s" % g["file"], "with one failed allocation: ret=%s out=%d bytes; single-threaded "
                              "decoder: ret=%s out=%d bytes (%s, failalloc %d)" % (last_f, len(out), st_ret, len(st_out), label,
                                                                                 params["failalloc"]), dict(kind="run", params=params, file=g["file"]))
            failruns[0 if last_f == lz.MEM_ERROR else 1] += 1
            # the failure path (threads_stop / pending error, LZMA_MEM_ERROR, lzma_end) must be a behaviour of the model too
            if init_ev is not None and init_ev.get("a") == 0:
                g["runs"].append((label, [{"e": "Reset"}] + [e for e in evs if not (e["e"] == "Reinited" and e["a"] != 0)]))
            continue
        refused[2] += sum(1 for e in evs if e["e"] == "GetCheck")
        if g["memstop"]:
            refused[0] += sum(1 for e in evs if e["e"] == "Ret" and e["a"] == lz.MEMLIMIT_ERROR)
            refused[1] += sum(1 for e in evs if e["e"] == "MemlimitSet")
        g["runs"].append((label, [{"e": "Reset"}] + [e for e in evs if not (e["e"] == "Reinited" and e["a"] != 0)]))
        # final observation against the real single-threaded decoder
        st_ret, st_out = g["st"] if params.get("raise", 1) else g["st_limited"]
        rets = [e for e in evs if e["e"] == "Ret"]
        last = rets[-1]["a"] if rets else None
        if params["endafter"] < 0:
            if not (g["flags"] & lz.FAIL_FAST):
                if last != st_ret or out != st_out:
                    ctx.violation("stequiv:%s" % g["file"],
                                  "threaded decoder: ret=%s out=%d bytes; single-threaded: ret=%s out=%d bytes (%s)" % (
                                      last, len(out), st_ret, len(st_out), label),
                                  dict(kind="run", params=params, file=g["file"]))
            else:
                if not st_out.startswith(out) or (last == lz.STREAM_END and (st_ret != lz.STREAM_END or out != st_out)) \
                   or (st_ret == lz.STREAM_END and last != lz.STREAM_END):
                    ctx.violation("stequiv_failfast:%s" % g["file"], "fail-fast output is not a prefix / wrong success (%s)" % label,
                                  dict(kind="run", params=params, file=g["file"]))
        elif not st_out.startswith(out):
            ctx.violation("stequiv_prefix:%s" % g["file"], "output delivered before lzma_end is not a prefix (%s)" % label,
                          dict(kind="run", params=params, file=g["file"]))
    if not refused[0] or not refused[1]:
        raise MachineryError("no run was refused with LZMA_MEMLIMIT_ERROR / none raised the limit (vacuous memlimit_stop groups)")
    if not refused[2]:
        raise MachineryError("no LZMA_*_CHECK notification was seen (vacuous LZMA_TELL_* groups)")
    ctx.log("memlimit_stop: %d LZMA_MEMLIMIT_ERROR returns, %d lzma_memlimit_set calls; %d LZMA_*_CHECK notifications" % tuple(refused))
    ctx.log("allocation-failure runs: %d ended with LZMA_MEM_ERROR, %d completed" % tuple(failruns))
    # trace validation: one TLC run per (file, threads, timeout, failfast)
    def validate_group(g):
        if not g["runs"]:
            return g, 0
        lay = g["lay"]
        cfgline = dict(e="Config", nw=g["nw"], hdrsz=lay["hdrsz"], tailsz=lay["tailsz"], tailok=lay["tailok"],
                       filelen=lay["filelen"], timeout=bool(g["timeout"]), failfast=bool(g["flags"] & 32),
                       copies=lay.get("copies", 1), pad=lay.get("pad", 0), concat=bool(lay.get("concat")),
                       memt=int(g["memt"]) if g["memt"] else 2000000000, outovh=outovh,
                       memstop=int(g["memstop"]) if g["memstop"] else 2000000000,
                       tell=g["tell"], check=lay.get("check", 1),
                       blocks=[{k: b[k] for k in ("hdr", "bh", "insz", "outsz", "errAt", "mem", "fmem", "corrupt")} for b in lay["blocks"]])
        sub = type(ctx)(ctx.pid, ctx.tier, ctx.seed)      # private accounting, merged below
        sub.workdir = os.path.join(ctx.workdir, "g%d" % id(g)); os.makedirs(sub.workdir, exist_ok=True)
        sub.findings = ctx.findings
        rej = tracev.validate(sub, "TraceMtDecoder", g["runs"],
                              lambda label, e, i: "trace:%s:%s" % (label.split(":")[0], e.get("e")),
                              prelude=[cfgline], name="TraceMtDecoder.%s.%d.%d.%d.%s.%s" % (g["file"], g["nw"], g["timeout"], g["flags"], g["memt"], g["memstop"]),
                              maxl=True)
        return g, sub
    with cf.ThreadPoolExecutor(5) as ex:
        for g, sub in ex.map(validate_group, groups):
            if sub == 0:
                continue
            ctx.states += sub.states; ctx.transitions += sub.transitions; ctx.traces += sub.traces
            ctx.tlc_runs += sub.tlc_runs
            for v in sub.violations:
                ctx.violations.append(v)
            ctx.known_hits += sub.known_hits
    if groups and groups[0]["runs"]:
        ctx.sample(dict(kind="recorded_execution_head", label=groups[0]["runs"][0][0], events=groups[0]["runs"][0][1][:40]))
    ctx.assumptions += ["critical sections are atomic (lock discipline); TSan observes executed interleavings only",
                        "model constants: 2 workers, <= 3 Blocks of 1-2 units, <= 10 lzma_code calls per behaviour"]
    return ctx.finish(rule="evaluations = threaded decoder executions (file x threads x timeout x flags x seed: slicing + schedule "
                      "perturbation + early lzma_end), each recorded through the hooks and validated against TraceMtDecoder; "
                      "distinct by parameter tuple", trusted=["TLC", "TSan", "hooks under TUKAANI_PROJECT_XZ_VERIF", "mt_drv.c"])
