"""C17 - xz never loses user data when I/O fails, a signal arrives or the process dies.

(M) MCXzFilePair: XzFilePair (transcription of main.c / coder.c / file_io.c / signals.c as one action per
    system call, with failing calls, short counts, EINTR, signals, file swaps by somebody else and process
    death at every instant) satisfies the data-safety contract in every mode.
(V) the real xz runs under strace in a scratch directory: fault-free, with an error injected at the k-th
    relevant system call, a signal before the k-th call, SIGKILL before the k-th call, true short counts
    and file swaps (LD_PRELOAD shim).  The recorded system calls of the main thread AND the file-system
    state found afterwards (content-checked) are validated as a behaviour / final state of
    TraceXzFilePair.
"""
import hashlib, json, lzma, os, shutil, subprocess, concurrent.futures as cf
from lib import tlc, build, tracev
from lib.ctx import MachineryError
from harness.cli import strace_parse as sp

HERE = os.path.dirname(os.path.dirname(os.path.abspath(__file__)))
PRE_MARK = b"PRE-EXISTING TARGET (not made by this xz run)\n"
ENV_MARK = b"SOMEBODY ELSE'S FILE\n"
JOBS = int(os.environ.get("C17_JOBS", "8"))

# ------------------------------------------------------------------ modes
class Mode:
    def __init__(self, name, flags, dec=False, keep=False, force=False, stdout=False, nosync=False, files=False,
                 nf=1, pre=None, threads=1, inputs=None, sparse=False, big=False, kinds=None, sfx=".xz"):
        self.name = name; self.flags = flags; self.dec = dec; self.keep = keep; self.force = force
        self.stdout = stdout; self.nosync = nosync; self.files = files; self.nf = nf
        self.pre = pre or [False] * nf; self.threads = threads
        self.inputs = inputs or ["good"] * nf; self.sparse = sparse; self.big = big; self.sfx = sfx
        # plaintext shape per file: "plain" | "big" | "sparse" | "holefirst" | "zerotrunc"
        self.kinds = kinds or [("sparse" if sparse else "big" if big else "plain")] * nf

    def cfg(self):
        return dict(dec=self.dec, keep=self.keep, force=self.force, stdout=self.stdout, nosync=self.nosync,
                    files=self.files, nf=self.nf, pre=list(self.pre), input=list(self.inputs))

def modes(quick):
    M = [Mode("c", []),
         Mode("d-sparse-T4", ["-d"], dec=True, threads=4, sparse=True),
         Mode("c-keep", ["-k"], keep=True),
         Mode("d-keep", ["-dk"], dec=True, keep=True),
         Mode("c-force-pre", ["-f"], force=True, pre=[True]),
         Mode("c-exists", [], pre=[True]),
         Mode("c-stdout", ["-c"], stdout=True),
         Mode("d-stdout", ["-dc"], dec=True, stdout=True, sparse=True),
         Mode("c-nosync-T4", ["--no-sync"], nosync=True, threads=4, big=True),
         Mode("c-2files", [], nf=2),
         Mode("d-files-list", ["-d"], dec=True, nf=2, files=True),
         Mode("d-corrupt", ["-d"], dec=True, inputs=["corrupt"], big=True),
         Mode("d-badformat-2", ["-d"], dec=True, nf=2, inputs=["badformat", "good"]),
         Mode("d-force", ["-df"], dec=True, force=True),
         Mode("d-nosync", ["-d", "--no-sync"], dec=True, nosync=True, big=True),
         # the FIRST of two files fails at every position (also while decoded zeros are a pending hole);
         # the SECOND must come out complete, byte for byte
         Mode("d-2f-holefirst", ["-d"], dec=True, nf=2, kinds=["holefirst", "plain"]),
         Mode("d-2f-zerotrunc", ["-d"], dec=True, nf=2, inputs=["corrupt", "good"], kinds=["zerotrunc", "plain"]),
         Mode("d-list-holefirst", ["-d"], dec=True, nf=2, files=True, kinds=["holefirst", "sparse"]),
         # verbosity is not allowed to change the exit status or what happens to the files
         Mode("d-corrupt-qq", ["-dqq"], dec=True, inputs=["corrupt"], big=True),
         Mode("c-exists-qq", ["-qq"], pre=[True]),
         Mode("c-qq", ["-qq"]),
         Mode("c-q", ["-q"]),
         Mode("d-2f-zerotrunc-q", ["-dq"], dec=True, nf=2, inputs=["corrupt", "good"], kinds=["zerotrunc", "plain"]),
         # .lzma (no integrity check, no footer): the stream ends exactly at / next to the 8192-byte read
         # boundary; trailing garbage must make xz fail and keep the source (the one-more-byte read)
         Mode("d-lzma-garbage-at-8192", ["-d"], dec=True, inputs=["corrupt"], kinds=["lzma8192+garbage"], sfx=".lzma"),
         Mode("d-lzma-garbage-at-8191", ["-d"], dec=True, inputs=["corrupt"], kinds=["lzma8191+garbage"], sfx=".lzma"),
         Mode("d-lzma-exact-8192", ["-d"], dec=True, kinds=["lzma8192"], sfx=".lzma")]
    if not quick:
        # the same modes with the other coder (-T1: single-threaded encoder / direct decoder path; -T4: threaded)
        import copy
        for m in list(M):
            o = copy.copy(m)
            o.threads = 1 if m.threads == 4 else 4
            o.name = m.name + ("-t1" if m.threads == 4 else "-t4")
            M.append(o)
    return M

# ------------------------------------------------------------------ scratch directories
class Case:
    """One xz run: mode + perturbation."""
    def __init__(self, mode, kind="none", inject=None, shim=None, sigsend=None, label=""):
        self.mode = mode; self.kind = kind; self.inject = inject or []; self.shim = shim
        self.sigsend = sigsend; self.label = label or kind

def content(mode, i, seed):
    import random
    r = random.Random("%s/%s/%d" % (seed, mode.name, i))
    blk = lambda n: bytes(r.getrandbits(8) for _ in range(n))
    kind = mode.kinds[i]
    if kind == "sparse":        # hole in the middle, hole at the end (lseek + write of one byte in io_close)
        return blk(8192) + bytes(16384) + blk(8192) + bytes(16384)
    if kind == "holefirst":     # the zeros are still a pending hole when the second read() of the source happens
        return bytes(65536) + blk(30000)
    if kind == "zerotrunc":     # only zeros: everything decoded is a pending hole when the input ends too early
        return bytes(1 << 20)
    if kind.startswith("lzma"):
        return b""
    n = 70000 if kind == "big" else 3000 + 500 * i
    # half compressible
    return blk(n // 2) + bytes(r.randrange(3) for _ in range(n - n // 2))

_LZMA_CACHE = {}

def lzma_alone_of_size(want, seed):
    """A .lzma file (known uncompressed size, no end marker) of exactly `want` bytes, and its plaintext."""
    import random
    if want in _LZMA_CACHE:
        return _LZMA_CACHE[want]
    r = random.Random(seed)
    base = bytes(r.getrandbits(8) for _ in range(want + 200))
    filt = [{"id": lzma.FILTER_LZMA1, "preset": 1}]
    for n in list(range(want - 122, want - 160, -1)) + list(range(want - 122, want + 60)) + list(range(want - 500, want - 160)):
        for tail in range(0, 40, 3):
            plain = base[:n] + bytes(tail)
            x = lzma.compress(plain, format=lzma.FORMAT_ALONE, filters=filt)
            # python writes "size unknown" + end marker; keep that form (xz accepts both)
            if len(x) == want:
                _LZMA_CACHE[want] = (x, plain)
                return x, plain
    raise MachineryError("could not build a .lzma file of %d bytes" % want)

def make_inputs(mode, seed):
    """Returns (list of source bytes, list of expected output bytes or None)."""
    srcs, outs = [], []
    for i in range(mode.nf):
        plain = content(mode, i, seed)
        if not mode.dec:
            srcs.append(plain); outs.append(None)       # expected output taken from the verified baseline
            continue
        kind = mode.inputs[i]
        if mode.kinds[i].startswith("lzma"):
            want = int(mode.kinds[i][4:8])
            x, plain = lzma_alone_of_size(want, "s")     # fixed content: the size search is expensive
            if mode.kinds[i].endswith("+garbage"):
                srcs.append(x + b"trailing bytes that are not part of the stream"); outs.append(None)
            else:
                srcs.append(x); outs.append(plain)
            continue
        x = lzma.compress(plain, format=lzma.FORMAT_XZ, preset=1)
        if kind == "good":
            srcs.append(x); outs.append(plain)
        elif kind == "corrupt" and mode.kinds[i] == "zerotrunc":
            srcs.append(x[:-16]); outs.append(None)        # Index tail + Stream Footer cut off
        elif kind == "corrupt":
            b = bytearray(x); b[len(b) * 2 // 3] ^= 0x55
            srcs.append(bytes(b)); outs.append(None)
        else:
            srcs.append(b"this is not an xz file at all\n" * 20); outs.append(None)
    return srcs, outs

def names(mode):
    sfx = mode.sfx
    srcs = ["d/f%d%s" % (i + 1, sfx if mode.dec else "") for i in range(mode.nf)]
    dsts = ["d/f%d%s" % (i + 1, "" if mode.dec else sfx) for i in range(mode.nf)]
    return srcs, dsts

class Runner:
    def __init__(self, ctx, xz, shim):
        self.ctx = ctx; self.xz = xz; self.shim = shim; self.n = 0
        self.base = os.path.join(ctx.workdir, "runs")
        os.makedirs(self.base, exist_ok=True)
        self.inputs = {}       # mode name -> (srcs bytes, expected outs)

    def setup(self, mode, tag):
        d = os.path.join(self.base, tag)
        shutil.rmtree(d, ignore_errors=True)
        os.makedirs(os.path.join(d, "d"))
        srcb, _ = self.inputs[mode.name]
        srcs, dsts = names(mode)
        for p, b in zip(srcs, srcb):
            with open(os.path.join(d, p), "wb") as f:
                f.write(b)
            os.utime(os.path.join(d, p), (1600000000, 1600000000))
        for i, p in enumerate(dsts):
            if mode.pre[i] and not mode.stdout:
                with open(os.path.join(d, p), "wb") as f:
                    f.write(PRE_MARK)
        if mode.files:
            with open(os.path.join(d, "list.txt"), "w") as f:
                f.write("".join(s + "\n" for s in srcs))
        return d

    def run(self, case, tag, keep=False, limit=6):
        """Returns dict(trace=str, fs=(src states, dst states), rc=, stderr=, dir=)."""
        mode = case.mode
        d = self.setup(mode, tag)
        srcs, dsts = names(mode)
        cmd = ["strace", "-f", "-s", "0", "-o", os.path.join(d, "trace.txt")]
        for inj in case.inject:
            cmd += ["-e", "inject=" + inj]
        cmd += ["-E", "LD_PRELOAD=" + self.shim]      # always loaded, so that system call counts do not depend on it
        if case.shim:
            cmd += ["-E", "C17_SHIM=" + case.shim.replace("@", d + "/")]
        cmd += [self.xz, "-T%d" % mode.threads] + mode.flags
        cmd += ["--files=list.txt"] if mode.files else srcs
        env = {"LC_ALL": "C", "PATH": os.environ.get("PATH", "/usr/bin:/bin"), "HOME": d, "TMPDIR": d}
        with open(os.path.join(d, "out.bin"), "wb") as out, open(os.path.join(d, "err.txt"), "wb") as err:
            try:
                p = subprocess.run(["timeout", "-k", "2", str(limit)] + cmd, cwd=d, env=env, stdin=subprocess.DEVNULL,
                                   stdout=out, stderr=err, timeout=60)
                rc = p.returncode
            except subprocess.TimeoutExpired:
                rc = 124
        try:
            trace = open(os.path.join(d, "trace.txt"), errors="replace").read()
        except OSError:
            trace = ""
        stderr = open(os.path.join(d, "err.txt"), errors="replace").read()
        res = dict(trace=trace, rc=rc, stderr=stderr, dir=d)
        res["fs"] = self.fs_state(mode, d)
        res["outs"] = None
        if keep:
            res["outs"] = [self._read(os.path.join(d, p)) for p in dsts] if not mode.stdout else \
                          [self._read(os.path.join(d, "out.bin"))]
        if not keep:
            shutil.rmtree(d, ignore_errors=True)
        return res

    @staticmethod
    def _read(p):
        try:
            with open(p, "rb") as f:
                return f.read()
        except OSError:
            return None

    def fs_state(self, mode, d):
        srcb, outs = self.inputs[mode.name]
        srcs, dsts = names(mode)
        S, D = [], []
        for i in range(mode.nf):
            b = self._read(os.path.join(d, srcs[i]))
            S.append("absent" if b is None else "present" if b == srcb[i] else "foreign" if b == ENV_MARK else "damaged")
        if mode.stdout:
            b = self._read(os.path.join(d, "out.bin")) or b""
            off = 0
            for i in range(mode.nf):
                exp = outs[i]
                if exp is not None and b[off:off + len(exp)] == exp and (i < mode.nf - 1 or len(b) == off + len(exp)):
                    D.append("complete"); off += len(exp)
                else:
                    D.append("absent" if len(b) <= off else "partial"); off = len(b)
            return S, D
        for i in range(mode.nf):
            b = self._read(os.path.join(d, dsts[i]))
            D.append("absent" if b is None else "foreign" if b in (PRE_MARK, ENV_MARK) else
                     "complete" if outs[i] is not None and b == outs[i] else "partial")
        return S, D

def events_of(case, res, expect_sizes, plains=None):
    mode = case.mode
    srcs, dsts = names(mode)
    roles = sp.Roles(srcs, dsts, "d", "list.txt" if mode.files else None, mode.stdout, expect_sizes, plains)
    pr = sp.parse(res["trace"], roles, case.sigsend, cwd=res["dir"])
    ev = [{"e": "Reset", "cfg": mode.cfg(), "mode": mode.name, "pert": case.label}] + pr["events"]
    ev.append({"e": "FS", "src": res["fs"][0], "dst": res["fs"][1]})
    return ev, pr

# ------------------------------------------------------------------ perturbations
ERRS = {"read": ["EIO", "EINTR"], "write": ["ENOSPC", "EIO", "EINTR"], "lseek": ["EINVAL"], "fsync": ["EIO"],
        "close": ["EIO", "EINTR"], "openat": ["EACCES", "EMFILE"], "unlink": ["EPERM", "EIO"], "fchmod": ["EPERM"],
        "fchown": ["EPERM"], "utimensat": ["EPERM"], "newfstatat": ["EIO"], "fcntl": ["EINVAL"], "fadvise64": ["EINVAL"]}
QUICK_ERR = {"read": ["EIO", "EINTR"], "write": ["ENOSPC", "EINTR"], "close": ["EIO"], "openat": ["EACCES"], "unlink": ["EPERM"]}
SIGS = ["TERM", "INT", "HUP", "PIPE"]
LAST_EVENTS = ("SigDfl", "Raise", "Exit")

def perturbations(mode, calls, rng, level):
    """calls: [(syscall, k, event)] of the fault-free run.  level 2: everything; 1: all positions, few kinds;
    0: a sample."""
    rel = [(n, k, e) for n, k, e in calls if e is not None and e not in LAST_EVENTS]
    out = []
    for idx, (n, k, e) in enumerate(rel):
        errs = ERRS.get(n, []) if level == 2 else QUICK_ERR.get(n, ERRS.get(n, [])[:1])
        if n == "newfstatat" and level < 2:
            errs = []
        for en in errs:
            out.append(Case(mode, "err", ["%s:error=%s:when=%d" % (n, en, k)], label="%s#%d(%s)=%s" % (n, k, e, en)))
        sigs = SIGS if level == 2 else [SIGS[idx % 4]]
        for s in sigs:
            out.append(Case(mode, "sig", ["%s:signal=SIG%s:when=%d" % (n, s, k)], sigsend=(n, k, s),
                            label="SIG%s@%s#%d(%s)" % (s, n, k, e)))
        out.append(Case(mode, "kill", ["%s:signal=SIGKILL:when=%d" % (n, k)], sigsend=(n, k, "KILL"),
                        label="KILL@%s#%d(%s)" % (n, k, e)))
    # a real EINTR: the call fails with EINTR because the signal arrived
    for n, k, e in rel:
        if e in ("Read", "Write"):
            out.append(Case(mode, "sig+eintr", ["%s:error=EINTR:signal=SIGINT:when=%d" % (n, k)],
                            sigsend=(n, k, "INT"), label="SIGINT+EINTR@%s#%d" % (n, k)))
    # true short counts and file swaps (LD_PRELOAD shim); "@" is replaced by the scratch directory
    srcs, dsts = names(mode)
    nread = len([1 for n, k, e in rel if e == "Read"]); nwrite = len([1 for n, k, e in rel if e == "Write"])
    cur = 0
    per_file_reads = {}
    fileof = []
    for n, k, e in rel:
        if e == "OpenSrc":
            cur += 1
        fileof.append(cur)
        if e in ("Read", "Write"):
            per_file_reads.setdefault((cur, e), 0)
            per_file_reads[(cur, e)] += 1
    for (f, e), cnt in sorted(per_file_reads.items()):
        trig = srcs[f - 1] if e == "Read" else ("out.bin" if mode.stdout else dsts[f - 1])
        for j in range(1, cnt + 1):
            out.append(Case(mode, "short", shim="short:%s:@%s:%d" % (e.lower(), trig, j), label="short-%s#%d(f%d)" % (e, j, f)))
            if not mode.stdout:
                vict = srcs[f - 1] if e == "Read" else dsts[f - 1]
                out.append(Case(mode, "swap", shim="replace:%s:@%s:%d:@%s" % (e.lower(), trig, j, vict),
                                label="swap-%s@%s#%d" % (vict, e, j)))
    if not mode.stdout:
        for f in range(1, mode.nf + 1):
            s, t = srcs[f - 1], dsts[f - 1]
            out.append(Case(mode, "swap", shim="replace:close:@%s:1:@%s" % (s, s), label="swap-src@close-src(f%d)" % f))
            out.append(Case(mode, "swap", shim="replace:close:@%s:1:@%s" % (t, s), label="swap-src@close-dst(f%d)" % f))
            out.append(Case(mode, "swap", shim="replace:close:@%s:1:@%s" % (t, t), label="swap-dst@close-dst(f%d)" % f))
            out.append(Case(mode, "swap", shim="replace:fsync:@%s:1:@%s" % (t, t), label="swap-dst@fsync(f%d)" % f))
            # swap combined with a failure, so that the clean-up path meets somebody else's file
            wk = [k for (n, k, e), ff in zip(rel, fileof) if e == "Write" and ff == f]
            if wk:
                out.append(Case(mode, "swap+err", ["write:error=ENOSPC:when=%d" % wk[-1]],
                                shim="replace:close:@%s:1:@%s" % (t, t), label="swap-dst@close-dst+ENOSPC(f%d)" % f))
                out.append(Case(mode, "swap+err", ["write:error=ENOSPC:when=%d" % wk[-1]],
                                shim="replace:lstat:@%s:1:@%s" % (t, t), label="swap-dst@lstat-dst+ENOSPC(f%d)" % f))
            ck = [k for (n, k, e), ff in zip(rel, fileof) if e == "CloseDst" and ff == f]
            if ck:
                out.append(Case(mode, "swap+err", ["close:error=EIO:when=%d" % ck[0]],
                                shim="replace:lstat:@%s:1:@%s" % (t, t), label="swap-dst@lstat-dst+closeEIO(f%d)" % f))
    if level == 0:
        rng.shuffle(out)
        keep = [c for c in out if c.kind in ("swap", "swap+err", "short", "sig+eintr")][:12]
        rest = [c for c in out if c not in keep]
        out = keep + rest[:38]
    return out

# ------------------------------------------------------------------ driver
def build_shim():
    src = os.path.join(HERE, "harness/cli/c17_shim.c")
    d = os.path.join(build.BUILD, "c17")
    os.makedirs(d, exist_ok=True)
    h = hashlib.sha256(open(src, "rb").read()).hexdigest()[:16]
    so = os.path.join(d, "c17_shim.%s.so" % h)
    if not os.path.exists(so):
        tmp = so + ".%d.tmp" % os.getpid()
        r = subprocess.run(["cc", "-O1", "-shared", "-fPIC", "-o", tmp, src, "-ldl"], stdout=subprocess.PIPE,
                           stderr=subprocess.STDOUT, text=True)
        if r.returncode:
            raise MachineryError("shim build failed: " + r.stdout[-2000:])
        os.replace(tmp, so)
    return so

def keyfn(label, e, idx):
    mode, kind = label.split("|")[:2]
    return "trace:%s:%s:%s" % (mode, kind, e.get("e"))

# ------------------------------------------------------------------ (M) + non-vacuity of the contract
MODEL_MUTANTS = [
    # (name, old text, new text, invariants one of which must be violated)
    ("failed close(target) ignored",
     r'''     ELSE /\ success' = FALSE /\ exitStatus' = Err(exitStatus) /\ ioFailed' = Set(ioFailed, TRUE)
          /\ pc' = "stat_dst" /\ UNCHANGED dstClosedOk''',
     r'''     ELSE /\ UNCHANGED success /\ exitStatus' = Err(exitStatus) /\ ioFailed' = Set(ioFailed, TRUE)
          /\ pc' = (IF success THEN "close_src" ELSE "stat_dst") /\ UNCHANGED dstClosedOk''',
     ("DataSafe", "FailureKeepsSource")),
    ("failed fsync(target) ignored",
     r'''     ELSE /\ success' = FALSE /\ exitStatus' = Err(exitStatus) /\ ioFailed' = Set(ioFailed, TRUE)
          /\ pc' = CdPoint(dstOpen, dirOpen, restoreOut) /\ UNCHANGED dstSynced''',
     r'''     ELSE /\ UNCHANGED success /\ exitStatus' = Err(exitStatus) /\ ioFailed' = Set(ioFailed, TRUE)
          /\ pc' = "fsync_dir" /\ UNCHANGED dstSynced''',
     ("DataSafe", "FailureKeepsSource")),
    ("source removed although the operation failed",
     r'''pc' = IF success /\ ~KeepSrc THEN "stat_src" ELSE "unblock_done" ''',
     r'''pc' = IF ~KeepSrc THEN "stat_src" ELSE "unblock_done" ''',
     ("DataSafe",)),
    ("source unlinked without the dev/ino comparison",
     r'''  /\ IF r = "ok" /\ src[cur] = "present"
     THEN pc' = "unlink_src" ''',
     r'''  /\ IF r = "ok"
     THEN pc' = "unlink_src" ''',
     ("NoForeignLost",)),
    ("junk target kept when the operation failed",
     r'''          /\ pc' = IF success THEN "close_src" ELSE "stat_dst" ''',
     r'''          /\ pc' = "close_src" ''',
     ("NoJunkLeft", "FailureCleansUp")),
    ("target opened without O_EXCL semantics",
     r'''     THEN /\ dst[cur] = "absent"                 \* O_EXCL''',
     r'''     THEN /\ TRUE                                \* O_EXCL''',
     ("NoOverwrite",)),
    ("--keep not honoured",
     r'''KeepSrc  == cfg.keep \/ cfg.stdout''', r'''KeepSrc  == cfg.stdout''', ("KeepNeverRemoves", "DataSafe")),
    ("pending hole not reset per file",
     r'''           /\ hole' = 0                         \* .dest_pending_sparse = 0 in io_open_src()''',
     r'''           /\ UNCHANGED hole''',
     ("PendingHoleFresh", "DataSafe")),
    ("exit status stays 0 after a failed write",
     r'''       [] k = "err"   -> /\ ~full /\ Fault(k) /\ mustWrite' = FALSE /\ pc' = "closing"
                         /\ exitStatus' = Err(exitStatus)''',
     r'''       [] k = "err"   -> /\ ~full /\ Fault(k) /\ mustWrite' = FALSE /\ pc' = "closing"
                         /\ UNCHANGED exitStatus''',
     ("FailureIsReported", "ExitZeroMeansDone")),
]

def model_mutants(ctx):
    """Every deliberately broken copy of the model must violate the contract (the invariants are not vacuous)."""
    spec = os.path.join(HERE, "spec")
    base = open(os.path.join(spec, "XzFilePair.tla")).read()
    d = os.path.join(ctx.workdir, "modelmut")
    os.makedirs(d, exist_ok=True)
    shutil.copy(os.path.join(spec, "MCXzFilePair.tla"), d)
    shutil.copy(os.path.join(spec, "MCXzFilePair.cfg"), d)
    caught = 0
    for name, old, new, invs in MODEL_MUTANTS:
        old = old.rstrip(" "); new = new.rstrip(" ")
        if base.count(old) != 1:
            raise MachineryError("model mutant %r: anchor text not found exactly once" % name)
        with open(os.path.join(d, "XzFilePair.tla"), "w") as f:
            f.write(base.replace(old, new))
        r = tlc.run("MCXzFilePair", cfg="MCXzFilePair.cfg", workers=4, timeout=300, cwd=d)
        if r.error:
            raise MachineryError("model mutant %r: %s" % (name, r.error))
        if r.violation not in invs:
            raise MachineryError("contract is vacuous: broken model %r violates %r, expected one of %r" %
                                 (name, r.violation, invs))
        caught += 1
        ctx.log("broken model %-48s -> %s violated (as it must be)" % (name, r.violation))
    ctx.extra["model_mutants_caught"] = "%d/%d" % (caught, len(MODEL_MUTANTS))

def run(ctx):
    if not os.environ.get("C17_SKIP_M"):
        runs = [("MCXzFilePair.cfg", "1 fault, 1 signal, single flags", 300)] if ctx.quick else \
               [("MCXzFilePairFull.cfg", "1 fault, 1 signal, all flag combinations", 1500),
                ("MCXzFilePair2F.cfg", "2 faults, 1 signal, one file", 600)]
        for cfg, what, to in runs:
            r = tlc.run("MCXzFilePair", cfg=cfg, workers=4 if ctx.quick else 8, timeout=to,
                        coverage=(cfg == "MCXzFilePair2F.cfg"))
            ctx.add_tlc("MCXzFilePair(%s)" % what, r, exhaustive=True)
            if r.violation:
                ctx.violation("model:" + r.violation, r.out[-4000:], dict(kind="tlc_counterexample", cfg=cfg))
            ctx.log("MCXzFilePair(%s):" % what, r.summary())
        if not ctx.quick or os.environ.get("C17_MODEL_MUTANTS"):
            model_mutants(ctx)
    return run_v(ctx)

def run_v(ctx):
    # ---------------- (V)
    cli = build.cli("plain")
    shim = build_shim()
    R = Runner(ctx, cli["xz"], shim)
    allmodes = modes(ctx.quick)
    if os.environ.get("C17_MODES"):          # development aid
        allmodes = [m for m in allmodes if m.name in os.environ["C17_MODES"].split(",")]
    hist = []        # (label, events)
    seen = set()
    stats = dict(runs=0, missed=0, by_kind={})
    sample_done = set()

    def record(case, res, expect_sizes):
        ev, pr = events_of(case, res, expect_sizes, R.inputs[case.mode.name][1] if case.mode.dec else None)
        stats["runs"] += 1
        stats["by_kind"][case.kind] = stats["by_kind"].get(case.kind, 0) + 1
        if case.inject and case.kind in ("err", "swap+err", "sig+eintr") and pr["injected"] == 0:
            stats["missed"] += 1
        if "damaged" in res["fs"][0]:
            ctx.violation("fs:source-damaged:%s" % case.mode.name, "source content changed: %s %s" % (case.label, res["fs"]),
                          dict(kind="run", mode=case.mode.name, pert=case.label))
        if res["rc"] in (124, 137) and case.kind != "kill":
            res = R.run(case, "retry-%d" % stats["runs"], limit=25)      # reported only if it repeats, alone
        if res["rc"] in (124, 137) and case.kind != "kill":
            what = case.label.split("(")[-1].replace(")=", "-") if case.kind == "err" else case.kind
            hkey = "run:hang:%s:%s" % (case.mode.name, what)
            if hkey in seen:
                return
            seen.add(hkey)
            ctx.violation(hkey,
                          "xz did not terminate within 6 s and again 25 s (busy loop or blocked): %s; strace -e inject=%s" %
                          (case.label, case.inject),
                          dict(kind="run", mode=case.mode.name, pert=case.label, inject=case.inject, shim=case.shim,
                               flags=case.mode.flags))
            return
        key = json.dumps(ev[1:], sort_keys=True) + json.dumps(ev[0]["cfg"], sort_keys=True)
        ctx.case(key=(case.mode.name, case.label, key))
        if key in seen:
            return
        seen.add(key)
        hist.append(("%s|%s|%s" % (case.mode.name, case.kind, case.label), ev))
        if case.kind not in sample_done and len(sample_done) < 5:
            sample_done.add(case.kind)
            ctx.sample(dict(kind="recorded_run", mode=case.mode.name, perturbation=case.label, exit=res["rc"],
                            stderr=res["stderr"][-300:], events=ev))

    pool = cf.ThreadPoolExecutor(JOBS)
    for mi, mode in enumerate(allmodes):
        R.inputs[mode.name] = make_inputs(mode, ctx.seed)
        base = R.run(Case(mode), "base-%s" % mode.name, keep=True)
        srcb, outs = R.inputs[mode.name]
        good = all(k == "good" for k in mode.inputs) and not any(mode.pre[i] and not mode.force for i in range(mode.nf))
        if not mode.dec and good:
            # the fault-free output defines "complete"; it must decode (system liblzma) to the source
            got = base["outs"]
            if mode.stdout:
                if got[0] is None or lzma.decompress(got[0]) != b"".join(srcb):
                    raise MachineryError("baseline output of %s does not decode to the input" % mode.name)
                # per-file parts: sizes from separate single-file runs are not needed for nf = 1
                outs = [got[0]] if mode.nf == 1 else None
                if outs is None:
                    raise MachineryError("stdout mode is only driven with one file")
            else:
                for i in range(mode.nf):
                    if got[i] is None or lzma.decompress(got[i]) != srcb[i]:
                        raise MachineryError("baseline output %d of %s does not decode to the input: rc=%s %s" %
                                             (i, mode.name, base["rc"], base["stderr"]))
                outs = got
            R.inputs[mode.name] = (srcb, outs)
        elif not mode.dec:
            # targets are never completed in this mode (existing target without --force)
            R.inputs[mode.name] = (srcb, [None] * mode.nf)
        srcb, outs = R.inputs[mode.name]
        sizes = [len(o) if o is not None else None for o in outs]
        base["fs"] = R.fs_state(mode, base["dir"])
        shutil.rmtree(base["dir"], ignore_errors=True)
        record(Case(mode, "none", label="fault-free"), base, sizes)
        ev, pr = events_of(Case(mode), base, sizes, outs if mode.dec else None)
        level = 2 if not ctx.quick else (1 if mode.name in ("c", "d-sparse-T4", "c-force-pre", "c-2files", "d-files-list", "d-2f-holefirst",
                                                              "d-2f-zerotrunc") else 0)
        if ctx.quick and (mode.name.endswith(("-qq", "-q")) or "lzma" in mode.name):
            level = 0
        cases = perturbations(mode, pr["calls"], ctx.rng, level)
        ctx.log("mode %-14s baseline: rc=%s events=%d fs=%s -> %d perturbed runs" %
                (mode.name, base["rc"], len(ev), base["fs"], len(cases)))
        futs = [(c, pool.submit(R.run, c, "%s-%d" % (mode.name, j))) for j, c in enumerate(cases)]
        for c, f in futs:
            record(c, f.result(), sizes)
    pool.shutdown()
    ctx.log("xz runs: %d (%s), distinct traces: %d, injections that did not hit: %d" %
            (stats["runs"], stats["by_kind"], len(hist), stats["missed"]))
    if stats["missed"] > stats["runs"] // 20 + 2:
        raise MachineryError("%d injections did not hit their system call" % stats["missed"])
    # validate in batches (one JVM per ~400 executions)
    rej = 0
    B = 400
    for b in range(0, len(hist), B):
        rej += tracev.validate(ctx, "TraceXzFilePair", hist[b:b + B], keyfn, name="TraceXzFilePair.%d" % (b // B),
                               max_rounds=8)
    ctx.log("validated %d recorded executions (%d events): rejected=%d" %
            (len(hist), sum(len(e) for _, e in hist), rej))
    ctx.extra["xz_runs"] = stats
    hist_ev = {}
    for _, evs in hist:
        for e in evs:
            k = e["e"] + ("/" + str(e.get("res", e.get("k"))) if ("res" in e or "k" in e) else "")
            hist_ev[k] = hist_ev.get(k, 0) + 1
    ctx.extra["validated_event_kinds"] = dict(sorted(hist_ev.items()))
    ctx.assumptions += ["regular files on a local file system: read/write/close/fsync do not block, so a signal takes "
                        "effect when a system call returns (poll()/EAGAIN paths of io_wait are not driven)",
                        "strace injects a failure instead of executing the call; SIGKILL on entry stands for process death",
                        "durability after power loss is not observed; fsync ordering is checked instead",
                        "the unavoidable lstat/unlink race documented in io_unlink() is not driven"]
    return ctx.finish(rule="evaluations = xz processes run under strace (fault-free, k-th call failing, signal / SIGKILL before "
                      "the k-th call, short counts, file swaps); distinct by (mode, perturbation, recorded trace)",
                      trusted=["TLC", "strace injection", "system liblzma (python lzma) as reference codec"])
