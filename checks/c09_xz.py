"""C09, xz clause: MemAdjust.tla (transcription of coder_set_compression_settings) -> TLC emits one plan per
configuration with the predicted outcome -> replayed with the real xz (lib.build.cli()).
Observables: exit status, the -vv messages, threaded/single-threaded format of the output (sizes present in the Block
Header) and the LZMA2 dictionary size written in the Block Header."""
import ctypes as C, json, os, re, subprocess
from lib import tlc, build
from lib.ctx import MachineryError
from checks.c11 import plans_from_tlc

UNL = 2147483647
MIB = 1 << 20


def tables(ctx, lz, D):
    L = lz.L()
    ents = []
    presets = [0, 3, 6] if ctx.quick else [0, 1, 2, 3, 5, 6]
    def entry(preset, maxthreads, unit):
        o = lz.lzma_opts(preset)
        f = lz.make_filters([(lz.FILTER_LZMA2, o)])
        orig = o.dict_size
        st0 = L.lzma_raw_encoder_memusage(f)
        st = []
        for k in range(1, (orig >> 20) + 1):
            o2 = lz.lzma_opts(preset, dict_size=k << 20)
            st.append(L.lzma_raw_encoder_memusage(lz.make_filters([(lz.FILTER_LZMA2, o2)])))
        mt = []
        for t in range(1, maxthreads + 1):
            m = lz.Mt(); m.threads = t; m.block_size = 0; m.check = lz.CHECK_CRC64
            m.filters = C.cast(f, C.POINTER(lz.Filter))
            mt.append(L.lzma_stream_encoder_mt_memusage(C.byref(m)))
        q = lambda v: int(v if unit == 1 else (v + unit - 1) // unit)
        return dict(preset=preset, origDict=q(orig) if unit == 1 else orig // unit, mib=MIB // unit, st0=q(st0), st=[q(v) for v in st],
                    mt=[q(v) for v in mt], unit=unit, auto=0)
    for p in presets:
        ents.append(entry(p, 4, 1))
    # the automatic (soft) limit of -T0: amounts in KiB so that they fit TLC's integers
    ncpu = L.lzma_cputhreads() or 1
    soft = []
    for p in ([6, 9] if ctx.quick else [3, 6, 9]):
        e = entry(p, ncpu, 1024)
        # explicit limits with an automatic thread count (exact in KiB: ceil(bytes/1024) <= L  <=>  bytes <= L*1024)
        e["auto"] = 1 if (p == 6 or not ctx.quick) and ncpu > 1 else 0
        ents.append(e)
        lim = (L.lzma_physmem() // 4) // 1024
        if all(abs(v - lim) > 2 for v in e["mt"]) and lim < UNL:
            soft.append(dict(e=len(ents), threads=ncpu, mtOne=False, soft=True, limit=int(lim), noAdjust=False, raw=False))
            soft.append(dict(e=len(ents), threads=ncpu, mtOne=False, soft=True, limit=int(lim), noAdjust=True, raw=False))
    return dict(t=ents, soft=soft)


def mode_files(ctx, lz, D, coders):
    """Test files for the decoding modes and the memory each needs: a small .xz whose Block declares a 1 MiB
    dictionary (-d / -t) and a file with one big Index (-l)."""
    x, real = D.patch_xz_dict(coders.encode_xz(b"mode test " * 300, preset=0), 1 << 20)
    F = int(lz.L().lzma_raw_decoder_memusage(coders.lzma2_filters(0, dict_size=real)))
    nrec = 40000 if ctx.quick else 150000
    big = D.synth_xz_stream([(5 + (k & 3), 1 + (k % 977)) for k in range(nrec)])
    needs = []
    D.LimitedRun("file_info", big, 1).run(policy=lambda run, u: (needs.append(u), u)[1])
    if not needs:
        raise MachineryError("file info decoder never hit the limit on the big-Index file")
    paths = {}
    for nm, blob in (("dec", x), ("list", big)):
        paths[nm] = os.path.join(ctx.workdir, "modes_%s.xz" % nm)
        open(paths[nm], "wb").write(blob)
    return dict(need=dict(decompress=F, test=F, list=int(max(needs))), paths=paths)


def observe_mode(cli, plan, mf):
    c = plan["c"]
    args = [cli["xz"]]
    if c["how"] == "both":
        args.append("--memlimit=%d" % c["limit"])
    elif c["how"] != "none":
        args.append("--memlimit-%s=%d" % (c["how"], c["limit"]))
    args += {"decompress": ["-dc"], "test": ["-t"], "list": ["-l"]}[c["mode"]]
    args.append(mf["paths"]["list" if c["mode"] == "list" else "dec"])
    env = dict(os.environ); env["LC_ALL"] = "C"; env.pop("XZ_OPT", None); env.pop("XZ_DEFAULTS", None); env.pop("LD_PRELOAD", None)
    p = subprocess.run(args, stdout=subprocess.PIPE, stderr=subprocess.PIPE, env=env, timeout=300)
    err = p.stderr.decode(errors="replace")
    return dict(args=args[1:], rc=p.returncode, ok=p.returncode == 0, limit_msg="Memory usage limit reached" in err, stderr=err[-600:])


def observe(cli, plan, tabs, inp, workdir, D):
    c = plan["c"]; e = tabs["t"][c["e"] - 1]
    args = [cli["xz"], "-vv", "-c", "-%d" % e["preset"]]
    if c["soft"]:
        args.append("-T0")
    elif "spell" in c:
        if c["spell"] == "T0":
            args.append("-T0")
    elif c["mtOne"]:
        args.append("-T+1")
    else:
        args.append("-T%d" % (c["threads"] or 1))
    if c["limit"] < UNL and not c["soft"]:
        args.append("--memlimit-compress=%d" % (c["limit"] * e["unit"]))
    if c["noAdjust"]:
        args.append("--no-adjust")
    if c["raw"]:
        args.append("--format=raw")
    env = dict(os.environ); env["LC_ALL"] = "C"; env.pop("XZ_OPT", None); env.pop("XZ_DEFAULTS", None); env.pop("LD_PRELOAD", None)
    p = subprocess.run(args, input=inp, stdout=subprocess.PIPE, stderr=subprocess.PIPE, env=env, timeout=300)
    err = p.stderr.decode(errors="replace")
    ob = dict(args=args[1:], rc=p.returncode, msgs=[])
    m = re.search(r"Reduced the number of threads from (\S+) to (\d+) to not exceed", err)
    ob["threads"] = None
    if m:
        ob["msgs"].append("reduced_threads"); ob["threads"] = int(m.group(2))
    if re.search(r"Reduced the number of threads from \S+ to one\. The automatic memory usage limit", err):
        ob["msgs"].append("soft_continue"); ob["threads"] = 1
    if "Switching to single-threaded mode" in err:
        ob["msgs"].append("switch_st")
    m = re.search(r"Adjusted LZMA2 dictionary size from (\S+) MiB to (\S+) MiB", err)
    if m:
        ob["msgs"].append("adjusted_dict"); ob["adjusted_to"] = int(m.group(2).replace(",", ""))
    if "Memory usage limit is too low for the given filter setup" in err:
        ob["msgs"].append("too_small")
    ob["ok"] = p.returncode == 0
    out = p.stdout
    ob["mode"] = None; ob["dict"] = None
    if ob["ok"] and not c["raw"] and len(out) > 24:
        hs = (out[12] + 1) * 4
        hdr = out[12:12 + hs]
        ob["mode"] = "mt" if hdr[1] & 0xC0 == 0xC0 else "st"
        pos = 2
        if hdr[1] & 0x40:
            pos = D._vli_skip(hdr, pos)
        if hdr[1] & 0x80:
            pos = D._vli_skip(hdr, pos)
        if hdr[pos] == 0x21:
            d = hdr[pos + 2]
            ob["dict"] = 0xFFFFFFFF if d == 40 else (2 | (d & 1)) << (d // 2 + 11)
    ob["stderr"] = err[-1500:]
    return ob


def compare(plan, ob, tabs, D):
    c = plan["c"]; o = plan["o"]; e = tabs["t"][c["e"] - 1]
    bad = []
    if ob["ok"] != o["ok"]:
        bad.append("exit-status")
    if sorted(ob["msgs"]) != sorted(o["msgs"]):
        bad.append("messages")
    if o["ok"] and not c["raw"]:
        if ob["mode"] != o["mode"]:
            bad.append("mode")
        want = e["origDict"] * e["unit"] if o["dictMiB"] == -1 else o["dictMiB"] * MIB
        if ob["dict"] != D.lzma2_dict_byte(want)[1]:
            bad.append("dictionary")
        if "reduced_threads" in o["msgs"] and ob["threads"] != o["threads"]:
            bad.append("threads")
        if "adjusted_dict" in o["msgs"] and ob.get("adjusted_to") != o["dictMiB"]:
            bad.append("dictionary-message")
    return bad


def run(ctx):
    from harness.pydrv import lz
    from harness.pydrv import c09drv as D
    from harness.pydrv import coders
    tabs = tables(ctx, lz, D)
    mf = mode_files(ctx, lz, D, coders)
    tabs["need"] = mf["need"]
    tp = os.path.join(ctx.workdir, "memadjust_tables.json")
    json.dump(tabs, open(tp, "w"))
    r = tlc.run("MemAdjust", workers=1, timeout=900, env={"TABLES": tp})
    ctx.add_tlc("MemAdjust(%d table entries)" % len(tabs["t"]), r, exhaustive=True)
    if r.violation:
        ctx.violation("model:MemAdjust:" + r.violation, r.out[-3000:], dict(kind="tlc_counterexample"))
    plans = plans_from_tlc(r.out)
    if len(plans) < 100:
        raise MachineryError("MemAdjust produced only %d plans\n%s" % (len(plans), r.out[-2000:]))
    cli = build.cli()
    modep = [p for p in plans if "mode" in p["c"]]
    plans = [p for p in plans if "mode" not in p["c"]]
    if len(modep) < 30:
        raise MachineryError("MemAdjust produced only %d decoding-mode plans" % len(modep))
    nmode = 0
    for p in modep:           # all of them in both tiers (cheap)
        ob = observe_mode(cli, p, mf)
        ctx.case(key=("xzmode", json.dumps(p["c"], sort_keys=True)))
        if ob["ok"] != p["o"]["ok"] or ob["limit_msg"] != (not p["o"]["ok"]):
            nmode += 1
            key = "xz:limit:%s:memlimit-%s:%s" % (p["c"]["mode"], p["c"]["how"], "not-enforced" if ob["ok"] else "refused")
            ctx.violation(key, "xz %s\npredicted %s\nobserved %s\n(needs: %s)" % (" ".join(ob["args"]), json.dumps(p["o"]),
                          json.dumps({k: v for k, v in ob.items() if k != "args"}), json.dumps(mf["need"])), dict(kind="xz_mode_plan", plan=p))
    ctx.add_traces(len(modep))
    ctx.extra["xz_mode_plans_replayed"] = len(modep)
    ctx.log("MemAdjust: %d decoding-mode plans (-d/-t/-l x which limit option x limit) replayed, %d mismatches" % (len(modep), nmode))
    soft = [p for p in plans if p["c"]["soft"]]
    hard = [p for p in plans if not p["c"]["soft"]]
    if ctx.quick:
        # every distinct predicted outcome class at least once, then a random sample
        byclass = {}
        for p in hard:
            byclass.setdefault((p["c"]["e"], tuple(sorted(p["o"]["msgs"])), p["o"]["ok"], p["o"]["mode"], p["c"]["raw"], p["c"]["noAdjust"], p["c"].get("spell")), []).append(p)
        chosen = [ctx.rng.choice(v) for v in byclass.values()]
        rest = [p for p in hard if p not in chosen]
        chosen += ctx.rng.sample(rest, min(len(rest), max(0, 160 - len(chosen))))
        chosen += soft[:1]
    else:
        chosen = hard + soft
    inp = (b"memory limit test input " * 400)
    nbad = 0
    seen = set()
    for p in chosen:
        ob = observe(cli, p, tabs, inp, ctx.workdir, D)
        ctx.case(key=("xz", json.dumps(p["c"], sort_keys=True)))
        bad = compare(p, ob, tabs, D)
        if bad:
            nbad += 1
            key = "xz:adjust:%s:%s" % (",".join(bad), "+".join(sorted(p["o"]["msgs"])) or "unchanged")
            if key not in seen:
                seen.add(key)
                ctx.violation(key, "xz %s\npredicted %s\nobserved %s" % (" ".join(ob["args"]), json.dumps(p["o"]),
                              json.dumps({k: v for k, v in ob.items() if k != "args"})), dict(kind="xz_plan", plan=p, tables_entry=tabs["t"][p["c"]["e"] - 1]))
    ctx.add_traces(len(chosen))
    ctx.sample(dict(kind="xz_plan", plan=chosen[len(chosen) // 2]))
    ctx.extra["xz_plans_generated"] = len(plans)
    ctx.extra["xz_plans_replayed"] = len(chosen)
    ctx.log("MemAdjust: %d plans generated, %d replayed with the real xz, %d mismatches" % (len(plans), len(chosen), nbad))
