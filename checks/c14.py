"""C14 - CRC32, CRC64 and SHA-256 equal their standard definitions for all inputs.

(M) MCCheck: on the TLA+ definitions (spec/Check.tla: bit-serial CRC from the reflected polynomials, FIPS 180-4
    SHA-256, and the transcription of the init/update*/finish machine of check.c + sha256.c) TLC checks that the
    machine fed in any pieces returns the definition's value for the whole data, that the running CRC is the CRC
    of the prefix (Crc(a.b, c) = Crc(b, Crc(a, c))), that the uninitialised SHA-256 buffer does not matter, and
    the published check values.
(G) GenCheck: TLC picks (length x content class x initial value x split into pieces), runs the machine and prints
    the value it reaches.
(R) harness/cdrv/c14_*.c replays every printed case into the real code at every pointer alignment 0..63:
    lzma_crc32/lzma_crc64 as dispatched, the table-driven and the CLMUL functions (static; reached by including
    crc32_fast.c / crc64_fast.c as text), the lzma_check_* interface, and the Check field written/verified by the
    Block coder.  Two library builds: asan (CLMUL + generic + dispatch) and noclmul (generic only, as built for
    CPUs/compilers without CLMUL).
(G/R/V, long inputs) GenCheckBig: single CRC calls over zero runs of about 2^31 / 2^32 (/ 2^33) bytes, expected value =
    Check!ZeroRun (x^(8n) by square-and-multiply; = the bit-serial definition on short runs, MCCheck) replayed by
    harness/cdrv/c14_big.c on a never-written anonymous mapping; SHA-256 over 2^29-1 .. 2^29+k (.. 2^30+k) bytes through
    lzma_check_update: TraceCheck.tla validates the byte counter of every update and decides the digest from the logged
    state before lzma_check_finish (64-bit big-endian bit count); hashlib is the reference for the whole message.
zlib / hashlib / a Python bit-serial CRC64 are a second opinion on TLC's values only (disagreement = machinery error).
"""
import json, os, subprocess, zlib, hashlib
from lib import tlc, build
from lib.ctx import MachineryError

HERE = os.path.dirname(os.path.dirname(os.path.abspath(__file__)))
CDRV = os.path.join(HERE, "harness", "cdrv")
TLC_WORKERS = int(os.environ.get("VERIF_TLC_WORKERS", "6"))


def cases_from_tlc(out):
    cases = []
    for line in out.splitlines():
        if line.startswith('"{') and line.endswith('}"'):
            cases.append(json.loads(json.loads(line)))
    return cases


def limbs_to_bytes(limbs):
    b = bytearray()
    for l in limbs:
        b += bytes((l & 0xFF, l >> 8))
    return bytes(b)


def crc64_ref(data, init=0):
    crc = init ^ 0xFFFFFFFFFFFFFFFF
    for byte in data:
        crc ^= byte
        for _ in range(8):
            crc = (crc >> 1) ^ (0xC96C5795D7870F42 if crc & 1 else 0)
    return crc ^ 0xFFFFFFFFFFFFFFFF


def second_opinion(cases):
    """TLC's values against zlib/hashlib/bit-serial Python. A disagreement is an error of the machinery."""
    memo = {}
    for c in cases:
        data = bytes(c["bytes"]); init = limbs_to_bytes(c["init"]); exp = bytes(c["expect"])
        k = (c["type"], init, data)
        if k in memo:
            want = memo[k]
        elif c["type"] == "crc32":
            want = zlib.crc32(data, int.from_bytes(init, "little")).to_bytes(4, "little")
        elif c["type"] == "crc64":
            want = crc64_ref(data, int.from_bytes(init, "little")).to_bytes(8, "little")
        else:
            want = hashlib.sha256(data).digest()
        memo[k] = want
        if want != exp:
            raise MachineryError("TLA+ definition disagrees with the second opinion: type=%s len=%d pieces=%s tlc=%s other=%s"
                                 % (c["type"], len(data), c["pieces"], exp.hex(), want.hex()))


def case_line(c):
    init = limbs_to_bytes(c["init"]).hex() or "-"
    data = bytes(c["bytes"]).hex() or "-"
    return "%s %s %s %d %s %s" % (c["type"], init, data, len(c["pieces"]), " ".join(str(p) for p in c["pieces"]),
                                  bytes(c["expect"]).hex())


def size_class(n):
    return "lt8" if n < 8 else "8to15" if n < 16 else "16to31" if n < 32 else "32to63" if n < 64 else "ge64"


def replay(ctx, cases, variant):
    srcs = [os.path.join(CDRV, f) for f in ("c14_main.c", "c14_crc32.c", "c14_crc64.c", "c14_small.c")]
    exe = build.cprog("c14_drv", srcs, variant)
    txt = "\n".join(case_line(c) for c in cases) + "\n"
    e = dict(os.environ); e.pop("LD_PRELOAD", None)
    e["ASAN_OPTIONS"] = "detect_leaks=1:abort_on_error=0"
    e["UBSAN_OPTIONS"] = "halt_on_error=1:print_stacktrace=1"
    r = subprocess.run([exe], input=txt, stdout=subprocess.PIPE, stderr=subprocess.STDOUT, text=True, env=e, timeout=1500)
    out = r.stdout
    done = [l for l in out.splitlines() if l.startswith("DONE")]
    if any(l.startswith("BADLINE") for l in out.splitlines()):
        raise MachineryError("c14 driver could not parse its input: " + out[-500:])
    if r.returncode != 0 or not done:
        # sanitizer report / crash inside the code under test (reads outside the buffer, UB, ...)
        ctx.violation("replay:crash:%s" % variant, out[-3000:], dict(kind="crash", variant=variant))
        return
    seen = set()
    for l in out.splitlines():
        if not l.startswith("MISMATCH"):
            continue
        f = dict(kv.split("=", 1) for kv in l.split()[1:])
        c = cases[int(f["case"])]
        key = "replay:%s:%s:%s" % (c["type"], f["what"], variant)
        if key in seen:
            continue
        seen.add(key)
        ctx.violation(key, "%s (len=%d class=%s pieces=%s init=%s kind=%s)" % (l, len(c["bytes"]), size_class(len(c["bytes"])),
                      c["pieces"], c["init"], c["kind"]), dict(kind="case", variant=variant, case=c, line=case_line(c), mismatch=l))
    info = dict(kv.split("=", 1) for kv in done[0].split()[1:])
    ctx.log("replayed %d cases into the %s build: %s" % (len(cases), variant, done[0]))
    return info


# ------------------------------------------------------------------ very long inputs (64-bit size arithmetic)
SHA_CHUNK = 1 << 24


def limbs_to_int(limbs):
    return sum(l << (16 * i) for i, l in enumerate(limbs))


def big_jobs(ctx):
    cfg = "GenCheckBig.cfg" if ctx.quick else "GenCheckBigThorough.cfg"
    g = tlc.run("GenCheckBig", cfg=cfg, workers=2, timeout=600, env={"SEED": str(ctx.seed)})
    ctx.add_tlc("GenCheckBig(%s)" % cfg, g, exhaustive=False)
    jobs = cases_from_tlc(g.out)
    if len(jobs) < 6:
        raise MachineryError("GenCheckBig emitted only %d jobs\n%s" % (len(jobs), g.out[-1500:]))
    return jobs


def big_start(ctx, jobs):
    """Start one driver process per job (plain -O2 build); they run beside the TLC generators."""
    srcs = [os.path.join(CDRV, f) for f in ("c14_big.c", "c14_crc32.c", "c14_crc64.c", "c14_small.c")]
    exe = build.cprog("c14_big", srcs, "plain")
    e = dict(os.environ)
    for k in ("LD_PRELOAD", "ASAN_OPTIONS", "UBSAN_OPTIONS"):
        e.pop(k, None)
    import concurrent.futures
    pool = concurrent.futures.ThreadPoolExecutor(max_workers=6)      # at most 6 driver processes at a time

    def run_one(line):
        r = subprocess.run([exe], input=line + "\n", stdout=subprocess.PIPE, stderr=subprocess.STDOUT, text=True, env=e, timeout=3000)
        return r.returncode, r.stdout
    procs = []
    for j in jobs:
        job = j["job"]; n = limbs_to_int(job["size"])
        if job["type"] == "sha256":
            line = "H %d %d %d %d" % (n, job["lead"], SHA_CHUNK, ctx.seed % 251)
        else:
            # quick: dispatched + CLMUL code everywhere, table-driven code on the sizes beyond 2^32; thorough: everything
            impls = "api,clmul" + (",generic" if (not ctx.quick or n > (1 << 32)) else "") + ("" if ctx.quick else ",small")
            line = "Z %s %s %d %d %s %s" % (job["type"], limbs_to_bytes(job["init"]).hex(), n, job["off"],
                                            bytes(j["expect"]).hex(), impls)
        procs.append((j, line, pool.submit(run_one, line)))
    pool.shutdown(wait=False)
    return procs


def sha_reference(n, lead, seed):
    """hashlib over the same bytes the driver feeds (256-byte pattern repeated)."""
    pat = bytes(((j * 167 + seed) & 255) for j in range(256))
    buf = pat * (SHA_CHUNK // 256)
    h = hashlib.sha256()
    given = 0
    while given < n:
        k = lead if (given == 0 and lead > 0) else SHA_CHUNK
        k = min(k, n - given)
        h.update(buf[:k] if k < SHA_CHUNK else buf)
        given += k
    return h.hexdigest()


def big_collect(ctx, procs):
    from lib import tracev
    hists = []
    ncrc = 0
    for j, line, p in procs:
        rc, out = p.result()
        job = j["job"]; n = limbs_to_int(job["size"])
        if "NOMAP" in out:
            ctx.notes.append("could not map %d bytes of zero pages: %s skipped" % (n, line[:40]))
            continue
        if rc != 0 or "DONE" not in out or "BADLINE" in out:
            ctx.violation("big:crash:%s" % job["type"], out[-2000:], dict(kind="big", line=line))
            continue
        if job["type"] == "sha256":
            evs = [json.loads(l[2:]) for l in out.splitlines() if l.startswith("T ")]
            hists.append(("sha256 %d bytes" % n, evs))
            got = [l.split()[-1] for l in out.splitlines() if l.startswith("DIGEST")][0]
            ref = sha_reference(n, job["lead"], ctx.seed % 251)
            ctx.case(key=("bigsha", n, job["lead"]))
            if got != ref and not any(v["key"] == "big:sha256:digest" for v in ctx.violations):
                # TraceCheck judges the finish step from the real pre-state; hashlib is the reference for the whole message
                ctx.violation("big:sha256:digest", "SHA-256 of %d bytes: lzma_check_* gives %s, hashlib %s" % (n, got, ref),
                              dict(kind="big", line=line, got=got, hashlib=ref))
        else:
            for l in out.splitlines():
                if l.startswith(("SAME", "MISMATCH")):
                    ncrc += 1
                    f = dict(kv.split("=", 1) for kv in l.split()[1:])
                    ctx.case(key=("bigcrc", job["type"], f["what"], n))
                    if l.startswith("MISMATCH"):
                        ctx.violation("big:%s:%s" % (job["type"], f["what"]),
                                      "one call over %d zero bytes (%s), init %s: %s" % (n, job["name"], job["init"], l),
                                      dict(kind="big", line=line, job=job, expect=j["expect"], mismatch=l))
    if hists:
        tracev.validate(ctx, "TraceCheck", hists, lambda label, e, i: "trace:sha256:%s" % e.get("e"), timeout=600)
        ctx.sample(dict(kind="sha256_trace", label=hists[0][0], events=hists[0][1][:2] + hists[0][1][-2:]))
    ctx.log("long inputs: %d CRC calls over 2..8 GiB zero runs compared with the closed form, %d SHA-256 executions "
            "validated by TraceCheck" % (ncrc, len(hists)))


def run(ctx):
    # (M)
    m = tlc.run("MCCheck", cfg="MCCheck.cfg" if ctx.quick else "MCCheckThorough.cfg", workers=TLC_WORKERS, timeout=1500, coverage=not ctx.quick)
    ctx.add_tlc("MCCheck(strings over {0,1,80,FF} up to 5 bytes; SHA lengths 0..130; all piece sequences)", m, exhaustive=True)
    if m.violation:
        ctx.violation("model:" + m.violation, m.out[-4000:], dict(kind="tlc_counterexample"))
    for a in ("Update", "Finish"):
        if m.coverage and m.coverage.get(a, (0, 0))[0] == 0:
            raise MachineryError("MCCheck: action %s never taken (vacuous model)" % a)
    if not m.violation and m.distinct < 10000:
        raise MachineryError("MCCheck explored only %d states (vacuous model)" % m.distinct)
    ctx.log("MCCheck:", m.summary())

    # (G/R/V) very long inputs: started now, collected at the end
    bigp = big_start(ctx, big_jobs(ctx))

    # (G)
    cfg = "GenCheck.cfg" if ctx.quick else "GenCheckThorough.cfg"
    g = tlc.run("GenCheck", cfg=cfg, workers=TLC_WORKERS, timeout=2400, env={"SEED": str(ctx.seed)})
    ctx.add_tlc("GenCheck(%s)" % cfg, g, exhaustive=False)
    cases = cases_from_tlc(g.out)
    ctx.log("GenCheck:", g.summary(), "cases:", len(cases))
    if len(cases) < 2000:
        raise MachineryError("GenCheck emitted only %d cases\n%s" % (len(cases), g.out[-2000:]))
    second_opinion(cases)
    lens = set(len(c["bytes"]) for c in cases)
    if not set(range(0, 321)) <= lens:
        raise MachineryError("GenCheck did not cover every length 0..320")

    # (R)
    infos = {}
    for variant in ("asan", "noclmul"):
        infos[variant] = replay(ctx, cases, variant)
    a = infos.get("asan")
    if a and "clmul" not in a.get("impls32", ""):
        ctx.notes.append("this CPU/build has no usable CLMUL: only the table-driven code was exercised")
    for c in cases:
        ctx.case(key=(c["type"], tuple(c["init"]), tuple(c["pieces"]), bytes(c["bytes"])), nontrivial=len(c["bytes"]) > 0)
    ctx.add_traces(2 * len(cases))
    mid = [c for c in cases if c["type"] == "crc64" and 16 < len(c["bytes"]) < 40 and len(c["pieces"]) > 1]
    if mid:
        ctx.sample(dict(kind="replayed_case", case=mid[0], driver_line=case_line(mid[0])))
    sha = [c for c in cases if c["type"] == "sha256" and 64 < len(c["bytes"]) < 80 and len(c["pieces"]) > 2]
    if sha:
        ctx.sample(dict(kind="replayed_case", case=sha[0]))
    big_collect(ctx, bigp)
    ctx.extra["driver"] = infos
    ctx.extra["lengths_covered"] = "%d distinct lengths, max %d" % (len(lens), max(lens))
    ctx.assumptions += ["'all contents of a given length' is sampled (zero, FF, single bit, walking byte, LCG pseudo-random), "
                        "not exhausted", "only the x86-64 code paths (CLMUL, slice-by-8/4) are buildable here; ARM64/"
                        "LoongArch/big-endian/assembler variants are not exercised",
                        "messages shorter than 2^31 bytes; for SHA-256 messages of 512 MiB and more TLC decides the finish step from the "
                        "logged real pre-state (TraceCheck) and hashlib is the reference for the chaining value",
                        "inputs of 2 GiB and more are runs of zero bytes (CRC closed form ZeroRun) / a repeated 256-byte pattern (SHA-256)"]
    return ctx.finish(rule="evaluations = TLC-emitted (type, init, bytes, pieces, value) cases, each replayed at 64 alignments "
                      "into every implementation of two library builds; distinct by (type, init, pieces, bytes); "
                      "empty inputs count as trivial",
                      trusted=["TLC", "gcc ASan/UBSan", "C driver c14_main.c"])
