"""C11 - the lzma_code calling protocol is enforced and accounted exactly.

(M) MCLzmaCode: LzmaCode (transcription) => LzmaCodeContract (property) for all call sequences
    within the constants.
(R) GenLzmaCode: every transition of the model graph is replayed into the real lzma_code() with a
    mock inner coder; return value, six public fields, internal sequence / avail_in / allow_buf_error
    and guard bytes are compared after every call.
(V) call histories (legal and illegal) on every real public coder are recorded by the ctypes driver
    and validated by TraceLzmaCode (inner result inferred by TLC, supported-actions table from the spec).
"""
import json, os, subprocess, ctypes as C
from lib import tlc, build
from lib.ctx import MachineryError

HERE = os.path.dirname(os.path.dirname(os.path.abspath(__file__)))
RETNUM = {"OK": 0, "STREAM_END": 1, "NO_CHECK": 2, "UNSUPPORTED_CHECK": 3, "GET_CHECK": 4, "MEM_ERROR": 5,
          "MEMLIMIT_ERROR": 6, "FORMAT_ERROR": 7, "OPTIONS_ERROR": 8, "DATA_ERROR": 9, "BUF_ERROR": 10,
          "PROG_ERROR": 11, "SEEK_NEEDED": 12, "TIMED_OUT": 101, "RET_INTERNAL2": 102, "none": 0}
ACTNUM = {"RUN": 0, "SYNC_FLUSH": 1, "FULL_FLUSH": 2, "FINISH": 3, "FULL_BARRIER": 4, "ACT5": 5, "ACTNEG": 6}
SEQNUM = {"RUN": 0, "SYNC_FLUSH": 1, "FULL_FLUSH": 2, "FINISH": 3, "FULL_BARRIER": 4, "END": 5, "ERROR": 6}

def plans_from_tlc(out):
    plans = []
    for line in out.splitlines():
        if line.startswith('<<"PLAN", "'):
            js = line[len('<<"PLAN", "'):-3]
            plans.append(json.loads(js.encode().decode("unicode_escape")))
    return plans

def plan_to_text(p):
    mask = sum(1 << ACTNUM[a] for a in p["supported"])
    parts = [str(int(p["inited"])), str(mask), str(len(p["steps"]))]
    for s in p["steps"]:
        c = s["c"]
        if c["kind"] == "reinit":
            m2 = sum(1 << ACTNUM[a] for a in c["sup"])
            parts += [7, m2, 0, 0, 0, 0, 0, 0, 0, 0, SEQNUM[s["seq"]], s["savedIn"], int(s["allowBuf"]), s["totalIn"], s["totalOut"], 0]
            continue
        parts += [ACTNUM[c["action"]], c["ain"], c["aout"], int(c["inNull"]), int(c["outNull"]), int(c["resv"]),
                  RETNUM[c["innerRet"]], c["uin"], c["uout"], RETNUM[c["ret"]] if c["ret"] != "TIMED_OUT" else 0,
                  SEQNUM[s["seq"]], s["savedIn"], int(s["allowBuf"]), s["totalIn"], s["totalOut"], int(c["innerRan"])]
    return " ".join(str(x) for x in parts)

def replay_plans(ctx, plans, label):
    exe = build.cprog("c11_mock", [os.path.join(HERE, "harness/cdrv/c11_mock.c")], "asan")
    txt = "\n".join(plan_to_text(p) for p in plans) + "\n"
    e = dict(os.environ); e["ASAN_OPTIONS"] = "detect_leaks=1:abort_on_error=0"; e.pop("LD_PRELOAD", None)
    r = subprocess.run([exe], input=txt, stdout=subprocess.PIPE, stderr=subprocess.STDOUT, text=True, env=e, timeout=600)
    out = r.stdout
    done = [l for l in out.splitlines() if l.startswith("DONE")]
    mism = [l for l in out.splitlines() if l.startswith("MISMATCH")]
    if r.returncode != 0 or not done:
        # sanitizer abort / crash: the implementation took a step the model has no action for
        ctx.violation("replay:crash", out[-3000:], dict(kind="plans", label=label))
        return
    seen = set()
    for l in mism:
        f = dict(kv.split("=") for kv in l.split()[1:] if "=" in kv)
        field = l.split()[3]
        pl = plans[int(f["plan"])]
        st = pl["steps"][int(f["step"])]
        key = "replay:%s:%s:%s" % (field, st["c"].get("action", "REINIT"), st["c"].get("innerRet", "-"))
        if key in seen:
            continue
        seen.add(key)
        ctx.violation(key, l, dict(kind="plan", plan=pl, mismatch=l))
    ctx.add_traces(len(plans))
    for p in plans:
        ctx.case(key=("plan", plan_to_text(p)))
    ctx.sample(dict(kind="replayed_plan", plan=plans[len(plans) // 2]))
    ctx.log("replayed %d model transitions (%s): %s" % (len(plans), label, done[0]))

# ------------------------------------------------------------------ V: histories on real coders
def _release_extras(lz, c):
    """Caller-owned objects attached to a Coder by the registry (Index given to / produced by a coder)."""
    if getattr(c, "keep_index", None):
        lz.L().lzma_index_end(c.keep_index, None); c.keep_index = None
    if getattr(c, "index_out", None) is not None and c.index_out.value:
        lz.L().lzma_index_end(c.index_out, None)
    c.index_out = None

WITH_MEMLIMIT = ("stream_decoder", "stream_decoder_mt", "auto_decoder", "alone_decoder", "lzip_decoder", "index_decoder",
                 "file_info_decoder")

def getters(lz, c):
    """What the informational functions say about a handle (none of them changes it: the limit is set to itself)."""
    import ctypes as C
    L = lz.L(); sp = C.byref(c.strm)
    # (lzma_get_check is documented as undefined except right after LZMA_NO_CHECK / UNSUPPORTED_CHECK / GET_CHECK)
    # lzma_memusage of a re-initialised handle may include memory kept for reuse (threaded decoder: direct-mode Block
    # decoder), so it is reported but not compared
    mu = L.lzma_memusage(sp); ml = L.lzma_memlimit_get(sp)
    mset = L.lzma_memlimit_set(sp, ml if ml else 1 << 30)
    pin = C.c_uint64(0); pout = C.c_uint64(0)
    L.lzma_get_progress(sp, C.byref(pin), C.byref(pout))
    return dict(memlimit=ml, memlimit_set=lz.retname(mset), progress=[pin.value, pout.value])

def record_history(lz, coders, name, rng, out, ncalls, prev=None, script=None, sample_kw=None, relimit=None):
    """Append events of one random call history on coder `name` to list `out`.
    prev: a Coder whose handle is re-initialised with this constructor WITHOUT lzma_end() (event Reinit).
    script: amounts of new input for the first calls (LZMA_RUN, all output space), then random as usual."""
    ev = {"e": "Reset", "coder": coders.tlaname(name), "inited": True, "impl": name}
    mode = rng.random()
    if prev is not None:
        old_index_out = getattr(prev, "index_out", None)
        old_keep = getattr(prev, "keep_index", None)
        prev.index_out = None; prev.keep_index = None
        # another memory usage limit than the previous use of the handle had (where the constructor takes one)
        lim = {"memlimit": relimit or rng.choice([lz.UINT64_MAX, 1 << 30, 300 << 20, (1 << 31) + 12345])} if name in WITH_MEMLIMIT else {}
        st0 = rng.getstate()
        c, data, r = coders.make_with_sample(name, rng, coder=prev, **lim)
        if r != lz.OK:
            raise MachineryError("constructor %s failed with %s on a reused handle" % (name, r))
        # A re-initialised handle is indistinguishable from a fresh one given to the same constructor with the same
        # arguments (Reinit = Init in the model): compare what the informational functions report
        st1 = rng.getstate(); rng.setstate(st0)
        f, _, rf = coders.make_with_sample(name, rng, **lim)
        assert rf == lz.OK and rng.getstate() == st1
        gre, gfr = getters(lz, c), getters(lz, f)
        f.end(); _release_extras(lz, f)
        ev["fresh_eq"] = gre == gfr
        ev["getters"] = gre; ev["getters_fresh"] = gfr
        # the previous coder was freed by the re-initialisation; release what the caller owned
        if old_keep:
            lz.L().lzma_index_end(old_keep, None)
        if old_index_out is not None and old_index_out.value:
            lz.L().lzma_index_end(old_index_out, None)
        ev["e"] = "Reinit"
    elif mode < 0.04:
        # use before initialisation
        c = lz.Coder(); data = b"abc"; ev["inited"] = False; ev["coder"] = "none"
    else:
        c, data, r = coders.make_with_sample(name, rng, **(sample_kw or {}))
        if r != lz.OK:
            raise MachineryError("constructor %s failed with %s" % (name, r))
    out.append(ev)
    enc = coders.kind(name) == "enc"
    n = len(data)
    ib = lz.Buf(n, data); cap = 1 << 17; ob = lz.Buf(cap)
    ip = 0; op = 0
    s = c.strm
    sup = {"stream_encoder": [0, 1, 2, 3, 4], "easy_encoder": [0, 1, 2, 3, 4], "stream_encoder_mt": [0, 2, 4, 3],
           "block_encoder": [0, 1, 3], "raw_encoder": [0, 1, 3], "microlzma_encoder": [3]}.get(coders.tlaname(name), [0, 3])
    pend = 0
    flushing = None
    problems = []
    for k in range(ncalls):
        remaining = n - ip
        # choose amount of input
        x = rng.random()
        if flushing is not None and x < 0.8:
            ain = pend
        elif x < 0.2:
            ain = 0
        elif x < 0.4:
            ain = min(remaining, 1)
        elif x < 0.6:
            ain = min(remaining, rng.randint(0, 40))
        else:
            ain = remaining
        y = rng.random()
        aout = 0 if y < 0.2 else 1 if y < 0.35 else rng.randint(0, 64) if y < 0.5 else cap - op
        aout = min(aout, cap - op)
        z = rng.random()
        if flushing is not None and z < 0.75:
            act = flushing
        elif z < 0.55:
            act = 0
        elif z < 0.85:
            act = rng.choice(sup)
        elif z < 0.95:
            act = rng.choice([0, 1, 2, 3, 4])
        else:
            act = rng.choice([5, -1])
        if act == 3 and ain != remaining and rng.random() < 0.7:
            ain = remaining
        w = rng.random()
        inNull = w < 0.03; outNull = 0.03 <= w < 0.06; resv = 0.06 <= w < 0.08
        if script is not None and k < len(script):
            ain = min(remaining, pend + script[k]); act = 0; aout = cap - op; inNull = outNull = resv = False
        s.next_in = None if inNull else ib.addr + ip
        s.avail_in = ain
        s.next_out = None if outNull else ob.addr + op
        s.avail_out = aout
        s.reserved_int3 = 1 if resv else 0
        ti, to = s.total_in, s.total_out
        ret = c.code_raw(act)
        uin = ain - s.avail_in; uout = aout - s.avail_out
        exp_in = None if inNull else ib.addr + ip + uin
        exp_out = None if outNull else ob.addr + op + uout
        if (s.next_in or None) != exp_in and not (inNull and uin == 0):
            problems.append("next_in not advanced by exactly the bytes consumed (call %d)" % k)
        if (s.next_out or None) != exp_out and not (outNull and uout == 0):
            problems.append("next_out not advanced by exactly the bytes produced (call %d)" % k)
        if uin < 0 or uin > ain or uout < 0 or uout > aout:
            problems.append("avail_* out of range (call %d)" % k)
        if not (ib.guards_ok() and ob.guards_ok()):
            problems.append("guard bytes around the buffers were modified (call %d)" % k)
        if ib.data() != data:
            problems.append("input buffer was modified (call %d)" % k)
        actname = lz.ACT.get(act, "ACT5" if act == 5 else "ACTNEG")
        out.append({"e": "Call", "action": actname, "ain": ain, "aout": aout, "inNull": inNull, "outNull": outNull,
                    "resv": resv, "ret": lz.retname(ret), "uin": uin, "uout": uout,
                    "tin": s.total_in, "tout": s.total_out})
        ip += max(0, uin); op += max(0, uout)
        if ret == lz.SEEK_NEEDED:
            ip = min(n, s.seek_pos); pend = 0
        else:
            pend = s.avail_in
        if ret == lz.OK and act in (1, 2, 3, 4) and uin >= 0:
            flushing = act if flushing is None or flushing == act else flushing
        if ret in (lz.STREAM_END, lz.SEEK_NEEDED):
            flushing = None
    s.reserved_int3 = 0
    return problems, c

def record_all(ctx, nhist, ncalls):
    """Runs in a child process (a crash of the library must become a violation, not the death of the check).
    Returns (hists, problems): hists = [(label, events)], problems = [(label, text, events)]."""
    from harness.pydrv import lz, coders
    L = build.lib("asan")
    lz.load(L["so"])
    hists = []; problems = []
    def note(label):
        with open(os.path.join(ctx.workdir, "c11.current"), "w") as f:
            f.write(label)
    for h in range(nhist):
        name = coders.ALL[h % len(coders.ALL)]
        note(name)
        events = []
        probs, c = record_history(lz, coders, name, ctx.rng, events, ncalls)
        label = name
        # the same handle given to 1-2 more constructors without lzma_end() in between
        k = 0
        while ctx.rng.random() < 0.35 and k < 2:
            name2 = ctx.rng.choice(coders.ALL)
            note(label + "+" + name2)
            p2, c = record_history(lz, coders, name2, ctx.rng, events, max(4, ncalls // 2), prev=c)
            probs += p2; label += "+" + name2; k += 1
        c.end()
        _release_extras(lz, c)
        hists.append((label, events))
        problems += [(label, p, events) for p in probs]
    # Every ordered pair of constructor kinds on one handle (decoder -> encoder, encoder -> decoder, ...): the second
    # constructor must leave nothing of the first behind (function pointers of lzma_next_coder included)
    names = list(coders.ALL)
    for i in range(len(names) if ctx.quick else 3 * len(names)):
        a = names[i % len(names)]; b = ctx.rng.choice([n for n in names if coders.kind(n) != coders.kind(a)])
        note(a + "+" + b)
        events = []
        probs, c = record_history(lz, coders, a, ctx.rng, events, 3)
        p2, c = record_history(lz, coders, b, ctx.rng, events, 3, prev=c)
        c.end(); _release_extras(lz, c)
        hists.append((a + "+" + b, events))
        problems += [(a + "+" + b, p, events) for p in probs + p2]
    # The same constructor again on a handle that has just decoded a whole file, with another memory usage limit:
    # nothing of the first use (sub-decoders of lzma_auto_decoder included) may answer for the second
    for name in WITH_MEMLIMIT:
        note(name + "+" + name)
        events = []
        probs, c = record_history(lz, coders, name, ctx.rng, events, 4, script=[10 ** 9, 0])
        p2, c = record_history(lz, coders, name, ctx.rng, events, 4, prev=c, relimit=(1 << 30) + 4096 * ctx.rng.randint(0, 9))
        c.end(); _release_extras(lz, c)
        hists.append((name + "+" + name, events))
        problems += [(name + "+" + name, p, events) for p in probs + p2]
    # The file-info decoder seeks: input chunks that end around file_size - 8192 (the first position it asks for),
    # around the start of the Index and around the ends of the Streams
    data = coders.encode_xz(coders.rand_data(ctx.rng, 26000, "rand"), preset=0, block_size=5000) + bytes(8) + \
           coders.encode_xz(coders.rand_data(ctx.rng, 9000, "rand"), preset=0, block_size=4000)
    n = len(data)
    firsts = sorted(set(x for x in [n - 8192 - d for d in range(0, 18)] + [n - 8192 + d for d in (1, 2, 5)] if 0 < x < n))
    if ctx.quick:
        firsts = [x for i, x in enumerate(firsts) if i % 2 == ctx.seed % 2 or n - 8192 - x in (0, 1, 4, 12, 13)]
    for first in firsts:
        label = "file_info_decoder@%d" % (n - 8192 - first)
        note(label)
        events = []
        probs, c = record_history(lz, coders, "file_info_decoder", ctx.rng, events, 14, script=[first, 3, n],
                                  sample_kw=dict(data=data))
        c.end(); _release_extras(lz, c)
        hists.append((label, events))
        problems += [(label, p, events) for p in probs]
    return hists, problems

def validate_histories(ctx, nhist, ncalls):
    from lib import tracev
    import pickle
    res = os.path.join(ctx.workdir, "c11.hists")
    pid = os.fork()
    if pid == 0:
        try:
            with open(res, "wb") as f:
                pickle.dump(record_all(ctx, nhist, ncalls), f)
            os._exit(0)
        except BaseException:
            import traceback; traceback.print_exc()
            os._exit(7)
    _, st = os.waitpid(pid, 0)
    if st != 0:
        cur = open(os.path.join(ctx.workdir, "c11.current")).read() if os.path.exists(os.path.join(ctx.workdir, "c11.current")) else "?"
        if os.WIFSIGNALED(st) or os.WEXITSTATUS(st) not in (0, 7):
            ctx.violation("crash:history:%s" % cur.split("@")[0],
                          "the library crashed / a sanitizer aborted while a call history was recorded on %s (status %s)" % (cur, st),
                          dict(kind="history", coder=cur))
            return
        raise MachineryError("recording call histories failed (see traceback above), at %s" % cur)
    hists, problems = pickle.load(open(res, "rb"))
    for label, p, events in problems:
        ctx.violation("history:%s:%s" % (label, p.split(" (")[0]), p, dict(kind="history", coder=label, events=events))
    for label, events in hists:
        ctx.case(key=("hist", json.dumps(events)))
    rej = tracev.validate(ctx, "TraceLzmaCode", hists,
                          lambda label, e, i: "trace:%s:%s:%s" % (label.split("@")[0], e.get("action", e.get("e")), e.get("ret", "getters")))
    ctx.sample(dict(kind="recorded_history", coder=hists[1][0], events=hists[1][1]))
    ctx.log("validated %d recorded histories (%d events): rejected=%d" % (len(hists), sum(len(e) for _, e in hists), rej))

def run(ctx):
    # (M)
    r = tlc.run("MCLzmaCode", workers=8, timeout=600, coverage=True)
    ctx.add_tlc("MCLzmaCode(MaxIn=2,MaxOut=2)", r, exhaustive=True)
    if r.violation:
        # the transcription violates the contract: confirmed against the code by the replay below
        ctx.violation("model:" + r.violation, r.out[-4000:], dict(kind="tlc_counterexample"))
    ctx.log("MCLzmaCode:", r.summary())
    # (R)
    g = tlc.run("GenLzmaCode", workers=1, timeout=600)
    ctx.add_tlc("GenLzmaCode", g, exhaustive=True)
    plans = plans_from_tlc(g.out)
    if len(plans) < 1000:
        raise MachineryError("plan generation produced only %d plans" % len(plans))
    # Re-initialisation without lzma_end(): the abstract state after Reinit equals a fresh one, so BFS never
    # extends a path through it.  Compose: (path ending in Reinit(sup)) ++ (a one-call plan of a fresh handle with
    # the same supported set) is a behaviour of the model; the implementation must follow it too (a constructor that
    # leaves stale supported_actions[] or a stale sequence behind shows up here).
    first = {}
    for p in plans:
        if len(p["steps"]) == 1 and p["inited"] and p["steps"][0]["c"]["kind"] == "call":
            first.setdefault(tuple(sorted(p["supported"])), []).append(p["steps"][0])
    composed = []
    for p in plans:
        last = p["steps"][-1]["c"]
        if last["kind"] == "reinit" and len(p["steps"]) >= 2:
            cands = first.get(tuple(sorted(last["sup"])), [])
            for q in ctx.rng.sample(cands, min(len(cands), 30 if ctx.quick else 200)):
                q2 = dict(q)
                if not q["c"]["innerRan"]:
                    q2["savedIn"] = p["steps"][-1]["savedIn"]     # a rejected call leaves internal->avail_in alone
                composed.append(dict(inited=p["inited"], supported=p["supported"], steps=p["steps"] + [q2]))
    ctx.log("composed %d reinit-then-call plans" % len(composed))
    replay_plans(ctx, plans + composed, "all transitions (MaxIn=2 MaxOut=1) + reinit compositions")
    # (V)
    validate_histories(ctx, 190 if ctx.quick else 1900, 14 if ctx.quick else 24)
    ctx.assumptions += ["inner coders never return LZMA_BUF_ERROR to lzma_code (asserted by the code)",
                        "guard zones of 32 bytes detect writes outside the buffers; ASan+UBSan build observes the rest"]
    return ctx.finish(rule="evaluations = model transitions replayed into lzma_code with a mock coder + recorded call "
                      "histories on real coders; distinct by full call sequence; all non-trivial (>=1 call)",
                      trusted=["TLC", "gcc ASan/UBSan", "ctypes driver"])
