"""C10 - allocation failure at any point is reported cleanly and nothing leaks.

(M) MCLifecycle: the ownership mechanism transcribed in Lifecycle.tla (lzma_strm_init, lzma_next_coder_init,
    lzma_next_strm_init, lzma_next_end, lzma_end, temporaries-then-commit for caller-owned objects) satisfies the
    contract of LifecycleContract.tla for every call history up to MaxCalls, every allocation count and every
    set of failing allocations; six deliberately broken copies of the mechanism (Bug constant) must each violate it.
(G/R) GenLifecycle: TLC enumerates the legal API scenarios over the concrete alphabet; the ctypes driver
    (harness/pydrv/c10drv.py, in subprocesses) runs each scenario fault-free to learn its N allocations and replays
    it with the j-th allocation failing for every j (plus random subsets of later allocations).
(V) every recorded execution (allocator events per API call + return code + "caller objects unchanged") is
    validated by TraceLifecycle, which reuses Lifecycle's actions and re-checks the contract invariants.
"""
import json, os, re, subprocess, sys, time, hashlib, concurrent.futures
from lib import tlc, build, tracev
from lib.ctx import MachineryError
from checks.c11 import plans_from_tlc

HERE = os.path.dirname(os.path.dirname(os.path.abspath(__file__)))
BUGS = {"no_next_end": "lzma_next_coder_init does not free the coder of another kind",
        "no_end_on_fail": "lzma_next_strm_init does not call lzma_end when the constructor fails",
        "reuse_other_kind": "a coder of another kind is reused",
        "swallow": "a failed allocation inside lzma_code is not reported",
        "leak_on_fail": "temporaries are not freed when a function on caller-owned objects fails",
        "double_end": "lzma_end leaves strm->internal dangling"}
PAR = 4
STALL = 25           # seconds without a completed execution before the driver is declared hung


def crash_key(log, scn_id):
    """Stable key of a sanitizer abort: error class + function (ASan SUMMARY line / UBSan location)."""
    m = re.search(r"SUMMARY: \w+Sanitizer: (\S+) \S*?([\w.]+):\d+ in (\w+)", log)
    if m:
        return "crash:%s:%s" % (m.group(1), m.group(3))
    m = re.search(r"AddressSanitizer: (SEGV|BUS|FPE|stack-overflow)", log)
    if m:      # wild jump / NULL function pointer: name the innermost library frame
        fr = re.search(r"#\d+ 0x[0-9a-f]+ in (\w+) \S*/src/(?:liblzma|common|xz)/", log)
        return "crash:%s:%s" % (m.group(1), fr.group(1) if fr else "unknown")
    m = re.search(r"([\w.]+\.[ch]):(\d+):\d+: runtime error: ([\w -]{1,40})", log)
    if m:
        return "crash:ubsan:%s:%s" % (m.group(1), m.group(3).strip().replace(" ", "-"))
    m = re.search(r"([\w.]+\.[ch]):(\d+): (\w+): Assertion", log)
    if m:
        return "crash:assert:%s:%s" % (m.group(1), m.group(3))
    return "crash:" + str(scn_id)


def label(ops):
    out = []
    for o in ops:
        a = [x for x in (o.get("k"), o.get("tgt"), o.get("src"), o.get("fn"), "empty" if o.get("empty") else None)
             if x and x != "none"]
        out.append(o["op"] + ("(%s)" % ",".join(a) if a else ""))
    return ";".join(out)


def scenario(ops):
    ops = [{k: v for k, v in o.items() if v != "none" or k == "op"} for o in ops]
    lab = label(ops)
    return dict(id=lab, ops=ops)


# ------------------------------------------------------------------ R: run scenarios in crash-isolated subprocesses
def run_batch(ctx, so, scns, tag, max_single, n_subsets, timeout):
    """Returns list of run dicts; reports crashes/hangs as violations and continues after the offending scenario."""
    runs = []
    todo = list(scns)
    part = 0
    while todo:
        part += 1
        job = os.path.join(ctx.workdir, "job.%s.%d.json" % (tag, part))
        out = os.path.join(ctx.workdir, "out.%s.%d.ndjson" % (tag, part))
        json.dump(dict(so=so, scenarios=todo, seed=ctx.seed, max_single=max_single, n_subsets=n_subsets), open(job, "w"))
        hang = False
        logp = out + ".log"
        with open(logp, "w") as lf:
            p = subprocess.Popen([sys.executable, "-m", "harness.pydrv.c10drv", job, out], cwd=HERE, env=build.asan_env(),
                                 stdout=lf, stderr=subprocess.STDOUT)
            # watchdog: the driver appends one line per execution; no new line for `stall` seconds = a call never returned
            t0 = last = time.time(); size = -1
            while p.poll() is None:
                time.sleep(0.25)
                sz = os.path.getsize(out) if os.path.exists(out) else 0
                now = time.time()
                if sz != size:
                    size, last = sz, now
                if now - last > STALL or now - t0 > timeout:
                    hang = True
                    p.kill(); p.wait()
                    break
            rc = -9 if hang else p.returncode
        log = open(logp, errors="replace").read()
        started = None; done = set()
        cur = []
        if os.path.exists(out):
            for line in open(out):
                try:
                    o = json.loads(line)
                except ValueError:
                    break          # torn last line of a crashed child
                if "start" in o:
                    started = o["start"]; cur = []
                elif "end" in o:
                    done.add(o["end"]); runs.extend(cur); cur = []; started = None
                else:
                    cur.append(o)
        if rc == 0:
            break
        if started is None and not hang:
            raise MachineryError("c10 driver failed outside a scenario (rc=%s):\n%s" % (rc, log[-3000:]))
        sanitizer = ("Sanitizer" in log) or ("runtime error" in log) or rc in (-6, -11, -7, -4, 134, 139)
        if hang:
            sc = [s for s in todo if s["id"] == started]
            kinds = sorted({o["k"] for s in sc for o in s["ops"] if o["op"] == "Init"})
            ninit = sum(1 for s in sc for o in s["ops"] if o["op"] == "Init")
            _Dedup(ctx, SEEN).violation("hang:%s%s" % ("+".join(kinds) or "objects", ":reinit" if ninit > 1 else ""),
                                        "an API call did not return within %d s in scenario %s (after %d completed executions of it)"
                                        % (STALL, started, len(cur)), dict(kind="scenario", scenario=sc, completed_runs=len(cur)))
        elif sanitizer:
            _Dedup(ctx, SEEN).violation(crash_key(log, started), "the library crashed / a sanitizer aborted while replaying the scenario "
                          "(after %d completed runs of it):\n%s" % (len(cur), log[-2500:]),
                          dict(kind="scenario", scenario=[s for s in todo if s["id"] == started], completed_runs=len(cur)))
        else:
            raise MachineryError("c10 driver raised in scenario %s (rc=%s):\n%s" % (started, rc, log[-3000:]))
        runs.extend(cur)           # the runs of the crashed scenario that did complete are still validated
        ids = [s["id"] for s in todo]
        todo = todo[ids.index(started) + 1:]
    return runs


class _Dedup:
    """ctx proxy for tracev.validate: one violation per key (a single defect rejects many executions)."""
    def __init__(self, ctx, seen):
        self._ctx = ctx; self._seen = seen
    def __getattr__(self, a):
        return getattr(self._ctx, a)
    def violation(self, key, detail, replay_obj=None):
        if key in self._seen:
            self._seen[key] += 1
            return False
        self._seen[key] = 1
        return self._ctx.violation(key, detail, replay_obj)

SEEN = {}

def validate_runs(ctx, runs, tag):
    hists = [("%s|fail=%s" % (r["sid"], ",".join(map(str, r["fail"])) or "-"), r["events"]) for r in runs]
    def keyfn(lab, e, i):
        if e.get("e") == "Done":
            return "trace:leak-at-end:" + lab.split("|")[0][:80]
        return "trace:%s:%s:%s" % (e.get("fn"), e.get("ret"), "unchanged" if e.get("same", True) else "caller-object-modified")
    return tracev.validate(_Dedup(ctx, SEEN), "TraceLifecycle", hists, keyfn, name="TraceLifecycle." + tag, timeout=1200,
                           max_rounds=5)


def run(ctx):
    quick = ctx.quick
    # ---------------- (M)
    r = tlc.run("MCLifecycle", cfg="MCLifecycleQuick.cfg" if quick else "MCLifecycle.cfg", workers=PAR, timeout=1200, coverage=True)
    ctx.add_tlc("MCLifecycle(MaxCalls=4,MaxPerCall=2,MaxIds=%d)" % (4 if quick else 5), r, exhaustive=True)
    if r.violation:
        ctx.violation("model:" + r.violation, r.out[-4000:], dict(kind="tlc_counterexample"))
    ctx.log("MCLifecycle:", r.summary())
    nv = {}
    with concurrent.futures.ThreadPoolExecutor(3) as ex:
        futs = {b: ex.submit(tlc.run, "MCLifecycle", cfg="MCLifecycleBug_%s.cfg" % b, workers=1, timeout=300) for b in BUGS}
        for b, f in futs.items():
            rb = f.result()
            if rb.error:
                raise MachineryError("MCLifecycleBug_%s: %s" % (b, rb.error))
            nv[b] = rb.violation
            if not rb.violation:
                raise MachineryError("non-vacuity: broken mechanism %r (%s) does not violate the contract" % (b, BUGS[b]))
    ctx.extra["non_vacuity_broken_models"] = nv
    ctx.log("non-vacuity (broken mechanism -> violated invariant):", nv)

    L = build.lib("asan")
    # ---------------- replay of a stored scenario
    if ctx.replay:
        obj = json.load(open(ctx.replay)).get("replay") or {}
        if obj.get("kind") == "trace":
            # re-validate the recorded execution (prefix up to the rejected call) against TraceLifecycle
            tracev.validate(ctx, "TraceLifecycle", [(obj.get("label", "replay"), obj["events"])],
                            lambda lab, e, i: "trace:%s:%s:%s" % (e.get("fn"), e.get("ret"), "unchanged" if e.get("same", True) else "caller-object-modified"))
            return ctx.finish(rule="replay: re-validation of a recorded execution", trusted=["TLC"])
        scns = obj.get("scenario") or []
        if not scns and obj.get("label"):
            scns = [s for s in [obj.get("scn")] if s]
        runs = run_batch(ctx, L["so"], scns, "replay", 400, 10, 600)
        validate_runs(ctx, runs, "replay")
        return ctx.finish(rule="replay of stored scenario(s)", trusted=["TLC", "gcc ASan/UBSan", "ctypes driver"])

    # ---------------- (G)
    g = tlc.run("GenLifecycle", workers=1, timeout=600)
    ctx.add_tlc("GenLifecycle(MaxLen=2)", g, exhaustive=True)
    plans = plans_from_tlc(g.out)
    if len(plans) < 1000:
        raise MachineryError("scenario generation produced only %d scenarios" % len(plans))
    sim = tlc.run("GenLifecycle", cfg="GenLifecycle4.cfg", workers=1, timeout=600, simulate=25 if quick else 1200, depth=4,
                  seed=ctx.seed)
    if sim.error:
        raise MachineryError("GenLifecycle simulation: " + sim.error)
    deep = [p for p in plans_from_tlc(sim.out) if len(p) >= 3]
    fam = {}
    for name, cfg in (("idx", "GenLifecycleIdx.cfg"), ("flt", "GenLifecycleFlt.cfg")):
        gf = tlc.run("GenLifecycle", cfg=cfg, workers=1, timeout=600)
        ctx.add_tlc("GenLifecycle(%s)" % name, gf, exhaustive=True)
        fam[name] = [p for p in plans_from_tlc(gf.out) if len(p) >= 3]
    # reuse family: one handle used, aborted (faults), re-initialised with the same constructor, used again;
    # lzma_filters_update followed by coding (the handle must stay usable after a failed update)
    gr = tlc.run("GenLifecycle", cfg="GenLifecycleReuse.cfg", workers=1, timeout=600)
    ctx.add_tlc("GenLifecycle(reuse)", gr, exhaustive=True)
    def reuse_class(p):
        ops = [o["op"] for o in p]
        if "End" in ops:
            return False
        return any(o == "Init" for o in ops[1:]) or \
            any(ops[i] == "Update" and any(x in ("CodeSome", "CodeAll") for x in ops[i + 1:]) for i in range(len(ops)))
    fam["reuse"] = [p for p in plans_from_tlc(gr.out) if reuse_class(p)]
    if len(fam["reuse"]) < 300:
        raise MachineryError("reuse family produced only %d scenarios" % len(fam["reuse"]))
    # cycle family: use with parameters A, re-initialise with parameters B (other dictionary size / preset) and let
    # an allocation fail, re-initialise with A and use again - what a coder keeps across re-initialisations must
    # stay consistent with what it has really allocated
    gc = tlc.run("GenLifecycle", cfg="GenLifecycleCycle.cfg", workers=1, timeout=600)
    ctx.add_tlc("GenLifecycle(cycle)", gc, exhaustive=True)
    def cycle_class(p):
        ops = [o["op"] for o in p]
        return len(p) >= 5 and ops[:2] == ["Init", "CodeAll"] and ops[-1] == "CodeAll" and ops.count("Init") >= 3 \
            and all(not (a == b == "CodeAll") for a, b in zip(ops, ops[1:]))
    fam["cycle"] = [p for p in plans_from_tlc(gc.out) if cycle_class(p)]
    if len(fam["cycle"]) < 50:
        raise MachineryError("cycle family produced only %d scenarios" % len(fam["cycle"]))
    simh = tlc.run("GenLifecycle", cfg="GenLifecycleHnd.cfg", workers=1, timeout=600, simulate=25 if quick else 1500, depth=4,
                   seed=ctx.seed + 1)
    if simh.error:
        raise MachineryError("GenLifecycle handle-family simulation: " + simh.error)
    deep += [p for p in plans_from_tlc(simh.out) if len(p) >= 3]
    one = [p for p in plans if len(p) == 1]
    two = [p for p in plans if len(p) == 2]
    if quick:
        must = [p for p in two if p[0]["op"] == "Init" and p[1]["op"] in ("CodeAll", "CodeSome")]
        rest = [p for p in two if p not in must]
        # handle-centred histories are the interesting half
        hrest = [p for p in rest if p[0]["op"] == "Init"]
        orest = [p for p in rest if p[0]["op"] != "Init"]
        idx_end = [p for p in fam["idx"] if p[-1]["op"] in ("IndexCat", "IndexDup")]
        ru = fam["reuse"]
        ru_short = [p for p in ru if len(p) <= 3]
        ru_again = [p for p in ru if len(p) == 4 and [o["op"][:4] for o in p] == ["Init", "Code", "Init", "Code"]]
        ru_rest = [p for p in ru if len(p) == 4 and p not in ru_again]
        chosen = one + must + ctx.rng.sample(hrest, 40) + ctx.rng.sample(orest, 40) + deep[:40] \
            + ctx.rng.sample(idx_end, 50) + ctx.rng.sample(fam["flt"], 25) + ru_short + ru_again + ctx.rng.sample(ru_rest, 30) \
            + fam["cycle"]
        max_single, n_subsets = 60, 2
    else:
        chosen = one + two + deep + fam["idx"] + fam["flt"] + fam["reuse"] + fam["cycle"]
        max_single, n_subsets = 150, 6
    # always present (both plans are in the TLC-generated set; here the decoded Index is forced to have no Records)
    chosen = chosen + [[dict(op="IndexBufferDecode", tgt="I1", empty=True), dict(op="IndexAppend", tgt="I1")],
                       [dict(op="IndexBufferDecode", tgt="I1", empty=True), dict(op="IndexDup", tgt="I2", src="I1")]]
    seen = set(); scns = []
    for p in chosen:
        s = scenario(p)
        if s["id"] not in seen:
            seen.add(s["id"]); scns.append(s)
    ctx.log("scenarios: %d (len1=%d, len2=%d available, deep=%d)" % (len(scns), len(one), len(two), len(deep)))

    # ---------------- (R) + (V), PAR batches in parallel
    ctx.rng.shuffle(scns)
    batches = [scns[i::PAR] for i in range(PAR)]
    def work(i):
        runs = run_batch(ctx, L["so"], batches[i], "b%d" % i, max_single, n_subsets, 600 if quick else 2400)
        # validate in chunks so that one TLC run stays small
        rej = 0
        chunk = 2500
        for c in range(0, len(runs), chunk):
            rej += validate_runs(ctx, runs[c:c + chunk], "b%d.%d" % (i, c // chunk))
        return runs, rej
    allruns = []; rejected = 0
    with concurrent.futures.ThreadPoolExecutor(PAR) as ex:
        for runs, rej in ex.map(work, range(PAR)):
            allruns.extend(runs); rejected += rej
    nfault = 0
    for r_ in allruns:
        ctx.case(key=(r_["sid"], tuple(r_["fail"])))
        nfault += 1 if r_["fail"] else 0
    calls = sum(len(r_["events"]) - 2 for r_ in allruns)
    ctx.extra.update(scenarios=len(scns), executions=len(allruns), fault_injected_executions=nfault, api_calls_validated=calls)
    smp = [r_ for r_ in allruns if r_["fail"] and len(r_["events"]) >= 5]
    if smp:
        ctx.sample(dict(kind="recorded_execution", scenario=smp[0]["sid"], failing_allocations=smp[0]["fail"], events=smp[0]["events"]))
    if SEEN:
        ctx.extra["rejections_per_key"] = dict(SEEN)
    ctx.log("replayed %d scenarios: %d executions (%d with injected failures), %d API calls validated, rejected=%d"
            % (len(scns), len(allruns), nfault, calls, rejected))
    ctx.assumptions += ["allocations made by worker threads between two API calls are attributed to the handle (Async event)",
                        "content equality of caller-owned objects is computed by the driver (filter ids + option bytes; "
                        "index iterated record by record) and logged as one boolean per call",
                        "an index delivered by lzma_index_decoder/lzma_file_info_decoder is freed by the driver inside the "
                        "call that delivered it"]
    return ctx.finish(rule="evaluations = executions of TLC-generated API scenarios against liblzma, one per scenario x set of "
                      "failing allocation ordinals (every single ordinal + random subsets); distinct by (scenario, fault set)",
                      trusted=["TLC", "gcc ASan/UBSan", "ctypes driver + recording allocator"])
