"""C19 - xz naming, overwrite protection and metadata handling are safe and invertible.

(M) MCSuffix: Suffix (transcription of suffix.c) => SuffixContract for all names x custom suffixes within
    the bounds, incl. the exact characterisation of the documented round-trip exception
    (CustomSuffixSpellsBuiltin).  MCAttrs: Attrs (transcription of io_open_src_real / io_open_dest_real /
    io_copy_attrs / io_close) => no-overwrite, refusal, mode-lattice (all 0..07777 x fchown outcomes),
    owner/group/time, keep and exit-status clauses.  MCExitStatus: set_exit_status fold => 0/1/2 contract.
(R) GenSuffix / GenAttrs / GenExit print the models' predictions; harness/cli/c19_names.py and c19_files.py
    execute them with the real xz (files under strace with injected fchown/fchmod failures) and compare
    created names, skipped files, system calls and their arguments, lstat of source and target, exit status.
"""
import os, json, itertools, concurrent.futures as cf
from lib import tlc, build
from lib.ctx import MachineryError
from checks.c11 import plans_from_tlc

ALPHA = ["a", ".", "-", "x", "z", "t", "l", "m", "r", "o"]
FIXED_CUSTOMS = ["xz", "lz", "zma", "ma", "a", "z", ".xz", ".x", "-x", "o", "txz", "tlz", "lzma", ".lz", "a/", "/"]

def _norm(r):
    """lib/tlc.py does not recognise 'Temporal property X was violated' / liveness counter-examples."""
    if r.error and ("counter-example" in r.error or "Temporal propert" in r.out):
        r.violation = r.violation or "temporal"
        r.error = None
    return r

def _cfg(ctx, name, text):
    p = os.path.join(ctx.workdir, name)
    with open(p, "w") as f:
        f.write(text)
    return p

def _customs_file(ctx, name, customs):
    p = os.path.join(ctx.workdir, name)
    with open(p, "w") as f:
        for c in customs:
            f.write(json.dumps(list(c)) + "\n")
    return p

def _set(xs):
    return "{" + ", ".join('"%s"' % x for x in xs) + "}"

def mc_suffix_cfg(ctx, name, alpha, sufalpha, maxlen, maxsuf, extra_from_env, invariants=None):
    inv = invariants or "SuffixSetExact CompressOK DecompressOK"
    return _cfg(ctx, name, "SPECIFICATION Spec\nCONSTANTS\n Alpha = %s\n SufAlpha = %s\n MaxLen = %d\n MaxSuf = %d\n %s\n"
                "INVARIANTS %s\nCHECK_DEADLOCK FALSE\n" % (_set(alpha), _set(sufalpha), maxlen, maxsuf,
                "ExtraCustoms <- ExtraFromEnv" if extra_from_env else "ExtraCustoms = {}", inv))

def rand_customs(rng, n, maxlen=3):
    out = set()
    while len(out) < n:
        k = rng.randint(2, maxlen)
        out.add("".join(rng.choice(ALPHA) for _ in range(k)))
    return sorted(out)

def run(ctx):
    from harness.cli import c19_names, c19_files, c1819_lib as U
    bins = U.snapshot_bins(ctx)
    xz = bins["xz"]
    q = ctx.quick
    rng = ctx.rng
    W = 4
    pool = cf.ThreadPoolExecutor(3)
    full = ALPHA + ["/"]
    # ------------------------------------------------------------------ (M) launched in the background
    jobs = []
    if q:
        ex = FIXED_CUSTOMS + rand_customs(rng, 6)
        cfile = _customs_file(ctx, "mc_customs.ndjson", ex)
        jobs.append(("MCSuffix(names<=4 over 11 chars, customs: all <=1 + %d of length 2..4)" % len(ex), False,
                     pool.submit(tlc.run, "MCSuffix", cfg=mc_suffix_cfg(ctx, "mcs1.cfg", full, full, 4, 1, True),
                                 workers=W, timeout=900, env={"C19_CUSTOMS": cfile})))
        jobs.append(("MCSuffix(names<=6 over {a . l z m t}, no -S and 1-char -S)", False,
                     pool.submit(tlc.run, "MCSuffix", cfg=mc_suffix_cfg(ctx, "mcs2.cfg", ["a", ".", "l", "z", "m", "t"],
                                 ["a", "z"], 6, 1, False), workers=2, timeout=900)))
    else:
        cfile = _customs_file(ctx, "mc_customs.ndjson", [".txz", ".tlz", "a.xz", "x.lz", "lzma", "zma/", "-", "r", "o", "o.", "-x", "or"])
        sa = ["a", ".", "x", "z", "t", "l", "m"]
        jobs.append(("MCSuffix(names<=4 over 11 chars, all customs <=3 over {a . x z t l m} + 12 others)", True,
                     pool.submit(tlc.run, "MCSuffix", cfg=mc_suffix_cfg(ctx, "mcs1.cfg", full, sa, 4, 3, True),
                                 workers=W, timeout=1500, env={"C19_CUSTOMS": cfile})))
        jobs.append(("MCSuffix(names<=5 over 11 chars, all customs <=1)", True,
                     pool.submit(tlc.run, "MCSuffix", cfg=mc_suffix_cfg(ctx, "mcs2.cfg", full, full, 5, 1, False),
                                 workers=W, timeout=1500)))
        jobs.append(("MCSuffix(names<=6 over 11 chars, no -S)", True,
                     pool.submit(tlc.run, "MCSuffix", cfg=mc_suffix_cfg(ctx, "mcs3.cfg", full, full, 6, 0, False),
                                 workers=W, timeout=1500)))
    jobs.append(("MCArgs(6 program names x <=1 token in XZ_DEFAULTS, XZ_OPT x <=2 on the command line)", True,
                 pool.submit(tlc.run, "MCArgs", workers=2 if q else 4, timeout=900)))
    # non-vacuity witnesses: each must be violated
    wit = {}
    for inv in ("NeverSpells", "NeverSkipsCompress", "NeverTar"):
        wit[inv] = pool.submit(tlc.run, "MCSuffix", cfg=mc_suffix_cfg(ctx, "wit_%s.cfg" % inv, ["a", ".", "t", "x", "z"],
                               ["x", "z"], 5, 2, False, invariants=inv), workers=1, timeout=300)
    if q:
        jobs.append(("MCAttrs(all kinds incl. stdin x flags x targets x data tails x --no-sparse, 6 modes)", True, pool.submit(tlc.run, "MCAttrs", workers=2, timeout=600, coverage=True)))
        jobs.append(("MCAttrs(mode lattice 0..07777 x fchown outcomes)", True,
                     pool.submit(tlc.run, "MCAttrs", cfg="MCAttrsModes.cfg", workers=2, timeout=600)))
    else:
        big = open(os.path.join(tlc.SPEC, "MCAttrsModes.cfg")).read().replace("ForceSet = {FALSE}", "ForceSet = {TRUE, FALSE}") \
            .replace("ChmodSet = {TRUE}", "ChmodSet = {TRUE, FALSE}").replace("UidSameSet = {FALSE}", "UidSameSet = {TRUE, FALSE}")
        jobs.append(("MCAttrs(all kinds incl. stdin x flags x targets x data tails x --no-sparse, 6 modes)", True, pool.submit(tlc.run, "MCAttrs", workers=W, timeout=900, coverage=True)))
        jobs.append(("MCAttrs(mode lattice 0..07777 x all fchown/fchmod outcomes x keep x force)", True,
                     pool.submit(tlc.run, "MCAttrs", cfg=_cfg(ctx, "mcam.cfg", big), workers=W, timeout=1500)))
    jobs.append(("MCExitStatus(<=6 messages)", True, pool.submit(tlc.run, "MCExitStatus", workers=1, timeout=300)))

    # ------------------------------------------------------------------ (R) names
    pay = c19_names.Payloads(xz, ctx.workdir)
    gen_customs = FIXED_CUSTOMS + rand_customs(rng, 3 if q else 12)
    gfile = _customs_file(ctx, "gen_customs.ndjson", gen_customs)
    gcfg = _cfg(ctx, "gens.cfg", "SPECIFICATION Spec\nCONSTANTS\n Alpha = %s\n MaxLen = %d\nACTION_CONSTRAINT Emit\nCHECK_DEADLOCK FALSE\n"
                % (_set(ALPHA), 3 if q else 4))
    g = tlc.run("GenSuffix", cfg=gcfg, workers=1, timeout=900, env={"C19_CUSTOMS": gfile})
    ctx.add_tlc("GenSuffix(bfs)", g, exhaustive=True)
    plans = plans_from_tlc(g.out)
    scfg = _cfg(ctx, "gensim.cfg", "SPECIFICATION Spec\nCONSTANTS\n Alpha = %s\n MaxLen = 8\nACTION_CONSTRAINT Emit\nCHECK_DEADLOCK FALSE\n" % _set(ALPHA))
    gs = tlc.run("GenSuffix", cfg=scfg, workers=1, timeout=300, env={"C19_CUSTOMS": gfile}, simulate=60 if q else 600,
                 depth=8, seed=ctx.seed)
    ctx.add_tlc("GenSuffix(simulate)", gs)
    plans += plans_from_tlc(gs.out)
    ctx.log("GenSuffix: %d + %d lines (%.1fs + %.1fs)" % (len(plans_from_tlc(g.out)), len(plans_from_tlc(gs.out)), g.wall, gs.wall))
    if len(plans) < 5000:
        raise MachineryError("GenSuffix produced only %d plans" % len(plans))
    seen = set(); uniq = []
    for p in plans:
        k = ("".join(p["name"]), "".join(p["custom"]))
        if k not in seen:
            seen.add(k); uniq.append(p)
    hot = [p for p in uniq if c19_names.interesting(p)]
    cold = [p for p in uniq if not c19_names.interesting(p)]
    rng.shuffle(hot); rng.shuffle(cold)
    nh, nc = (650, 350) if q else (9000, 5000)
    chosen = hot[:nh] + cold[:nc]
    rng.shuffle(chosen)
    done = c19_names.run_name_cases(ctx, xz, pay, chosen, budget=len(chosen) * 5)
    ctx.add_traces(len(chosen))
    ctx.sample(dict(kind="name_plan", plan=hot[0]))
    ctx.log("names: %d model lines (%d interesting) -> %d file cases executed (of %d emitted lines)" %
            (len(chosen), min(nh, len(hot)), done, len(uniq)))
    # -S '' is refused
    d0 = os.path.join(ctx.workdir, "emptysuf"); os.makedirs(d0)
    open(os.path.join(d0, "f"), "wb").write(b"x")
    r = U.run([xz, "-S", "", "f"], cwd=d0)
    ctx.case(key="empty-suffix")
    if r.returncode != 1 or os.listdir(d0) != ["f"]:
        ctx.violation("names:fatal_config:empty_suffix", "xz -S '' f: exit %s, dir %r" % (r.returncode, os.listdir(d0)), None)

    # ------------------------------------------------------------------ (R) files under strace
    pool_modes = [0o644, 0o600, 0o755, 0o4755, 0o2755, 0o1644, 0o664, 0o640, 0o604, 0o466, 0o7777, 0, 0o777, 0o3070, 0o5007, 0o057, 0o075]
    sc = c19_files.make_scenarios(rng, 1 if q else 6, pool_modes)
    sfile = os.path.join(ctx.workdir, "scen.ndjson")
    with open(sfile, "w") as f:
        for s in sc:
            f.write(json.dumps(s) + "\n")
    ga = tlc.run("GenAttrs", workers=1, timeout=900, env={"C19_SCEN": sfile})
    ctx.add_tlc("GenAttrs", ga, exhaustive=True)
    preds = {p["id"]: p for p in plans_from_tlc(ga.out)}
    if len(preds) != len(sc):
        raise MachineryError("GenAttrs predicted %d of %d scenarios\n%s" % (len(preds), len(sc), ga.out[-1500:]))
    payloads = {(f, t): U.run([xz, "-0", "-c", "-F", f], input=pl).stdout for f in ("xz", "lzma") for t, pl in c19_files.PLAINS.items()}
    def one(i):
        c19_files.run_scenario(ctx, bins, sc[i], preds[sc[i]["id"]], payloads, i)
    with cf.ThreadPoolExecutor(4) as ex2:
        list(ex2.map(one, range(len(sc))))
    used = {(s["prog"], w) for s in sc for w in ("dflt", "xzopt", "cmd") if s[w]}
    lack = [(p, w) for p in ("xz", "unxz", "xzcat", "lzma", "unlzma", "lzcat") for w in ("dflt", "xzopt", "cmd") if (p, w) not in used]
    if lack:
        raise MachineryError("scenario generation left program name x option source combinations unused: %r" % lack)
    for s in sc:
        ctx.case(key=("file", json.dumps(s, sort_keys=True)))
    ctx.add_traces(len(sc))
    ctx.sample(dict(kind="file_scenario", scenario=sc[3], predicted=preds[3]))
    ctx.log("files: %d scenarios executed under strace" % len(sc))

    # ------------------------------------------------------------------ (R) exit status fold
    ge = tlc.run("GenExit", cfg=_cfg(ctx, "genexit.cfg", "SPECIFICATION Spec\nCONSTANTS MaxFiles = %d\nACTION_CONSTRAINT Emit\nCHECK_DEADLOCK FALSE\n"
                                     % (3 if q else 5)), workers=1, timeout=300)
    ctx.add_tlc("GenExit", ge, exhaustive=True)
    eplans = plans_from_tlc(ge.out)
    run_exit_cases(ctx, xz, eplans)
    ctx.add_traces(len(eplans))
    ctx.log("exit status: %d multi-file invocations" % len(eplans))

    # ------------------------------------------------------------------ collect (M)
    for name, exh, fut in jobs:
        r = _norm(fut.result())
        ctx.add_tlc(name, r, exhaustive=exh)
        ctx.log(name, r.summary())
        if r.violation:
            ctx.violation("model:%s:%s" % (name.split("(")[0], r.violation), r.out[-4000:], dict(kind="tlc_counterexample", run=name))
    for inv, fut in wit.items():
        r = fut.result()
        ctx.add_tlc("witness:" + inv, r)
        if r.violation != inv:
            raise MachineryError("non-vacuity witness %s was not produced by TLC (%s)" % (inv, r.summary()))
    pool.shutdown()
    ctx.assumptions += ["the check runs as root: fchown failures are injected with strace (EPERM); a few scenarios run xz as nobody (natural EPERM, silent owner failure)",
                        "names: 10-character alphabet where 'o' stands for any byte outside the suffix letters; directory "
                        "separators in names are covered by the model and by the dN/ prefix of every replayed path",
                        "POSIX build (no DJGPP/DOS name rules), O_NOFOLLOW and futimens available"]
    return ctx.finish(rule="evaluations = files processed by the real xz whose outcome (created name / skipped / attributes / "
                      "system calls / exit status) was compared with the TLA+ prediction; distinct by (operation, format, "
                      "suffix, concrete name) or full scenario; trivial cases none",
                      trusted=["TLC", "strace (syscall decoding, fault injection)", "ext4 semantics of the sandbox"])

def run_exit_cases(ctx, xz, plans):
    from harness.cli import c1819_lib as U
    import shutil
    root = os.path.join(ctx.workdir, "exit"); os.makedirs(root)
    seen = set()
    def once(key, detail, rep):
        if key not in seen:
            seen.add(key); ctx.violation(key, detail, rep)
    for n, p in enumerate(plans):
        d = os.path.join(root, "e%d" % n); os.mkdir(d)
        names = []
        for i, o in enumerate(p["files"]):
            nm = "f%d" % i + (".xz" if o == "warn" else "")
            if o != "error":
                open(os.path.join(d, nm), "wb").write(b"exit status payload\n")
            names.append(nm)
        argv = [xz, "-0", "--no-sync"] + (["--no-warn"] if p["nowarn"] else []) + ["-q"] * p["quiet"] + ["--"] + names
        r = U.run(argv, cwd=d)
        ctx.case(key=("exit", json.dumps(p, sort_keys=True)))
        tag = "%s%s" % ("nowarn" if p["nowarn"] else "warn", ":q%d" % p["quiet"])
        if r.returncode != p["exit"]:
            once("exit:status:%s:%s" % ("-".join(sorted(set(p["files"]))), tag),
                          "files %s: exit %s, model %s; stderr=%r" % (p["files"], r.returncode, p["exit"], r.stderr[:300]),
                          dict(kind="exit_case", plan=p, argv=argv[1:]))
        if bool(r.stderr.strip()) != p["stderr"]:
            once("exit:stderr:%s" % tag, "files %s: stderr %r, model says used=%s" % (p["files"], r.stderr[:200], p["stderr"]),
                          dict(kind="exit_case", plan=p, argv=argv[1:]))
        want = sorted(("f%d.xz" % i) for i, o in enumerate(p["files"]) if o != "error")
        if sorted(os.listdir(d)) != want:
            once("exit:files:%s" % tag, "files %s: directory %r, expected %r" % (p["files"], sorted(os.listdir(d)), want),
                          dict(kind="exit_case", plan=p))
        shutil.rmtree(d, ignore_errors=True)
    if plans:
        ctx.sample(dict(kind="exit_plan", plan=plans[len(plans) // 2]))
