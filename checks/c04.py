"""C04 - no input can make a decoder or parser misbehave.

Layer 1, spec-decidable clauses:
 (M) Starve.tla (LzmaCode o SliceCoder with an application that may stop supplying input and/or output space):
     DocumentedOnly / NoInternal (status codes of StarveDoc.tla only, internal codes 101/102 never escape),
     StarveLive (FairSpec => starved ~> LZMA_BUF_ERROR or terminal), StarveBounded, BufErrorResumable.
     MCStarveLazy (a coder that answers LZMA_TIMED_OUT forever) must violate StarveLive (non-vacuity).
 (V) every recorded run of every decoder ends with extra starving calls and contains starvation episodes; TraceSlicing.tla
     requires LzmaCode steps, documented codes, and LZMA_BUF_ERROR within StarveBound calls without progress.
     Stateless parsers: TLC enumerates the field grammars of StarveGrammar.tla; every item is one Parse event whose
     status must be documented and, where the format fixes it, equal to the grammar's verdict.
Layer 2, observed clauses (NOT proved: observed on the spec-generated inputs): every execution runs in a subprocess
     under ASan+UBSan with assertions enabled (crash => "crash:<entry>:<class>"), a watchdog ("hang:..."), guard bytes
     around the buffers and a counting allocator ledger (live != {} after lzma_end => "leak:<entry>:<class>").
"""
import json, os, concurrent.futures

from lib import tlc, build, tracev
from lib.ctx import MachineryError
from checks import c06 as S6

GRAMMARS = ["vli", "sflags", "bhdr", "fflags", "props", "index", "str"]


def gen_items(ctx, quick):
    """(G): the grammar items, one TLC run per grammar."""
    def one(w):
        return w, tlc.run("StarveGrammar", cfg="GenStarveGrammar_%s.cfg" % w, workers=1, timeout=600)
    items = {}
    with concurrent.futures.ThreadPoolExecutor(max_workers=4) as ex:
        for w, r in ex.map(one, GRAMMARS):
            ctx.add_tlc("StarveGrammar(%s)" % w, r, exhaustive=True)
            got = []
            seen = set()
            for line in r.out.splitlines():
                if line.startswith('<<"ITEM", "'):
                    js = line[len('<<"ITEM", "'):-3].encode().decode("unicode_escape")
                    if js not in seen:
                        seen.add(js)
                        got.append(json.loads(js))
            if len(got) < 100:
                raise MachineryError("grammar %s produced %d items\n%s" % (w, len(got), r.out[-1500:]))
            items[w] = got
    return items


def decoder_subjects(ctx, quick):
    from harness.pydrv import c06corpus, lz
    rng = ctx.rng
    S = []
    S += c06corpus.xz_subjects(rng, quick, 3 if quick else 20, 14 if quick else 150)
    S += c06corpus.tests_files(rng, quick)
    S += c06corpus.lzma1_subjects(rng, quick, 2 if quick else 12)
    S += c06corpus.microlzma_subjects(rng, quick, 2 if quick else 10)
    S += c06corpus.lzma2_subjects(rng, quick, 2 if quick else 20)
    S += c06corpus.lzip_subjects(rng, quick, 2 if quick else 10)
    S += c06corpus.block_index_subjects(rng, quick, 2 if quick else 12)
    S = [s for s in S if s["kind"] == "dec"]
    S += c06corpus.first_symbol_subjects(rng, quick)
    S += c06corpus.init_reject_subjects(rng, quick)
    S += c06corpus.internal_limit_subjects(rng, quick)
    S += c06corpus.flag_variants(S, rng, 0.4 if quick else 1.0)
    S += c06corpus.file_info_big_subjects(rng, quick)
    S += c06corpus.mt_big_subjects(rng, quick)
    # memory limits: tiny, exactly what the input needs, one byte less, ample
    HAS_LIMIT = ("stream_decoder", "stream_decoder_mt", "auto_decoder", "alone_decoder", "lzip_decoder", "index_decoder",
                 "file_info_decoder")
    out = []
    for s in S:
        s = dict(s, args=dict(s["args"]), alloc=not (s.get("mtbig") or s.get("fibig")))
        out.append(s)
        if s.get("mtbig") or s.get("fibig"):
            continue
        if s["entry"] in HAS_LIMIT and "memlimit" not in s["args"] and rng.random() < (0.5 if quick else 1.0):
            for lim in rng.sample(["exact", "exact-1", 1, 1 << 16], 2 if quick else 4):
                t = dict(s, args=dict(s["args"], memlimit=lim), cls=s["cls"] + ":memlimit=" + str(lim))
                if t.get("expect_ret"):
                    t["expect_ret"] = list(t["expect_ret"]) + ["MEMLIMIT_ERROR"]
                if s["entry"] == "stream_decoder_mt":
                    t["args"]["memlimit_threading"] = rng.choice([1, 1 << 16, 1 << 62])
                out.append(t)
    return out


def c04_plans(s, ctx, sym, quick):
    rng = ctx.rng
    n = len(s["data"]) - (s["args"]["header_len"] if s["entry"] == "block_decoder" else 0)
    bounds = [b - (s["args"]["header_len"] if s["entry"] == "block_decoder" else 0) for b in s["bounds"]]
    bounds = [b for b in bounds if 0 < b < n]
    mt = s["entry"].endswith("_mt")
    P = []
    if s.get("fibig"):
        # the look-back logic of the file-info decoder: whole file, pieces, and pieces that end at the interesting offsets
        return [{"k": "pieces", "size": 8192}, {"k": "pieces", "size": rng.choice((100, 4096, 5000))}] + \
               [{"k": "two", "at": b + rng.choice((-1, 0, 1))} for b in rng.sample(bounds, min(3, len(bounds)))]
    if s.get("mtbig"):
        # input arriving over time in pieces smaller than the Block (workers run between the calls); the bulk at once and
        # the last bytes one at a time followed by a stalled caller (no new input, no output space), then the rest
        return [{"k": "pieces", "size": 1024, "pause": 0.0003}, {"k": "pieces", "size": 4096, "pause": 0.0005},
                {"k": "tail", "tail": 200, "n": 40}, {"k": "tail", "tail": rng.randint(2, 60), "n": 40},
                {"k": "lists", "ins": [n // 2, ("S", 40)], "outs": [], "irep": 8192}]
    if n <= 3000 and (s.get("cap") or 0) <= 9000:
        P.append({"k": "byte1", "z": rng.choice((0, 3)), "rec": n <= 48, "xw": True})
    else:
        P.append({"k": "in1", "xw": True})
    for pl in rng.sample(sym, 2 if quick else 10):
        c = S6.concretise(pl, bounds, n, rng)
        c["rec"] = not (s["entry"].endswith("_mt") and s["args"].get("timeout"))
        P.append(c)
    pts = set(rng.randrange(0, n + 1) for _ in range(4 if quick else 30))
    for b in bounds:
        if rng.random() < (0.3 if quick else 1.0):
            pts.add(b + rng.choice((-1, 0, 1)))
    for k in sorted(p for p in pts if 0 <= p <= n):
        P.append({"k": "two", "at": k, "xw": True})
    for _ in range(2 if quick else 5):
        at = (rng.choice(bounds) + rng.choice((-1, 0, 1))) if bounds and rng.random() < 0.6 else rng.randint(0, n)
        slow = mt and s["args"].get("timeout")      # "nothing yet" answers while workers are busy: time, not calls, bounds them
        P.append({"k": "starve", "at": max(0, min(n, at)), "n": 60 if slow else 10 if mt else 6, "rec": not slow})
    return P


def judge_parses(ctx, parses, results, crashes):
    byid = {p["id"]: p for p in parses}
    hists = {}
    seen = set()
    for c in crashes:
        if c["kind"] != "parse":
            continue
        p = byid[c["id"]]
        key = "%s:%s:%s" % ("hang" if c["rc"] in ("timeout", -14) else "crash", p["entry"], ":".join(p["cls"].split(":")[:2]))
        if key not in seen:
            seen.add(key)
            ctx.violation(key, S6.asan_summary(c["log"]) + "\n" + c["log"][-2500:], dict(kind="parse", call=p))
    n = 0
    for r in results:
        if r["kind"] != "parse":
            continue
        if r.get("machinery"):
            raise MachineryError("driver: parse %s: %s" % (byid[r["id"]]["cls"], r["machinery"]))
        p = byid[r["id"]]
        n += 1
        ctx.case(key=("parse", p["entry"], p["data"], p.get("flags"), p.get("memlimit"), tuple(p.get("cuts") or ())))
        ex = r["extra"]
        cls2 = ":".join(p["cls"].split(":")[:2])
        for flag, what in (("leak", "leak"), ("badfree", "leak:badfree"), ("guard", "crash:guard-bytes"), ("oob", "crash:position-out-of-bounds"),
                           ("options_on_error", "leak:options-on-error"), ("index_on_error", "leak:index-on-error")):
            if ex.get(flag):
                key = "%s:%s:%s" % (what, p["entry"], cls2)
                if key not in seen:
                    seen.add(key)
                    ctx.violation(key, "%s: %s" % (p["cls"], json.dumps(ex)[:500]), dict(kind="parse", call=p, result=r))
        if p.get("want_ipos") is not None and ex.get("ipos") != p["want_ipos"]:
            key = "parse:%s:input-position" % p["entry"]
            if key not in seen:
                seen.add(key)
                ctx.violation(key, "%s consumed %s bytes, the grammar says %d" % (p["cls"], ex.get("ipos"), p["want_ipos"]),
                              dict(kind="parse", call=p, result=r))
        w = p.get("want") or {}
        if r["ret"] == "OK":
            for k, v in w.items():
                if v is not None and ex.get(k) != v:
                    key = "parse:%s:field:%s" % (p["entry"], k)
                    if key not in seen:
                        seen.add(key)
                        ctx.violation(key, "%s decoded %s = %r, the grammar says %r" % (p["cls"], k, ex.get(k), v),
                                      dict(kind="parse", call=p, result=r))
        hists.setdefault(p["entry"], []).append({"e": "Parse", "entry": p["entry"], "ret": r["ret"], "expect": p.get("expect") or [],
                                                 "cls": p["cls"], "input": p["data"][:400]})
    out = []
    for e, evs in hists.items():
        for i in range(0, len(evs), 400):
            out.append((e + "|parse|", evs[i:i + 400]))
    return out, n


def parse_key(label, e, idx):
    if e.get("e") == "Parse":
        return "parse:%s:%s:%s" % (e["entry"], ":".join(e.get("cls", "").split(":")[:2]), e.get("ret"))
    return S6.trace_key(label, e, idx)


def run(ctx):
    quick = ctx.quick
    from harness.pydrv import lz, c04gen
    L = build.lib("asan")
    lz.load(L["so"])
    # (M)
    pos = ["MCStarveLzip"] if quick else ["MCStarveLzip", "MCStarveLzma1", "MCStarveXz", "MCStarveBcj"]
    neg = []
    futs = S6.start_models(pos + neg, module="Starve", workers=1 if quick else 2, timeout=1500)
    # notifications (LZMA_NO_CHECK / UNSUPPORTED_CHECK / GET_CHECK): returned once, then progress resumes (StallBounded);
    # the coder that returns them before advancing its sequence must violate it
    nfuts = S6.start_models(["MCStarveNote", "MCStarveNoteStuck", "MCStarveStop", "MCStarveStopLazy", "MCStarveLazy"], module="MCStarveNote",
                            workers=1 if quick else 2, timeout=1500)
    # (G)
    items = gen_items(ctx, quick)
    sym = S6.gen_plans(ctx)
    rng = ctx.rng
    parses = []
    cap = dict(vli=10 ** 6, props=10 ** 6, fflags=10 ** 6, index=10 ** 6, sflags=500, bhdr=900, str=900) if quick else {}
    for w in GRAMMARS:
        its = items[w]
        if len(its) > cap.get(w, 10 ** 9):
            its = rng.sample(its, cap[w])
        for it in its:
            parses += c04gen.concretise(it)
    S = decoder_subjects(ctx, quick)
    # lzma_stream_buffer_decode (single-call) with awkward output sizes on a sample of the container inputs
    for s in [x for x in S if x["entry"] == "stream_decoder"][:: (6 if quick else 1)]:
        for osz in (0, 1, max(0, (s.get("cap") or 4096) - 4096), 1 << 16):
            parses.append(dict(entry="stream_buffer_decode", data=s["data"].hex(), cls="bufdec:" + S6.short_cls(s["cls"]), expect=[],
                               out_size=osz, flags=rng.choice([0, 8, 8 | 1 | 2]), memlimit=rng.choice([1, 1 << 62])))
    for i, p in enumerate(parses):
        p["id"] = i
    for i, s in enumerate(S):
        s["id"] = i
        s["plans"] = c04_plans(s, ctx, sym, quick)
    ctx.log("grammar items: %s; %d parser calls; %d decoder subjects" % ({w: len(items[w]) for w in GRAMMARS}, len(parses), len(S)))
    S.sort(key=lambda s: -len(s["data"]) * (3 if s["entry"].endswith("_mt") else 1))
    results, crashes = S6.run_jobs(ctx, S, (), parses, nproc=4 if quick else 6, rec_budget=16000 if quick else 200000)
    # observed clauses + recorded histories; slicing mismatches are C06's business: not judged here
    for r in results:
        if r["kind"] == "subject":
            r["mism"] = []
    hists, bad_hists, BAD = S6.judge(ctx, S, results, crashes, with_final=False)
    phists, nparse = judge_parses(ctx, parses, results, crashes)
    by_entry = {}
    for r in results:
        if r["kind"] == "subject":
            by_entry[r["entry"]] = by_entry.get(r["entry"], 0) + r["runs"]
        elif r["kind"] == "parse":
            by_entry[r["entry"]] = by_entry.get(r["entry"], 0) + 1
    ctx.extra["executions_by_entry"] = by_entry
    ctx.log("driver: %d decoder runs (%d lzma_code calls), %d parser calls, %d crashes/hangs" % (
        sum(r["runs"] for r in results if r["kind"] == "subject"), ctx.extra.get("lzma_code_calls", 0), nparse, len(crashes)))
    good = hists + phists
    rej = tracev.validate(ctx, "TraceSlicing", good, parse_key, timeout=900, max_rounds=8) if good else 0
    ctx.log("TraceSlicing: %d histories (%d events), rejected=%d" % (len(good), sum(len(e) for _, e in good), rej))
    if hists:
        ctx.sample(dict(kind="recorded_run_with_starvation", label=hists[0][0], events=hists[0][1][:14]))
    if phists:
        ctx.sample(dict(kind="parser_calls", label=phists[0][0], events=phists[0][1][:5]))
    ctx.sample(dict(kind="grammar_item", item=items["bhdr"][len(items["bhdr"]) // 2]))
    S6.collect_models(ctx, futs, expect_violation=neg)
    S6.collect_models(ctx, nfuts, expect_violation=["MCStarveNoteStuck", "MCStarveStopLazy", "MCStarveLazy"])
    ctx.extra["layers"] = {
        "spec_decidable": "status-code sets (StarveDoc.Documented), internal codes never escape, BUF_ERROR liveness and bound: "
                          "model-checked on Starve.tla and required of every recorded call / parser call by TraceSlicing.tla",
        "observed_not_proved": "memory safety, undefined behaviour, assertions, termination (watchdog) and allocator balance are OBSERVED "
                               "under ASan+UBSan on the inputs generated from the specifications (grammar items, glue-built valid / "
                               "single-violation / mutated / truncated files, memory limits tiny/exact/exact-1/ample, slicings); "
                               "nothing is claimed about inputs that were not generated"}
    ctx.assumptions += ["memory safety is observed on spec-generated inputs under sanitizers, not proved",
                        "deadlock freedom of the threaded decoder is observed through the watchdog only (systematic schedules: C07)",
                        "uninitialised reads are only caught where they influence UBSan/ASan-visible behaviour (no MSan build)"]
    return ctx.finish(rule="evaluations = decoder runs (subject x plan, each with starvation tail) + stateless parser calls on grammar items; "
                      "distinct by (entry, input, limits, plan)", trusted=["TLC", "harness/glue (input generation only)", "gcc ASan/UBSan", "ctypes driver"])
