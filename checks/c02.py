"""C02 - encoder output is a valid, truthful instance of the published formats; bound functions suffice.

(M) MCBound: the transcription of lzma2_bound / lzma_block_buffer_bound64 / lzma_stream_buffer_bound and of the
    control flow of the single-call encoders satisfies "out_size >= bound => no LZMA_BUF_ERROR, no overrun" and the
    bound dominates the format's worst case, for size classes around every boundary (MCBoundBroken: a bound that
    forgets one chunk header violates it).  MCEncLzma2: chunk rules (shared with C01).
(G) GenEncConfig: the same TLC-generated configuration plans as C01; GenBound: size classes for the bound sweep.
(V) every .xz / .lzma / raw LZMA2 output of the real encoders is parsed by the independent glue parser; its field
    events are judged by TraceEncXzFile (EncXzFile.tla: every size field, padding, CRC32, Check, Index Record,
    Backward Size, Stream Flags, filter flags, LZMA2 dictionary byte, .lzma header), the LZMA2 chunks by
    TraceEncLzma2 (stored chunk sizes = measured, control bytes, props byte, max distance <= dictionary).
    The judge itself is shown not to be vacuous: crafted files with one wrong field each must be rejected at that field.
(R) bound sweep: lzma_{block,stream,easy}_buffer_encode with out_size = bound(n) + slack, incompressible and
    compressible data, every Check; return code, bytes written and the bound value must be behaviours of Bound.tla
    (TraceBound).
"""
import ctypes as C, json, os, random, time
from lib import tlc, build, tracev
from lib.ctx import MachineryError
from checks.c11 import plans_from_tlc
from checks import c01
from harness.enc import cases, encrun as E
from harness.pydrv import lz
from harness.glue import xz as gxz

C02_ENTRIES = E.XZ_ENTRIES + ("alone", "raw2", "raw_buffer")

def model_check_runs():
    out = []
    r = tlc.run("MCBound", workers=3, timeout=900)
    out.append(("MCBound", r, "mc"))
    b = tlc.run("MCBound", cfg="MCBoundBroken.cfg", workers=1, timeout=300)
    out.append(("MCBoundBroken(expected violation)", b, "broken:*"))
    r = tlc.run("MCEncLzma2", cfg="MCEncLzma2.cfg", workers=3, timeout=900)
    out.append(("MCEncLzma2", r, "mc"))
    return out

# ------------------------------------------------------------------------------------------- judge non-vacuity
def judge_selftest(ctx):
    """Files built by the glue writer with ONE untruthful field each: TraceEncXzFile must reject at that field."""
    data = bytes(range(200)) * 3
    base_cfg = dict(fmt="xz", id="selftest", inlen=len(data), indig=E.dig(data), dict=1 << 20, check=1, lc=3, lp=0, pb=2,
                    nfilters=1, fids=[0x21], fpsizes=[1], fprops=[""], entry="stream")
    def blk(**kw):
        return dict(dict(uncompressed=data, dict_size=1 << 20), **kw)
    faults = [
        ("backward_size", dict(check=1, blocks=[blk()], footer=dict(backward_size=3)), "footer.backward_size"),
        ("index_record_unpadded", dict(check=1, blocks=[blk(index_unpadded=700)]), "index.r0.unpadded"),
        ("index_record_uncompressed", dict(check=1, blocks=[blk(index_uncompressed=599)]), "index.r0.uncompressed"),
        ("index_padding_nonzero", dict(check=1, blocks=[blk()], index=dict(padding=b"\x00\x01")), "index.padding"),
        ("block_padding_nonzero", dict(check=1, blocks=[blk(padding=b"\x01\x00\x00")]), "b0.padding"),
        ("footer_flags", dict(check=1, blocks=[blk()], footer=dict(flags=b"\x00\x04")), "footer.flags"),
        ("check_value", dict(check=1, blocks=[blk(check=b"\x00\x00\x00\x00")]), "b0.check"),
        ("check_type", dict(check=4, blocks=[blk()]), "header.flags"),
        ("dict_not_minimal", dict(check=1, blocks=[blk(filters=[(0x21, bytes([20]))])]), "b0.header.f0.props"),
        ("index_count", dict(check=1, blocks=[blk()], index=dict(count=2)), "index.count"),
        ("stream_header_crc", dict(check=1, blocks=[blk()], header=dict(crc32=0x12345678)), "header.crc32"),
        ("index_crc", dict(check=1, blocks=[blk()], index=dict(crc32=1)), "index.crc32"),
        ("stream_magic", dict(check=1, blocks=[blk()], header=dict(magic=b"\xfd7zXZ\x01")), "header.magic"),
        ("footer_magic", dict(check=1, blocks=[blk()], footer=dict(magic=b"ZY")), "footer.magic"),
        ("two_blocks_swapped_records", dict(check=1, blocks=[blk(), dict(uncompressed=b"abc" * 50, dict_size=1 << 20)],
                                            index=dict(records=[(176, 150), (0, 0)])), "index.r0.unpadded"),
    ]
    ok_file, _ = gxz.build([dict(check=1, blocks=[blk()])])
    events = []
    P = gxz.parse(ok_file, collect='stats')
    events += [dict(base_cfg, e="Reset", flen=len(ok_file), id="valid")] + E.field_events(P, ok_file)
    for name, st, where in faults:
        try:
            fb, fm = gxz.build([st])
        except Exception as x:
            raise MachineryError("glue writer refused selftest fault %s: %r" % (name, x))
        P = gxz.parse(fb, collect='stats')
        evs = E.field_events(P, fb)
        cut = [k for k, e in enumerate(evs) if e.get("n") == "s0." + where]
        if not cut:
            raise MachineryError("selftest fault %s: the parser produced no event for %s (%s)" % (name, where, P.verdict))
        evs = evs[:cut[0] + 1]
        evs[-1]["bad"] = True
        events += [dict(base_cfg, e="Reset", flen=len(fb), id=name)] + evs
    path = os.path.join(ctx.workdir, "judge_selftest.ndjson")
    with open(path, "w") as f:
        for e in events:
            f.write(json.dumps(e) + "\n")
    ok, depth, r = tlc.validate_trace("TraceEncXzFileNeg", path, timeout=300)
    ctx.tlc_runs.append(dict(name="judge-selftest", **r.summary()))
    if r.error:
        raise MachineryError("judge selftest: %s\n%s" % (r.error, r.out[-2000:]))
    if not ok:
        bad = events[min(depth - 1, len(events) - 1)]
        raise MachineryError("judge selftest failed at event %d (%s): either the judge rejects a truthful field or it accepts "
                             "the untruthful one" % (depth, json.dumps(bad)[:400]))
    ctx.extra["judge_selftest"] = "%d single-fault files, each rejected exactly at the untruthful field" % len(faults)
    ctx.log("judge selftest:", ctx.extra["judge_selftest"])

# ------------------------------------------------------------------------------------------- bound sweep
FSZ = {"lzma2": 3, "delta": 6, "x86": 5, "arm64delta": 8}

def bound_sweep(ctx):
    g = tlc.run("GenBound", workers=1, timeout=300)
    ctx.add_tlc("GenBound", g, exhaustive=True)
    seen = set(); plans = []
    for p in plans_from_tlc(g.out):
        k = json.dumps(p, sort_keys=True)
        if k not in seen:
            seen.add(k); plans.append(p)
    if len(plans) < 500:
        raise MachineryError("GenBound produced only %d plans" % len(plans))
    rng = ctx.rng
    lz.load(build.lib("plain")["so"])
    L = lz.L()
    chains = ["lzma2", "delta", "x86", "arm64delta"]
    events = []
    big_budget = 12 if ctx.quick else 10 ** 9
    rng.shuffle(plans)
    datacache = {}
    t0 = time.time()
    for pi, p in enumerate(plans):
        n = p["n"]
        if n > 300000:
            if big_budget <= 0:
                continue
            big_budget -= 1
        elif ctx.quick and n > 20000 and pi % 3:
            continue
        kind = p["kind"]
        chain = "lzma2" if kind == "easy" else chains[pi % 4]
        dk = "rand" if (pi % 4 != 3 or (ctx.quick and n > 300000)) else ("text" if pi % 8 == 3 else "mixed")
        key = (dk, n)
        if key not in datacache:
            if len(datacache) > 6:
                datacache.clear()
            datacache[key] = E.gen_input(dk, n, random.Random(n * 7 + len(dk)))
        data = datacache[key]
        plan = dict(entry={"block": "block_buffer", "stream": "stream_buffer", "easy": "easy_buffer"}[kind], preset=pi % 2,
                    extreme=False, lclppb="dflt", mf="dflt", mode="dflt", nice="dflt", depth="dflt", dict="65536", pdict=False,
                    check=p["chk"], chain=chain)
        info = E.resolve(plan)
        bfn = L.lzma_block_buffer_bound if kind == "block" else L.lzma_stream_buffer_bound
        bound = bfn(n)
        osz = bound + p["slack"]
        ob = lz.Buf(osz); ib = lz.Buf(n, data); pos = C.c_size_t(0)
        if kind == "block":
            b = lz.Block(); b.version = 1; b.check = p["chk"]; b.filters = C.cast(info["filters"], C.POINTER(lz.Filter))
            ret = L.lzma_block_buffer_encode(C.byref(b), None, ib.addr, n, ob.addr, C.byref(pos), osz)
        elif kind == "stream":
            ret = L.lzma_stream_buffer_encode(info["filters"], p["chk"], None, ib.addr, n, ob.addr, C.byref(pos), osz)
        else:
            ret = L.lzma_easy_buffer_encode(info["preset32"], p["chk"], None, ib.addr, n, ob.addr, C.byref(pos), osz)
        if not (ob.guards_ok() and ib.guards_ok()):
            ctx.violation("bound:overrun:%s" % kind, "single-call encoder wrote outside its output buffer (n=%d out_size=%d)" % (n, osz),
                          dict(kind="bound", plan=p))
        out = ob.data(pos.value)
        comp, fallback = -1, False
        if ret == lz.OK and (n > 0 or kind == "block"):
            try:
                if kind == "block":
                    hinfo, _ = gxz.parse_block_header(out, 0, {0: 0, 1: 4, 4: 8, 10: 32}[p["chk"]])
                else:
                    P = gxz.parse(out, collect=None)
                    if P.verdict != "ok":
                        raise ValueError(P.verdict)
                    hinfo = P.streams[0]["blocks"][0]
                fallback = (len(hinfo["filters"]) == 1 and hinfo["filters"][0][1] == b"\x00")
                comp = -1 if fallback else hinfo["compressed_size"]
                if comp is None:
                    comp = -2
            except Exception as x:
                ctx.violation("bound:unparsable:%s" % kind, "output of the single-call encoder is not parsable: %r" % (x,),
                              dict(kind="bound", plan=p))
                continue
        ev = {"e": "Call", "kind": "block" if kind == "block" else "stream", "api": kind, "n": n, "chk": p["chk"],
              "fsz": 3 if kind == "easy" else FSZ[chain], "osz": osz, "bound": bound, "model_bound": p["bound"],
              "ret": lz.retname(ret), "total": pos.value, "comp": comp, "fallback": fallback, "slack": p["slack"], "data": dk}
        events.append(ev)
        ctx.case(key=("bound", kind, n, p["chk"], p["slack"], chain, dk), nontrivial=n > 0)
    ctx.log("bound sweep: %d single-call encoder calls in %.1fs" % (len(events), time.time() - t0))
    ctx.sample(dict(kind="bound_call", event=events[len(events) // 2]))
    # every call is its own "execution" for the batch validator: TraceBound has no Reset, so validate in one go and
    # report per offending event
    hs = [("bound:%s:n=%d:slack=%d" % (e["api"], e["n"], e["slack"]), [e]) for e in events]
    rej = tracev.validate(ctx, "TraceBound", hs,
                          lambda label, e, i: "bound:%s:%s:%s" % (e.get("api"), e.get("ret"), "slack%+d" % e.get("slack", 0)),
                          max_rounds=8, timeout=600)
    ctx.extra["bound_calls"] = len(events)

def run(ctx):
    judge_selftest(ctx)
    plans = c01.gen_plans(ctx, [0] if ctx.quick else [0] + [ctx.seed * 100 + k for k in range(1, 6)])
    allplans = plans
    plans = [p for p in plans if p["entry"] in C02_ENTRIES]
    ctx.log("plans from TLC for C02 entries: %d" % len(plans))
    build.lib("asan"); build.lib("plain")
    jobs = c01.build_jobs(ctx, plans, {"lz", "file"}, sweeps=False)
    # Index Padding 2 and 3 with every multi-call Index producer, 1-byte grants / a grant ending inside the padding
    for plan, inp in cases.padding_jobs(plans + allplans):
        jobs.append(dict(idx=len(jobs), plan=plan, inp=inp, seed=ctx.rng.randrange(1 << 30), variant="asan",
                         want={"lz", "file"}, quick=ctx.quick))
    for j in jobs:
        j["mode"] = "agg"
    order = sorted(range(len(jobs)), key=lambda k: -jobs[k]["inp"]["n"])
    t = time.time()
    mc = c01.Background(model_check_runs)                       # (M) runs overlap with the case execution
    results = cases.run_all([jobs[k] for k in order], procs=4 if ctx.quick else 6, workdir=ctx.workdir, log=ctx.log)
    ctx.log("executed %d cases in %.1fs" % (len(results), time.time() - t))
    c01.model_check_apply(ctx, mc.result())
    files, l2 = [], []
    for r in results:
        for key, detail in r["errors"]:
            if key == "machinery":
                raise MachineryError(detail)
            ctx.violation(key, detail, dict(kind="case", plan=r["plan"], inp=r["inp"]))
        ctx.case(key=("case", json.dumps(r["plan"], sort_keys=True), json.dumps(r["inp"], sort_keys=True)),
                 nontrivial=r["inp"]["n"] > 0)
        if r["file"]:
            files.append(r["file"])
        for label, fmt, evs in r["lz"]:
            if fmt == "lzma2":
                l2.append((label, evs))
    def fkey2(label, e, i):
        nm = e.get("n")
        if e.get("e") == "F" and nm:
            import re
            nm = re.sub(r"\d+", "", nm)       # s0.b3.header.size -> s.b.header.size
            return "file:%s:%s" % (label.split(",")[0], nm)
        return "file:%s:%s" % (label.split(",")[0], e.get("e"))
    t = time.time()
    rej = tracev.validate(ctx, "TraceEncXzFile", files, fkey2, timeout=1500)
    ctx.log("TraceEncXzFile: %d files, %d field events, rejected=%d (%.1fs)" % (len(files), sum(len(e) for _, e in files), rej, time.time() - t))
    t = time.time()
    rej = tracev.validate(ctx, "TraceEncLzma2", l2, c01.key_of, timeout=1500)
    ctx.log("TraceEncLzma2: %d LZMA2 streams, %d events, rejected=%d (%.1fs)" % (len(l2), sum(len(e) for _, e in l2), rej, time.time() - t))
    for label, evs in files:
        if 20 < len(evs) < 45:
            ctx.sample(dict(kind="file_fields", label=label, events=evs), limit=2)
            break
    bound_sweep(ctx)
    ctx.assumptions += ["the glue parser/decoder (harness/glue) reports the fields and symbols that are in the bytes; reference CRC32/CRC64/"
                        "SHA-256 values come from the glue's own table-driven code (hashlib for SHA-256)",
                        "sizes in the bound model stay below 2^31; the COMPRESSED_SIZE_MAX overflow guards are out of range"]
    return ctx.finish(rule="evaluations = (TLC-generated configuration plan x input class) files judged field by field by TraceEncXzFile "
                      "and chunk by chunk by TraceEncLzma2, plus single-call encoder calls at bound(n)+slack judged by TraceBound; "
                      "distinct by plan+input resp. call parameters; non-trivial = non-empty input",
                      trusted=["TLC", "harness/glue parser and decoders", "gcc ASan/UBSan", "ctypes driver"])
