"""C03 - decoders accept exactly the valid streams and decode them as specified.

Three layered TLA+ models, each checked (M) against a declarative definition of the format and bound (G/R) to
the real decoders by replaying TLC-generated abstract objects, serialised by the independent glue library:

  Lz.tla            LZ symbols: unbounded-history definition vs the circular buffer of lz_decoder.[ch]
                    (MCLz: equivalence incl. the named relaxation RelaxedDictAccept; GenLz / EvalLzDict -> raw LZMA2,
                    raw LZMA1, .lzma decoders)
  Lzma2.tla         chunk control-byte machine of lzma2_decoder.c vs L2Valid (MCLzma2; GenLzma2 -> lzma_raw_decoder)
  XzStreamDec.tla   stream_decoder.c + block_header_decoder.c + filter chain rules + block_decoder.c + index_hash.c +
                    stream_flags_decoder.c vs XzFormat.tla (MCXzStreamDec over XzSpace; Gen -> lzma_stream_decoder,
                    lzma_stream_buffer_decode, lzma_stream_decoder_mt(2), lzma_block_decoder, lzma_raw_decoder)
(V) every .xz file of tests/files: liblzma's verdict AND decoded bytes vs glue.xz.parse; the files glue can describe
    field by field are lifted to abstract files and judged by the model (EvalXz).
"""
import json, os, random, collections, concurrent.futures, struct, glob
from lib import tlc, build
from lib.ctx import MachineryError

HERE = os.path.dirname(os.path.dirname(os.path.abspath(__file__)))

def plans_from_tlc(out):
    plans = []
    for line in out.splitlines():
        if line.startswith('<<"PLAN", "'):
            js = line[len('<<"PLAN", "'):-3]
            plans.append(json.loads(js.encode().decode("unicode_escape")))
    return plans

def run_tlc_jobs(ctx, jobs, par=4):
    """jobs: [(name, kwargs for tlc.run)] run concurrently; returns {name: TlcResult}"""
    res = {}
    with concurrent.futures.ThreadPoolExecutor(par) as ex:
        futs = {ex.submit(tlc.run, **kw): name for name, kw in jobs}
        for f in concurrent.futures.as_completed(futs):
            res[futs[f]] = f.result()
    return res

# ---------------------------------------------------------------------------------------------- workers
def run_phase(ctx, phase, args, nitems, so, shards=1, catseed=0, timeout=1500, pid="c03", module="harness.pydrv.c03phases"):
    """Run a replay phase in `shards` worker processes.  A worker that dies (sanitizer report, assertion, signal) is a
    finding: violation crash:<phase>:<what>; the shard is restarted after the item that was being executed."""
    import subprocess, sys, re
    env = build.asan_env(); env["PYTHONPATH"] = HERE
    env["ASAN_OPTIONS"] = env.get("ASAN_OPTIONS", "") + ":detect_leaks=0"
    for k in ("VERIF_REPO", "VERIF_BUILD"):
        if k in os.environ:
            env[k] = os.environ[k]
    def shard_args(k):
        """split every list argument named in SHARDED round-robin is not possible (indices matter): contiguous slices"""
        return args(k, shards) if callable(args) else args
    procs = []
    for k in range(shards):
        a = shard_args(k)
        jobp = os.path.join(ctx.workdir, "%s.%s.%d.job.json" % (pid, phase, k))
        outp = os.path.join(ctx.workdir, "%s.%s.%d.out.jsonl" % (pid, phase, k))
        job = dict(phase=phase, args=a, seed=ctx.seed, quick=ctx.quick, so=so, catseed=catseed, start=0)
        json.dump(job, open(jobp, "w"))
        open(outp, "w").close()
        p = subprocess.Popen([sys.executable, "-m", module, jobp, outp], cwd=HERE, env=env, stdout=subprocess.PIPE, stderr=subprocess.STDOUT, text=True)
        procs.append([p, jobp, outp, job, 0])
    total = 0
    crashes = 0
    while procs:
        p, jobp, outp, job, restarts = procs.pop(0)
        try:
            out, _ = p.communicate(timeout=timeout)
        except subprocess.TimeoutExpired:
            p.kill(); out, _ = p.communicate(); out += "\n(worker timeout)"
        begun = None; done = None
        for line in open(outp):
            try:
                d = json.loads(line)
            except ValueError:
                continue
            e = d.get("e")
            if e == "begin":
                begun = d
            elif e == "violation":
                ctx.violation(d["key"], d["detail"], d.get("replay"))
            elif e == "case":
                ctx.case(key=d["key"])
            elif e == "sample":
                ctx.sample(d["obj"])
            elif e == "traces":
                ctx.add_traces(d["n"])
            elif e == "note":
                ctx.notes.append(d["msg"])
            elif e == "log":
                ctx.log(d["msg"])
            elif e == "done":
                done = d["n"]
            else:
                ctx.__dict__.setdefault("_events", []).append(d)
        if p.returncode == 77:
            raise MachineryError("%s worker: harness error\n%s" % (phase, out[-3000:]))
        if done is not None and p.returncode == 0:
            total += done
            continue
        # the worker died
        crashes += 1
        what = "unknown"
        m = re.search(r"SUMMARY: (\w+): ([\w-]+)(?: [^\n]* in (\w+))?", out)
        if m:
            what = "%s:%s" % (m.group(2), m.group(3) or "")
        m2 = re.search(r"(\w+\.[ch]):\d+: (\w+): Assertion", out)
        if m2:
            what = "assert:%s" % m2.group(2)
        m3 = re.search(r"runtime error: ([^\n]{0,80})", out)
        if m3 and not m:
            what = "ubsan:" + re.sub(r"[^a-z]+", "-", m3.group(1).lower())[:40]
        if "worker timeout" in out:
            what = "hang"
        if begun is None and p.returncode not in (-6, -11, 134, 139, 1) and "Sanitizer" not in out and not m2:
            raise MachineryError("%s worker failed before the first item (rc %s)\n%s" % (phase, p.returncode, out[-3000:]))
        if "Traceback (most recent call last)" in out and "Sanitizer" not in out and not m2:
            raise MachineryError("%s worker: python error\n%s" % (phase, out[-3000:]))
        ckey = "crash:%s:%s" % (phase, what)
        if ckey not in [v["key"] for v in ctx.violations]:
          ctx.violation(ckey, "the library crashed / did not return while executing %s\n%s" % (
            json.dumps(begun.get("desc") if begun else None)[:1500], out[-2500:]), dict(kind="crash", phase=phase, item=begun))
        if begun is not None and restarts < 6:
            job["start"] = begun["i"] + 1
            json.dump(job, open(jobp, "w"))
            open(outp, "w").close()
            p2 = subprocess.Popen([sys.executable, "-m", module, jobp, outp], cwd=HERE, env=env, stdout=subprocess.PIPE, stderr=subprocess.STDOUT, text=True)
            procs.append([p2, jobp, outp, job, restarts + 1])
    return total

def probe_buffer_api(ctx, D, so):
    """lzma_stream_buffer_decode on a truncated file, in a child process (regression probe for a repaired defect)."""
    kind, what = D.probe_buffer_decode_truncated(so, HERE)
    if kind == 'abort':
        ctx.violation("crash:assert:stream_buffer_decode:truncated",
                      "lzma_stream_buffer_decode() on a truncated .xz file does not return (assertion / crash): " + what,
                      dict(kind="probe", what="lzma_stream_buffer_decode(first len-7 bytes of a valid file)"))
    elif what != "DATA_ERROR":
        ctx.violation("buffer_decode:truncated:ret:" + what, "lzma_stream_buffer_decode() on a truncated file returned %s, model (BufferDecodeRet) LZMA_DATA_ERROR" % what,
                      dict(kind="probe"))

def slices(items, k, shards):
    n = len(items)
    a = n * k // shards; b = n * (k + 1) // shards
    return items[a:b], a

# ---------------------------------------------------------------------------------------------- run
def run(ctx):
    from harness.pydrv import c03drv as D
    L = build.lib("asan")
    quick = ctx.quick
    cat = D.build_catalogue(ctx.seed)
    catp = os.path.join(ctx.workdir, "c03cat.json")
    open(catp, "w").write(D.catalogue_json(cat))
    env = {"C03CAT": catp}
    prof = "quick" if quick else "thorough"
    def cfg_variant(base, name, subst):
        txt = open(os.path.join(tlc.SPEC, base)).read()
        for a, b in subst:
            if a not in txt:
                raise MachineryError("cfg %s lacks %r" % (base, a))
            txt = txt.replace(a, b)
        p = os.path.join(tlc.SPEC, name)
        if not os.path.exists(p) or open(p).read() != txt:
            open(p, "w").write(txt)
        return name
    jobs = [
        ("MCLz", dict(module="MCLz", cfg="MCLzQuick.cfg" if quick else "MCLz.cfg", workers=4, timeout=1500)),
        ("MCLzma2", dict(module="MCLzma2", cfg="MCLzma2Quick.cfg" if quick else "MCLzma2.cfg", workers=2, timeout=900)),
        ("MCXzStreamDec", dict(module="MCXzStreamDec", cfg="MCXzStreamDec.cfg" if quick else "MCXzStreamDecT.cfg", workers=4, timeout=1500, env=env)),
        ("GenXzStreamDec", dict(module="MCXzStreamDec", cfg="GenXzStreamDec.cfg" if quick else "GenXzStreamDecT.cfg", workers=1, timeout=1500, env=env)),
        ("GenLz", dict(module="GenLz", cfg="GenLz.cfg" if quick else "GenLzT.cfg", workers=1, timeout=900)),
        ("GenLzRaw", dict(module="GenLz", cfg="GenLzRaw.cfg", workers=1, timeout=900)),
        ("MCVli", dict(module="Vli", cfg="MCVli.cfg", workers=2, timeout=600)),
        ("GenVli", dict(module="Vli", cfg="GenVli.cfg", workers=1, timeout=600)),
        ("EvalLzDict", dict(module="EvalLzDict", workers=1, timeout=300)),
        ("GenLzma2", dict(module="MCLzma2", cfg="GenLzma2.cfg" if quick else "GenLzma2T.cfg", workers=1, timeout=900)),
    ]
    broken = [("MCLz", "MCLzVar_dist_off_by_one.cfg", {}), ("MCLz", "MCLzVar_no_wrap_correction.cfg", {}), ("MCLz", "MCLzVar_reset_keeps_wrapped.cfg", {}), ("Vli", "MCVliVar_call_local_pos.cfg", {}),
              ("MCLzma2", "MCLzma2Var_no_need_props.cfg", {}), ("MCLzma2", "MCLzma2Var_no_need_dict.cfg", {}),
              ("MCXzStreamDec", "MCXzStreamDecVar_no_flags_compare.cfg", env), ("MCXzStreamDec", "MCXzStreamDecVar_index_sums_only.cfg", env),
              ("MCXzStreamDec", "MCXzStreamDecVar_size_valid_misuse.cfg", env)]
    broken.append(("MCLzma2", "MCLzma2Var_unc_keeps_props.cfg", {}))     # needs 4 chunks to show
    for mod, cfg, e in broken:
        jobs.append(("broken:" + cfg, dict(module=mod, cfg=cfg, workers=2, timeout=900, env=e)))
    # (V) lift tests/files into abstract files for the model (pure Python, glue only)
    from harness.pydrv import c03lift as LF
    repo = os.environ.get("VERIF_REPO", "/repo")
    files = sorted(glob.glob(os.path.join(repo, "tests", "files", "*.xz")))
    lifted = []
    for path in files:
        data = open(path, "rb").read()
        try:
            af, limit, outs, g = LF.lift(data)
        except LF.CannotLift as e:
            ctx.notes.append("tests/files/%s: not lifted into the model (%s)" % (os.path.basename(path), e))
            continue
        lifted.append((os.path.basename(path), dict(file=af, limit=len(data))))
    lp = os.path.join(ctx.workdir, "c03files.json")
    open(lp, "w").write("\n".join(json.dumps(e) for _, e in lifted) + "\n")
    jobs.append(("EvalXz", dict(module="EvalXz", workers=1, timeout=600, env=dict(env, C03FILES=lp))))
    ctx.log("running %d TLC jobs" % len(jobs))
    res = run_tlc_jobs(ctx, jobs, par=5)
    for name, r in res.items():
        if name.startswith("broken:"):
            # a deliberately broken copy of the model MUST violate the contract (non-vacuity)
            if r.error:
                raise MachineryError("TLC %s: %s\n%s" % (name, r.error, r.out[-2000:]))
            if not r.violation:
                raise MachineryError("broken model %s does not violate any invariant: the contract is vacuous" % name)
            ctx.tlc_runs.append(dict(name=name, expected_violation=r.violation, **r.summary()))
            continue
        ctx.add_tlc(name, r, exhaustive=True)
        if r.violation:
            ctx.violation("model:%s:%s" % (name, r.violation), r.out[-4000:], dict(kind="tlc_counterexample", run=name))
        ctx.log(name, r.summary())
    # ---- replay (worker processes)
    so = L["so"]
    pk = plans_from_tlc(res["GenLz"].out); pr = plans_from_tlc(res["GenLzRaw"].out); rows = plans_from_tlc(res["EvalLzDict"].out)
    if len(pk) < 1000 or len(pr) < 100 or len(rows) < 300:
        raise MachineryError("Lz plan generation produced too little: %d %d %d" % (len(pk), len(pr), len(rows)))
    if quick:
        # every path of <= 2 symbols, a seeded sample of the longer ones
        short = [p for p in pk if len(p['syms']) <= 2]
        longp = [p for p in pk if len(p['syms']) > 2]
        ctx.rng.shuffle(longp)
        pk = short + longp[:3000]
    NS = 4 if quick else 6
    def lz_args(k, shards):
        return dict(known=slices(pk, k, shards)[0], raw=slices(pr, k, shards)[0], rows=slices(rows, k, shards)[0])
    n = run_phase(ctx, "lz", lz_args, None, so, shards=NS)
    ctx.log("Lz: %d executions on %d symbol sequences + %d table rows (LZMA2 chunks, raw LZMA1, .lzma; one-shot and byte-wise)" % (n, len(pk) + len(pr), len(rows)))
    vb = {}
    for p in plans_from_tlc(res["GenVli"].out):
        vb.setdefault(json.dumps(p['buf']), p)
    vbufs = list(vb.values())
    if len(vbufs) < 1000:
        raise MachineryError("VLI plan generation produced only %d buffers" % len(vbufs))
    nvli = run_phase(ctx, "vli", lambda k, sh: dict(bufs=slices(vbufs, k, sh)[0]), None, so, shards=2)
    ctx.log("Vli: %d executions of lzma_vli_decode on %d byte strings (single-call; multi-call byte-wise and cut in two everywhere)" % (nvli, len(vbufs)))
    l2 = plans_from_tlc(res["GenLzma2"].out)
    if len(l2) < 400:
        raise MachineryError("LZMA2 plan generation produced only %d plans" % len(l2))
    uniq = collections.OrderedDict()
    for p in l2:
        seen = p['chunks'][:p['nseen']]
        key = json.dumps(seen)
        if key not in uniq:
            uniq[key] = dict(chunks=seen, ret=p['ret'], out=p['out'])
    items = list(uniq.values())
    n2 = run_phase(ctx, "lzma2", lambda k, sh: dict(items=slices(items, k, sh)[0]), None, so, shards=2)
    ctx.log("Lzma2: %d executions of %d distinct chunk sequences" % (n2, len(items)))
    xp = plans_from_tlc(res["GenXzStreamDec"].out)
    if len(xp) < 1000:
        raise MachineryError("container plan generation produced only %d plans" % len(xp))
    groups = collections.OrderedDict()
    for p in xp:
        k = json.dumps([p['file'], p['flags']], sort_keys=True)
        g = groups.get(k)
        if g is None:
            g = groups[k] = dict(p, rets=[])
        if p['ret'] not in g['rets']:
            g['rets'].append(p['ret'])
    glist = list(groups.values())
    # non-vacuity of the generated space: every decoder state is a stopping place, every documented code is predicted
    seqs = set(g['seq'] for g in glist); codes = set(r for g in glist for r in g['rets'])
    need_seqs = {"STREAM_HEADER", "BLOCK_INIT", "BLOCK_CODE", "BLOCK_PADDING", "BLOCK_CHECK", "INDEX", "STREAM_FOOTER", "STREAM_PADDING"}
    if not need_seqs <= seqs or not {"STREAM_END", "FORMAT_ERROR", "OPTIONS_ERROR", "DATA_ERROR"} <= codes:
        raise MachineryError("generated files do not stop in every decoder state / with every code: %s %s" % (sorted(seqs), sorted(codes)))
    ctx.extra["model_stop_states"] = sorted(seqs); ctx.extra["model_codes"] = sorted(codes)
    def xz_args(k, shards):
        part, base = slices(glist, k, shards)
        return dict(groups=part, base=base)
    n3 = run_phase(ctx, "xz", xz_args, None, so, shards=NS, catseed=ctx.seed)
    ctx.log("Xz: %d executions on %d (abstract file, flags) plans" % (n3, len(glist)))
    ctx.add_traces(len(glist) + len(items))
    probe_buffer_api(ctx, D, so)
    ep = plans_from_tlc(res["EvalXz"].out)
    bykey = {}
    for p in ep:
        bykey.setdefault(json.dumps([p['file'], p['limit']], sort_keys=True), []).append(p)
    model = {}
    for name, e in lifted:
        ps = bykey.get(json.dumps([e['file'], e['limit']], sort_keys=True))
        if not ps:
            raise MachineryError("EvalXz printed no verdict for the lifted %s" % name)
        good = [p for p in ps if p['ret'] == "STREAM_END"]
        model[name] = dict(rets=sorted(set(p['ret'] for p in ps)), out=(good[0]['out'] if good else []), pos=(good[0]['pos'] if good else 0), size=ps[0]['size'])
    nv = run_phase(ctx, "testfiles", dict(files=files, model=model), None, so, shards=1)
    ctx.log("tests/files: %d executions on %d .xz files (verdict and decoded bytes vs the independent judge; %d files lifted and judged by the decoder model)" % (nv, len(files), len(model)))
    ctx.extra["executions"] = n + n2 + n3 + nv + nvli
    ctx.evaluations = n + n2 + n3 + nv + nvli
    ctx.sample(dict(kind="lz_plan", plan=pk[len(pk) // 2]))
    ctx.sample(dict(kind="lzma2_plan", plan=items[len(items) // 3]))
    ctx.assumptions += [
        "CRC32 / CRC64 / SHA-256 detect every modelled difference (a stored value over changed bytes never matches)",
        "the glue library (harness/glue, written from the format documents, closure-tested) serialises abstract objects faithfully",
        "Block data in abstract files comes from a catalogue of %d LZMA2 chunk sequences; symbol-level variety is covered by the Lz layer" % len(cat),
        "documented relaxation: lz_decoder.c raises the dictionary to 4096 bytes / a multiple of 16 (RelaxedDictAccept in Lz.tla)"]
    return ctx.finish(rule="evaluations = executions of real decoders on TLC-generated abstract objects (symbol sequences, chunk sequences, "
                      "abstract .xz files x flags x entry point) plus tests/files; distinct by abstract object and entry point",
                      trusted=["TLC", "harness/glue (independent codecs)", "gcc ASan/UBSan", "ctypes driver"])
