"""C03 - decoders accept exactly the valid streams and decode them as specified.

Three layered TLA+ models, each checked (M) against a declarative definition of the format and bound (G/R) to
the real decoders by replaying TLC-generated abstract objects, serialised by the independent glue library:

  Lz.tla            LZ symbols: unbounded-history definition vs the circular buffer of lz_decoder.[ch]
                    (MCLz: equivalence incl. the named relaxation RelaxedDictAccept; GenLz / EvalLzDict -> raw LZMA2,
                    raw LZMA1, .lzma decoders)
  Lzma2.tla         chunk control-byte machine of lzma2_decoder.c vs L2Valid (MCLzma2; GenLzma2 -> lzma_raw_decoder)
  XzStreamDec.tla   stream_decoder.c + block_header_decoder.c + filter chain rules + block_decoder.c + index_hash.c +
                    stream_flags_decoder.c vs XzFormat.tla (MCXzStreamDec over XzSpace; Gen -> lzma_stream_decoder,
                    lzma_stream_buffer_decode, lzma_stream_decoder_mt(2), lzma_block_decoder, lzma_raw_decoder)
(V) every .xz file of tests/files: liblzma's verdict AND decoded bytes vs glue.xz.parse; the files glue can describe
    field by field are lifted to abstract files and judged by the model (EvalXz).
"""
import json, os, random, collections, concurrent.futures, struct, glob
from lib import tlc, build
from lib.ctx import MachineryError

HERE = os.path.dirname(os.path.dirname(os.path.abspath(__file__)))

def plans_from_tlc(out):
    plans = []
    for line in out.splitlines():
        if line.startswith('<<"PLAN", "'):
            js = line[len('<<"PLAN", "'):-3]
            plans.append(json.loads(js.encode().decode("unicode_escape")))
    return plans

def run_tlc_jobs(ctx, jobs, par=4):
    """jobs: [(name, kwargs for tlc.run)] run concurrently; returns {name: TlcResult}"""
    res = {}
    with concurrent.futures.ThreadPoolExecutor(par) as ex:
        futs = {ex.submit(tlc.run, **kw): name for name, kw in jobs}
        for f in concurrent.futures.as_completed(futs):
            res[futs[f]] = f.result()
    return res

# ---------------------------------------------------------------------------------------------- Lz layer
def replay_lz(ctx, D, lz, plans_known, plans_raw, dict_rows):
    n = 0
    seen = set()
    def viol(key, detail, obj):
        if key not in seen:
            seen.add(key)
            ctx.violation(key, detail, obj)
    vmap = {"run": "STREAM_END", "end": "STREAM_END", "dist": "DATA_ERROR", "size": "DATA_ERROR", "eopm": "DATA_ERROR"}
    for p in plans_known:
        if not p['syms']:
            continue
        # LZMA2 chunk(s): size known = sum of all symbols, marker forbidden
        data = D.lz_plan_to_lzma2(p)
        exp = bytes(D.BYTEMAP[b] for b in p['out'])
        pre = bytes([0x41, 0xFE, 0x41, 0xFE]) if p['ctx'] != 'fresh' else b""
        ret, out, _, _ = D.raw_decode([(lz.FILTER_LZMA2, D.lzma1_opts(4096))], data)
        want = vmap[p['v']]
        last = p['syms'][-1]['t']
        ctx.case(key=("lz2", p['ctx'], json.dumps(p['syms'])))
        n += 1
        if ret != want:
            viol("lz:ret:%s:%s:%s" % (p['ctx'], last, p['v']), "LZMA2 chunk %s: ret %s expected %s" % (p, ret, want), dict(kind="lz", plan=p, data=data.hex()))
        elif want == "STREAM_END" and out != pre + exp:
            viol("lz:out:%s:%s" % (p['ctx'], last), "LZMA2 chunk %s: output %s expected %s" % (p, out.hex(), (pre + exp).hex()), dict(kind="lz", plan=p, data=data.hex()))
        elif want != "STREAM_END" and not (pre + exp).startswith(out[:len(pre) + len(exp)]) and p['v'] != 'size':
            viol("lz:outprefix:%s:%s" % (p['ctx'], last), "LZMA2 chunk %s: output before the error %s" % (p, out.hex()), dict(kind="lz", plan=p))
    for p in plans_raw:
        # raw LZMA1, size unknown: must end with the marker
        syms = p['syms']
        has_eopm = bool(syms) and syms[-1]['t'] == 'eopm'
        data = D.lz_plan_to_lzma1(p, eopm=False)
        exp = bytes(D.BYTEMAP[b] for b in p['out'])
        ret, out, _, _ = D.raw_decode([(lz.FILTER_LZMA1, D.lzma1_opts(4096))], data)
        want = {"end": "STREAM_END", "run": "BUF_ERROR", "dist": "DATA_ERROR"}.get(p['v'], "DATA_ERROR")
        ctx.case(key=("lz1", json.dumps(syms)))
        n += 1
        if ret != want:
            viol("lz1:ret:%s:%s" % (syms[-1]['t'] if syms else "empty", p['v']), "raw LZMA1 %s: ret %s expected %s" % (p, ret, want), dict(kind="lz1", plan=p, data=data.hex()))
        elif want == "STREAM_END" and out != exp:
            viol("lz1:out", "raw LZMA1 %s: output %s expected %s" % (p, out.hex(), exp.hex()), dict(kind="lz1", plan=p))
    # dictionary-size boundary at the real constants (EvalLzDict)
    from harness.glue import lzma as glz, alone as galone
    for row in dict_rows:
        Dz, W, d = row['D'], row['W'], row['d']
        rng = random.Random(W * 7919 + d)
        lits = [('lit', rng.randrange(256)) for _ in range(W)]
        syms = lits + [('match', d, 2), ('eopm',)]
        data = glz.encode_symbols(syms, 3, 0, 2)
        want = "STREAM_END" if row['impl'] else "DATA_ERROR"
        hist = bytes(b for _, b in lits)
        exp = hist + (bytes([hist[W - 1 - d], hist[W - d] if d >= 1 else hist[W - 1]]) if row['impl'] and d < W else b"")
        if row['impl'] and d < W:
            h = bytearray(hist)
            for _ in range(2):
                h.append(h[len(h) - d - 1])
            exp = bytes(h)
        ret, out, _, _ = D.raw_decode([(lz.FILTER_LZMA1, D.lzma1_opts(Dz))], data, out_cap=1 << 15)
        ctx.case(key=("lzdict", Dz, W, d))
        n += 1
        cls = "relaxed" if row['relaxed'] else ("valid" if row['format'] else "invalid")
        if ret != want:
            viol("lzdict:ret:%s" % cls, "dict_size %d, %d bytes written, dist0 %d (%s): raw LZMA1 ret %s expected %s" % (Dz, W, d, cls, ret, want), dict(kind="lzdict", row=row))
        elif want == "STREAM_END" and out != exp:
            viol("lzdict:out:%s" % cls, "dict_size %d W %d d %d: wrong bytes copied" % (Dz, W, d), dict(kind="lzdict", row=row))
        # the same through the .lzma container (header dictionary size = D, unknown size, marker)
        if Dz >= 1:
            al = galone.build(symbols=syms[:-1], lc=3, lp=0, pb=2, dict_size=Dz, usize=None, eopm=True)
            c = lz.Coder()
            if c.init("lzma_alone_decoder", lz.UINT64_MAX) == lz.OK:
                r2, o2, _, _ = D.drive(c, al, out_cap=1 << 15)
                c.end()
                if r2 != want:
                    viol("lzdict:alone:ret:%s" % cls, "dict_size %d W %d d %d (%s): .lzma ret %s expected %s" % (Dz, W, d, cls, r2, want), dict(kind="lzdict", row=row))
                elif want == "STREAM_END" and o2 != exp:
                    viol("lzdict:alone:out:%s" % cls, ".lzma wrong bytes", dict(kind="lzdict", row=row))
                n += 1
    return n

# ---------------------------------------------------------------------------------------------- LZMA2 layer
def replay_lzma2(ctx, D, lz, plans, limit=None):
    """GenLzma2 plans -> raw LZMA2 decoder.  Plans that fail at chunk k are equivalent for chunks[:k]: dedupe."""
    uniq = {}
    for p in plans:
        seen = p['chunks'][:p['nseen']]
        key = json.dumps(seen)
        if key not in uniq:
            uniq[key] = dict(chunks=seen, ret=p['ret'], out=p['out'])
    items = list(uniq.values())
    if limit and len(items) > limit:
        ctx.rng.shuffle(items)
        # keep every accepted plan, sample the rejected ones
        acc = [x for x in items if x['ret'] == 'STREAM_END']
        rej = [x for x in items if x['ret'] != 'STREAM_END']
        items = acc + rej[:max(0, limit - len(acc))]
    n = 0
    seenk = set()
    for it in items:
        rng = random.Random(ctx.seed * 100003 + n)
        conc = D.concretise_chunks(it['chunks'], rng)
        tail = b"" if it['ret'] == 'STREAM_END' else bytes(rng.randrange(1, 256) for _ in range(24))
        want = {"STREAM_END": {"STREAM_END"}, "DATA_ERROR": {"DATA_ERROR"}, "DATA_OR_BUF": {"DATA_ERROR", "BUF_ERROR"},
                "run": {"BUF_ERROR"}}[it['ret']]
        data = conc['data'] + (tail if it['ret'] in ("DATA_ERROR", "DATA_OR_BUF") else b"")
        exp = b"".join(conc['outs'][i - 1] for i in it['out'])
        for mode in ("oneshot", "bytewise"):
            sl = None if mode == "oneshot" else [1] * len(data)
            ret, out, _, tin = D.raw_decode([(lz.FILTER_LZMA2, D.lzma1_opts(4096))], data, slices=sl)
            n += 1
            kinds = "/".join("%s.%s%s" % (c['k'], c['reset'], "" if c['pl'] == 'ok' and c['props'] == 'ok' else "!" + c['pl'] + c['props']) for c in it['chunks'])
            ctx.case(key=("l2", kinds, mode))
            if ret not in want:
                k = "lzma2:ret:%s:%s" % (kinds, mode)
                if k not in seenk:
                    seenk.add(k)
                    ctx.violation(k, "chunks %s: raw LZMA2 decoder returned %s, model %s" % (kinds, ret, sorted(want)), dict(kind="lzma2", chunks=it['chunks'], data=data.hex()))
            elif ret == "STREAM_END" and (out != exp or tin != len(conc['data'])):
                k = "lzma2:out:%s" % kinds
                if k not in seenk:
                    seenk.add(k)
                    ctx.violation(k, "chunks %s: output/consumption differs (%d/%d bytes, consumed %d/%d)" % (kinds, len(out), len(exp), tin, len(conc['data'])),
                                  dict(kind="lzma2", chunks=it['chunks'], data=data.hex()))
            elif ret != "STREAM_END" and not out.startswith(exp):
                k = "lzma2:outprefix:%s" % kinds
                if k not in seenk:
                    seenk.add(k)
                    ctx.violation(k, "chunks %s: the data of the chunks accepted before the error was not delivered intact" % kinds, dict(kind="lzma2", chunks=it['chunks']))
    return n, len(items)

# ---------------------------------------------------------------------------------------------- container layer
def lzflags(lz, fl):
    return (lz.CONCATENATED if fl['concat'] else 0) | (lz.TELL_NO_CHECK if fl['tellNo'] else 0) | \
           (lz.TELL_UNSUPPORTED_CHECK if fl['tellUnsup'] else 0) | (lz.TELL_ANY_CHECK if fl['tellAny'] else 0) | \
           (lz.IGNORE_CHECK if fl['ignoreCheck'] else 0)

def describe(af):
    """short stable description of an abstract file for violation keys (shape only)"""
    return "+".join("s%d" % len(s['blocks']) for s in af['streams'])

def filter_specs(lz, D, b, props_bytes):
    """ctypes filter options for lzma_raw_decoder from a Block's abstract filters + the property bytes used"""
    specs = []
    for f, pb in zip(b['filters'], props_bytes):
        fid = D.FILTER_ID[f['id']]
        if f['id'] == 'lzma2':
            specs.append((fid, D.lzma1_opts(4096)))
        elif f['id'] == 'delta':
            o = lz.OptDelta(); o.type = 0; o.dist = pb[0] + 1
            specs.append((fid, o))
        else:
            if len(pb) == 4:
                o = lz.OptBcj(); o.start_offset = struct.unpack("<I", pb)[0]
                specs.append((fid, o))
            else:
                specs.append((fid, None))
    return specs

def replay_xz(ctx, D, lz, plans, cat, mt_every=3):
    """Every (file, flags) plan through the real entry points."""
    groups = collections.OrderedDict()
    for p in plans:
        k = json.dumps([p['file'], p['flags']], sort_keys=True)
        g = groups.setdefault(k, dict(p, rets=set()))
        g['rets'].add(p['ret'])
    seen = set()
    def viol(key, detail, obj):
        if key not in seen:
            seen.add(key)
            ctx.violation(key, detail, obj)
    n = 0
    sampled = False
    for gi, g in enumerate(groups.values()):
        af, fl = g['file'], g['flags']
        rng = random.Random(ctx.seed * 7 + gi)
        data, fmap, meaning = D.concretise_file(af, cat, rng)
        flags = lzflags(lz, fl)
        exp_done = b"".join(meaning[:len(g['out'])])
        shape = describe(af)
        repl = dict(kind="xz", file=af, flags=fl, model=dict(ret=sorted(g['rets']), out=g['out'], tells=g['tells'], pos=g['pos']), bytes=data.hex())
        where = "%s:%s:b%d" % (g['seq'], "s%d" % g['si'], g['bi'])
        def compare(api, ret, out, tells, tin, rets, check_tells=True):
            if ret not in rets:
                viol("xz:%s:ret:%s:%s->%s" % (api, g['seq'], "/".join(sorted(rets)), ret),
                     "%s on %s (model stops in %s): returned %s, model says %s" % (api, shape, where, ret, sorted(rets)), repl)
                return
            if check_tells and tells != g['tells']:
                viol("xz:%s:tells:%s" % (api, "/".join(g['tells']) or "none"), "%s: intermediate returns %s, model %s" % (api, tells, g['tells']), repl)
            if ret in ("STREAM_END", "OK"):
                if out != exp_done:
                    viol("xz:%s:out:%s" % (api, shape), "%s: decoded bytes differ from the meaning of the file (%d vs %d bytes)" % (api, len(out), len(exp_done)), repl)
                if tin is not None and tin != g['pos']:
                    viol("xz:%s:consumed:%s" % (api, shape), "%s: consumed %d bytes, model %d" % (api, tin, g['pos']), repl)
            elif not out.startswith(exp_done):
                viol("xz:%s:outprefix:%s" % (api, g['seq']), "%s: data of the Blocks completed before the error is not intact" % api, repl)
        if "STREAM_END" in g['rets'] and len(data) != g['size']:
            raise MachineryError("concretiser and model disagree on the size of %s: %d vs %d" % (shape, len(data), g['size']))
        # lzma_stream_decoder, everything at once
        ret, out, tells, tin = D.decode_stream(data, flags)
        compare("stream_decoder", ret, out, tells, tin, g['rets'])
        n += 1
        ctx.case(key=("xz", json.dumps(af, sort_keys=True), json.dumps(fl, sort_keys=True)))
        # ... byte by byte (the verdict must not depend on it)
        if gi % 2 == 0:
            ret, out, tells, tin = D.decode_stream(data, flags, slices=[1] * len(data))
            compare("stream_decoder/1", ret, out, tells, tin, g['rets'])
            n += 1
        # lzma_stream_buffer_decode (no LZMA_TELL_ANY_CHECK there)
        if not fl['tellAny']:
            bret, bout, bin_ = D.buffer_decode(data, flags)
            brets = set()
            for r in g['rets']:
                brets.add({"STREAM_END": "OK", "BUF_ERROR": "DATA_ERROR"}.get(r, r))
            if g['tells'] and bret == g['tells'][0]:
                # buffer API: the first LZMA_*_CHECK code ends the call (documented in container.h)
                pass
            elif g['tells']:
                viol("xz:buffer_decode:tell", "lzma_stream_buffer_decode returned %s where the stream decoder reports %s first" % (bret, g['tells']), repl)
            else:
                compare("buffer_decode", bret, bout if bret == "OK" else exp_done, [], bin_ if bret == "OK" else None, brets, check_tells=False)
            n += 1
        # lzma_stream_decoder_mt with two threads
        if gi % mt_every == 0:
            ret, out, tells, tin = D.decode_stream(data, flags, mt=2)
            compare("stream_decoder_mt", ret, out, tells, tin, g['rets'])
            n += 1
        # every Block on its own: lzma_block_header_decode + lzma_block_decoder, and the raw filter chain
        names = {nm: (o, l) for nm, o, l in fmap}
        done = 0
        for si, s in enumerate(af['streams']):
            for bi, b in enumerate(s['blocks']):
                h0 = names.get("s%d.b%d.header.size" % (si, bi))
                ck = names.get("s%d.b%d.check" % (si, bi))
                dt = names.get("s%d.b%d.data" % (si, bi))
                if h0 is None or ck is None or dt is None:
                    continue
                hsz_stated = b['hsz']
                start = h0[0]
                end = ck[0] + ck[1]
                blk_index = done
                done += 1
                # what the model says about this Block: error inside it iff the stream model stopped there
                stopped_here = g['seq'].startswith("BLOCK") and g['si'] == si + 1 and g['bi'] == bi and not ("STREAM_END" in g['rets'])
                if not stopped_here and blk_index >= len(g['out']):
                    continue           # never reached by the stream decoder: no prediction
                hdr = data[start:start + hsz_stated]
                if len(hdr) < hsz_stated or hsz_stated < 8:
                    continue
                rest = data[start + hsz_stated:end]
                bret, bout, _, btin = D.block_decode(hdr, rest, s['check'], ignore_check=fl['ignoreCheck'])
                n += 1
                code = bret.split("_", 1)[1] if bret.startswith(("HDR_", "INIT_")) else bret
                if stopped_here:
                    if code not in g['rets'] and not (code == "BUF_ERROR" and "DATA_ERROR" in g['rets'] and g['seq'] == "BLOCK_CODE"):
                        viol("xz:block_decoder:ret:%s:%s->%s" % (g['seq'], "/".join(sorted(g['rets'])), bret),
                             "Block s%d.b%d alone: %s, model %s" % (si, bi, bret, sorted(g['rets'])), repl)
                else:
                    if bret != "STREAM_END" or bout != meaning[blk_index] or btin != len(rest):
                        viol("xz:block_decoder:valid:%s" % bret, "valid Block s%d.b%d alone: %s, %d bytes (expected %d), consumed %d of %d" % (
                            si, bi, bret, len(bout), len(meaning[blk_index]), btin, len(rest)), repl)
                    # raw decoder with the same chain on the Compressed Data
                    props = []
                    p0 = names.get("s%d.b%d.header.f0.props" % (si, bi))
                    for k in range(len(b['filters'])):
                        o, l = names["s%d.b%d.header.f%d.props" % (si, bi, k)]
                        props.append(data[o:o + l])
                    rret, rout, _, rtin = D.raw_decode(filter_specs(lz, D, b, props), data[dt[0]:dt[0] + dt[1]])
                    n += 1
                    if rret != "STREAM_END" or rout != meaning[blk_index]:
                        viol("xz:raw_decoder:valid:%s" % rret, "raw decoder with chain %s: %s, %d bytes (expected %d)" % (
                            [f['id'] for f in b['filters']], rret, len(rout), len(meaning[blk_index])), repl)
        if not sampled and "DATA_ERROR" in g['rets']:
            sampled = True
            ctx.sample(dict(kind="abstract_file_with_prediction", file=af, flags=fl, model_ret=sorted(g['rets']), bytes=data.hex()))
    return n, len(groups)

# ---------------------------------------------------------------------------------------------- (V) tests/files
def probe_buffer_api(ctx, D, so):
    """True iff lzma_stream_buffer_decode can be given truncated input in-process."""
    kind, what = D.probe_buffer_decode_truncated(so, HERE)
    if kind == 'abort':
        ctx.violation("crash:assert:stream_buffer_decode:truncated",
                      "lzma_stream_buffer_decode() on a truncated .xz file does not return (assertion / crash): " + what,
                      dict(kind="probe", what="lzma_stream_buffer_decode(first len-7 bytes of a valid file)"))
        return False
    if what != "DATA_ERROR":
        ctx.violation("buffer_decode:truncated:ret:" + what, "lzma_stream_buffer_decode() on a truncated file returned %s, model (BufferDecodeRet) LZMA_DATA_ERROR" % what,
                      dict(kind="probe"))
    return True

def validate_test_files(ctx, D, lz, buffer_safe):
    from harness.glue import xz as gxz
    repo = os.environ.get("VERIF_REPO", "/repo")
    files = sorted(glob.glob(os.path.join(repo, "tests", "files", "*.xz")))
    n = 0
    for path in files:
        name = os.path.basename(path)
        data = open(path, "rb").read()
        g = gxz.parse(data, concatenated=True)
        ret, out, tells, tin = D.decode_stream(data, lz.CONCATENATED, out_cap=1 << 22)
        want = gxz.expected_ret(g.verdict)
        n += 1
        ctx.case(key=("testfile", name))
        ctx.add_traces(1)
        if want is None:
            ctx.notes.append("tests/files/%s: glue cannot judge (%s)" % (name, g.verdict))
            continue
        if ret != want and not (g.verdict.startswith("error:lzma2") and ret == "BUF_ERROR"):
            ctx.violation("testfile:ret:%s" % name, "%s: liblzma %s, format judge %s (%s %s)" % (name, ret, want, g.verdict, g.detail),
                          dict(kind="testfile", file=name))
        elif ret == "STREAM_END" and out != g.output:
            ctx.violation("testfile:bytes:%s" % name, "%s: decoded bytes differ from the independent decoder (%d vs %d bytes)" % (name, len(out), len(g.output)),
                          dict(kind="testfile", file=name))
        elif ret != "STREAM_END" and not g.output.startswith(out) and not out.startswith(g.output):
            ctx.violation("testfile:partial:%s" % name, "%s: partial output before the error is not a prefix of the judge's" % name, dict(kind="testfile", file=name))
        # other entry points must agree with the stream decoder on real-world files
        if ret != "BUF_ERROR" or buffer_safe:
            bret, bout, _ = D.buffer_decode(data, lz.CONCATENATED, out_cap=1 << 22)
            if bret != {"STREAM_END": "OK", "BUF_ERROR": "DATA_ERROR"}.get(ret, ret) or (bret == "OK" and bout != out):
                ctx.violation("testfile:buffer_decode:%s" % name, "%s: lzma_stream_buffer_decode %s vs lzma_stream_decoder %s" % (name, bret, ret), dict(kind="testfile", file=name))
        mret, mout, _, _ = D.decode_stream(data, lz.CONCATENATED, mt=2, out_cap=1 << 22)
        if mret != ret or (ret == "STREAM_END" and mout != out):
            ctx.violation("testfile:mt:%s" % name, "%s: lzma_stream_decoder_mt %s vs lzma_stream_decoder %s" % (name, mret, ret), dict(kind="testfile", file=name))
    return n

# ---------------------------------------------------------------------------------------------- run
def run(ctx):
    from harness.pydrv import c03drv as D, lz
    L = build.lib("asan")
    D.ensure_loaded(L["so"])
    quick = ctx.quick
    cat = D.build_catalogue(ctx.seed)
    catp = os.path.join(ctx.workdir, "c03cat.json")
    open(catp, "w").write(D.catalogue_json(cat))
    env = {"C03CAT": catp}
    prof = "quick" if quick else "thorough"
    def cfg_variant(base, name, subst):
        txt = open(os.path.join(tlc.SPEC, base)).read()
        for a, b in subst:
            if a not in txt:
                raise MachineryError("cfg %s lacks %r" % (base, a))
            txt = txt.replace(a, b)
        p = os.path.join(tlc.SPEC, name)
        if not os.path.exists(p) or open(p).read() != txt:
            open(p, "w").write(txt)
        return name
    jobs = [
        ("MCLz", dict(module="MCLz", cfg="MCLzQuick.cfg" if quick else "MCLz.cfg", workers=4, timeout=1500)),
        ("MCLzma2", dict(module="MCLzma2", cfg="MCLzma2Quick.cfg" if quick else "MCLzma2.cfg", workers=2, timeout=900)),
        ("MCXzStreamDec", dict(module="MCXzStreamDec", cfg="MCXzStreamDec.cfg" if quick else "MCXzStreamDecT.cfg", workers=4, timeout=1500, env=env)),
        ("GenXzStreamDec", dict(module="MCXzStreamDec", cfg="GenXzStreamDec.cfg" if quick else "GenXzStreamDecT.cfg", workers=1, timeout=1500, env=env)),
        ("GenLz", dict(module="GenLz", cfg="GenLz.cfg" if quick else "GenLzT.cfg", workers=1, timeout=900)),
        ("GenLzRaw", dict(module="GenLz", cfg="GenLzRaw.cfg", workers=1, timeout=900)),
        ("EvalLzDict", dict(module="EvalLzDict", workers=1, timeout=300)),
        ("GenLzma2", dict(module="MCLzma2", cfg="GenLzma2.cfg", workers=1, timeout=900)),
    ]
    broken = [("MCLz", "MCLzVar_dist_off_by_one.cfg", {}), ("MCLz", "MCLzVar_no_wrap_correction.cfg", {}),
              ("MCLzma2", "MCLzma2Var_no_need_props.cfg", {}), ("MCLzma2", "MCLzma2Var_no_need_dict.cfg", {}),
              ("MCXzStreamDec", "MCXzStreamDecVar_no_flags_compare.cfg", env), ("MCXzStreamDec", "MCXzStreamDecVar_index_sums_only.cfg", env),
              ("MCXzStreamDec", "MCXzStreamDecVar_size_valid_misuse.cfg", env)]
    if not quick:
        broken.append(("MCLzma2", "MCLzma2Var_unc_keeps_props.cfg", {}))     # needs 4 chunks to show
    for mod, cfg, e in broken:
        jobs.append(("broken:" + cfg, dict(module=mod, cfg=cfg, workers=2, timeout=900, env=e)))
    ctx.log("running %d TLC jobs" % len(jobs))
    res = run_tlc_jobs(ctx, jobs, par=5)
    for name, r in res.items():
        if name.startswith("broken:"):
            # a deliberately broken copy of the model MUST violate the contract (non-vacuity)
            if r.error:
                raise MachineryError("TLC %s: %s\n%s" % (name, r.error, r.out[-2000:]))
            if not r.violation:
                raise MachineryError("broken model %s does not violate any invariant: the contract is vacuous" % name)
            ctx.tlc_runs.append(dict(name=name, expected_violation=r.violation, **r.summary()))
            continue
        ctx.add_tlc(name, r, exhaustive=name.startswith("MC"))
        if r.violation:
            ctx.violation("model:%s:%s" % (name, r.violation), r.out[-4000:], dict(kind="tlc_counterexample", run=name))
        ctx.log(name, r.summary())
    # ---- replay
    pk = plans_from_tlc(res["GenLz"].out); pr = plans_from_tlc(res["GenLzRaw"].out); rows = plans_from_tlc(res["EvalLzDict"].out)
    if len(pk) < 1000 or len(pr) < 100 or len(rows) < 100:
        raise MachineryError("Lz plan generation produced too little: %d %d %d" % (len(pk), len(pr), len(rows)))
    if quick:
        # every path of <= 2 symbols, a seeded sample of the longer ones
        short = [p for p in pk if len(p['syms']) <= 2]
        longp = [p for p in pk if len(p['syms']) > 2]
        ctx.rng.shuffle(longp)
        pk = short + longp[:4000]
    n = replay_lz(ctx, D, lz, pk, pr, rows)
    ctx.log("Lz: %d symbol-sequence executions (LZMA2 chunks, raw LZMA1, dictionary boundary table)" % n)
    l2 = plans_from_tlc(res["GenLzma2"].out)
    if len(l2) < 1000:
        raise MachineryError("LZMA2 plan generation produced only %d plans" % len(l2))
    n2, u2 = replay_lzma2(ctx, D, lz, l2, limit=1200 if quick else None)
    ctx.log("Lzma2: %d executions of %d distinct chunk sequences" % (n2, u2))
    xp = plans_from_tlc(res["GenXzStreamDec"].out)
    if len(xp) < 1000:
        raise MachineryError("container plan generation produced only %d plans" % len(xp))
    n3, u3 = replay_xz(ctx, D, lz, xp, cat)
    ctx.log("Xz: %d executions on %d (abstract file, flags) plans" % (n3, u3))
    ctx.add_traces(u3 + u2)
    buffer_safe = probe_buffer_api(ctx, D, L["so"])
    nv = validate_test_files(ctx, D, lz, buffer_safe)
    ctx.log("tests/files: %d .xz files compared (verdict and decoded bytes)" % nv)
    ctx.sample(dict(kind="lz_plan", plan=pk[len(pk) // 2]))
    ctx.sample(dict(kind="lzma2_plan", plan=l2[len(l2) // 3]))
    ctx.assumptions += [
        "CRC32 / CRC64 / SHA-256 detect every modelled difference (a stored value over changed bytes never matches)",
        "the glue library (harness/glue, written from the format documents, closure-tested) serialises abstract objects faithfully",
        "Block data in abstract files comes from a catalogue of %d LZMA2 chunk sequences; symbol-level variety is covered by the Lz layer" % len(cat),
        "documented relaxation: lz_decoder.c raises the dictionary to 4096 bytes / a multiple of 16 (RelaxedDictAccept in Lz.tla)"]
    return ctx.finish(rule="evaluations = executions of real decoders on TLC-generated abstract objects (symbol sequences, chunk sequences, "
                      "abstract .xz files x flags x entry point) plus tests/files; distinct by abstract object and entry point",
                      trusted=["TLC", "harness/glue (independent codecs)", "gcc ASan/UBSan", "ctypes driver"])
