"""C05 - corruption and truncation are never reported as success with different data.

(M) XzFault.tla: the operational decoder model of C03 (XzStreamDec) run on a valid abstract file damaged by ONE fault
    chosen in Init (Flip / Overwrite with recomputed CRC32 / Insert / Delete / Truncate, per field and bit class);
    invariants NeverWrongSuccess, DamageOutsidePayloadDetected, TruncatedNeverComplete (named exclusions in the spec).
    LzFault.tla: the same for .lz (lzip_decoder.c) and .lzma (alone_decoder.c).  Broken copies of the models (one
    comparison dropped each) must violate the invariants.
(G/R) TLC prints, per (base file, fault), the return codes (and "output == original") it admits.  The concretiser
    builds each base file with the glue library and enumerates EVERY bit of every field, an inserted / deleted byte
    at EVERY offset and EVERY truncation length; each concrete mutant is classified into the model's (field, class)
    and decoded in-process (lzma_stream_buffer_decode, lzma_stream_decoder via lzma_code; lzma_lzip_decoder,
    lzma_alone_decoder, lzma_auto_decoder): the observed (ret, same data) must be admitted by the model.
    A stratified sample of the same mutants goes through `xz -dc` and `xzdec`: exit status != 0 (or exactly the
    original data) and stdout a prefix of the original.
"""
import json, os, glob, collections
from lib import tlc, build
from lib.ctx import MachineryError
from checks.c03 import plans_from_tlc, run_tlc_jobs, run_phase, probe_buffer_api, slices

HERE = os.path.dirname(os.path.dirname(os.path.abspath(__file__)))

def run(ctx):
    from harness.pydrv import c03drv as D, c05phases as P
    L = build.lib("asan")
    so = L["so"]
    quick = ctx.quick
    cat = D.build_catalogue(ctx.seed)
    catp = os.path.join(ctx.workdir, "c03cat.json")
    open(catp, "w").write(D.catalogue_json(cat))
    env = {"C03CAT": catp}
    T = "" if quick else "T"
    jobs = [("MCXzFault", dict(module="XzFault", cfg="MCXzFault%s.cfg" % T, workers=4, timeout=1500, env=env)),
            ("GenXzFault", dict(module="XzFault", cfg="GenXzFault%s.cfg" % T, workers=1, timeout=1500, env=env)),
            ("MCLzFault", dict(module="LzFault", cfg="MCLzFault.cfg", workers=2, timeout=600)),
            ("GenLzFault", dict(module="LzFault", cfg="GenLzFault.cfg", workers=1, timeout=600))]
    for v in ("no_flags_compare", "no_backward_size", "no_block_padding", "no_index_padding", "no_check_compare"):
        jobs.append(("broken:XzFault:" + v, dict(module="XzFault", cfg="MCXzFaultVar_%s.cfg" % v, workers=2, timeout=900, env=env)))
    for v in ("no_crc", "no_usize", "no_member_size", "crc_after_single_end"):
        jobs.append(("broken:LzFault:" + v, dict(module="LzFault", cfg="MCLzFaultVar_%s.cfg" % v, workers=1, timeout=600)))
    ctx.log("running %d TLC jobs" % len(jobs))
    res = run_tlc_jobs(ctx, jobs, par=5)
    for name, r in res.items():
        if name.startswith("broken:"):
            if r.error:
                raise MachineryError("TLC %s: %s\n%s" % (name, r.error, r.out[-2000:]))
            if not r.violation:
                raise MachineryError("broken model %s does not violate any invariant: the contract is vacuous" % name)
            ctx.tlc_runs.append(dict(name=name, expected_violation=r.violation, **r.summary()))
            continue
        ctx.add_tlc(name, r, exhaustive=True)
        if r.violation:
            ctx.violation("model:%s:%s" % (name, r.violation), r.out[-4000:], dict(kind="tlc_counterexample", run=name))
        ctx.log(name, r.summary())
    # ---- the model's table: (base, fault) -> admissible (ret, same)
    xp = plans_from_tlc(res["GenXzFault"].out)
    if len(xp) < 2000:
        raise MachineryError("fault plan generation produced only %d lines" % len(xp))
    table = collections.OrderedDict()
    bases = []
    for p in xp:
        bk = "%d/%s" % (p['base']['check'], ";".join(",".join(str(d) for d in st) for st in p['base']['dids']))
        fl = p['fault']
        key = "|".join([P.flags_key(p['flags']), bk, fl['kind'], str(fl['s']), str(fl['b']), fl['f'], fl['cls']])
        row = [p['ret'], bool(p['same'])]
        if row not in table.setdefault(key, []):
            table[key].append(row)
        if fl['kind'] == "none" and p['flags']['concat'] and not p['flags']['ignoreCheck']:
            bases.append(dict(file=p['file'], fields=p['fields']))
    ctx.log("XzFault: %d (base, field, class) entries for %d base files" % (len(table), len(bases)))
    tools = build.cli("plain")
    cli_every = 97 if quick else 7
    NS = 4 if quick else 6
    def xz_args(k, shards):
        part, base = slices(bases, k, shards)
        return dict(bases=part, table=table, cli_every=cli_every, cli_phase=(ctx.seed + k) % cli_every, heavy=not quick)
    n1 = run_phase(ctx, "xzfaults", xz_args, None, so, shards=min(NS, len(bases)), catseed=ctx.seed, pid="c05", module="harness.pydrv.c05phases", timeout=2400)
    ctx.log("xz: %d concrete mutants decoded in-process (every bit, every insert/delete offset, every truncation length of %d base files)" % (n1, len(bases)))
    lp = plans_from_tlc(res["GenLzFault"].out)
    ltable = collections.OrderedDict(); lbases = []
    for p in lp:
        fl = p['fault']
        key = P.lz_key(p['fmt'], p['base'], fl['kind'], fl['m'], fl['f'], fl['cls'], p['flags'])
        row = [p['ret'], bool(p['same'])]
        if row not in ltable.setdefault(key, []):
            ltable[key].append(row)
        if fl['kind'] == "none" and p['flags']['concat'] and not p['flags']['ignoreCheck']:
            lbases.append(dict(fmt=p['fmt'], base=p['base']))
    if len(lbases) != 7:
        raise MachineryError("expected 4 .lz + 3 .lzma base files, got %d" % len(lbases))
    def lz_args(k, shards):
        part, base = slices(lbases, k, shards)
        return dict(bases=part, table=ltable, cli_every=cli_every, cli_phase=(ctx.seed + k) % cli_every)
    n2 = run_phase(ctx, "lzfaults", lz_args, None, so, shards=3, pid="c05", module="harness.pydrv.c05phases", timeout=2400)
    ctx.log(".lz/.lzma: %d concrete mutants decoded in-process (4 .lz + 3 .lzma base files)" % n2)
    probe_buffer_api(ctx, D, so)
    # which abstract classes were exercised by at least one concrete mutant
    hit = set()
    for ev in getattr(ctx, "_events", []):
        if ev.get("e") == "classes":
            hit.update(ev["classes"])
    ctx.extra["abstract_fault_classes_exercised"] = len(hit)
    kinds = set(x.split("|")[1] for x in hit)
    crashed = any(v["key"].startswith("crash:") for v in ctx.violations)      # a crashing library cuts the enumeration short: already reported
    if not crashed and (not {"flip", "over", "ins", "del", "trunc", "none"} <= kinds or len(hit) < 300):
        raise MachineryError("the concrete mutants exercise too few abstract fault classes: %d, kinds %s" % (len(hit), sorted(kinds)))
    # ---- CLI
    cli_jobs = []
    for fn in sorted(glob.glob(os.path.join(ctx.workdir, "c05.*.out.jsonl.cli"))):
        for line in open(fn):
            d, o, label, adm = json.loads(line)
            cli_jobs.append((bytes.fromhex(d), bytes.fromhex(o), label, adm))
    e = dict(os.environ); e.pop("LD_PRELOAD", None)
    xzjobs = [j for j in cli_jobs]
    xzjobs = [j for j in cli_jobs if "-single:" not in j[2]]
    n3 = P.run_cli(ctx, xzjobs, [("xz-dc", [tools["xz"], "-dc", "-qq", "-Q"])], ctx.workdir)
    n3 += P.run_cli(ctx, [j for j in cli_jobs if "-single:" in j[2]], [("xz-dc-single-stream", [tools["xz"], "-dc", "-qq", "-Q", "--single-stream"])], ctx.workdir)
    n3 += P.run_cli(ctx, [j for j in cli_jobs if j[2].startswith("xz:")], [("xzdec", [tools["xzdec"], "-q"])], ctx.workdir)
    n3 += P.run_cli(ctx, [j for j in cli_jobs if j[2].startswith("lzma:")], [("lzmadec", [tools["lzmadec"], "-q"])], ctx.workdir)
    ctx.log("CLI: %d runs of xz -dc / xzdec / lzmadec on %d sampled mutants" % (n3, len(cli_jobs)))
    ctx.add_traces(len(bases) + len(lbases))
    ctx.extra["executions"] = n1 + n2 + n3
    ctx.evaluations += n1 + n2 + n3
    ctx.nontrivial_n += len(hit)
    ctx.sample(dict(kind="model_table_entry", key=list(table.keys())[len(table) // 2], admits=list(table.values())[len(table) // 2]))
    ctx.sample(dict(kind="lz_table_entry", key=list(ltable.keys())[len(ltable) // 2], admits=list(ltable.values())[len(ltable) // 2]))
    ctx.assumptions += [
        "CrcDetects: a stored CRC32 / CRC64 / SHA-256 over changed bytes never matches (made explicit in XzFault.tla / LzFault.tla)",
        "FrameLossDetected: once the framing is lost the decoder ends in DATA_ERROR / BUF_ERROR (admissible set; validated on every bit and offset by the replay)",
        "named exclusions of the property: UnverifiableCheck (Check IDs this build cannot compute), CutAtStreamBoundary (a file cut exactly between Streams is a shorter "
        "valid file), LooseTrailing (.lz: what follows a complete member and does not start with the magic bytes is ignored, as documented), "
        "Overwrite(.., benign) (a CRC-consistent rewritten header that means the same data), .lzma has no integrity check (only the truncation clause applies)",
        "the payload of a damaged Block / member is classified (same / other / length / error / frame) by the independent glue decoder"]
    return ctx.finish(rule="evaluations = concrete damaged files decoded by the real decoders (every bit of every field, one byte inserted/deleted at every offset, "
                      "every truncation length, CRC-consistent overwrites per class; sampled CLI runs); distinct_nontrivial = abstract (base, fault kind, field, class) "
                      "entries of the model exercised by at least one concrete mutant",
                      trusted=["TLC", "harness/glue (independent codecs)", "gcc ASan/UBSan", "ctypes driver"])
