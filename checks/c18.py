"""C18 - the command-line tools deliver exactly the library's decoding, whatever the sink.

(M) MCSparse: Sparse (transcription of io_open_dest_real / io_write / io_write_buf / io_close + kernel
    write/lseek semantics) => content = old o data, exact size, flags restored, for all sinks and all buffer
    sequences within the bounds.  MCCliDecode: CliDecode (xz -dc/-d/-t, xzdec, lzmadec as a function of the
    library verdict) => exit status / stdout / target-file clauses.
(V) plaintexts built from GenSparse's buffer sequences (scaled to 8 KiB) are decompressed by the real xz
    into every sink under strace; the write/lseek/fcntl calls are validated by TraceSparse, bytes and size
    compared with the in-process library decode.
(R) MCCliDecode's table is replayed: every corpus input x tool, the library verdict computed in-process with
    the tool's decoder and flags selects the predicted stdout / exit status / target file.  GenCliOpts'
    option combinations are round-tripped through the CLI.
"""
import os, json, threading, concurrent.futures as cf
from lib import tlc, build
from lib.ctx import MachineryError
from checks.c11 import plans_from_tlc

def run(ctx):
    from harness.cli import c18_sparse as S, c18_decode as D, c1819_lib as U
    bins = U.snapshot_bins(ctx)
    xz = bins["xz"]
    U.lz()                       # load the library built from the same tree state as the tools
    q = ctx.quick
    rng = ctx.rng
    lock = threading.Lock()
    seen = set()
    def viol(key, detail, rep):
        with lock:
            if key in seen:
                return
            seen.add(key)
            ctx.violation(key, detail, rep)
    pool = cf.ThreadPoolExecutor(3)
    # ------------------------------------------------------------------ (M) in the background
    mcs_cfg = os.path.join(ctx.workdir, "mcsparse.cfg")
    open(mcs_cfg, "w").write("SPECIFICATION Spec\nCONSTANTS B = 2  TrackContent = TRUE  MaxBufs = %d  MaxOld = 3\n"
                             "INVARIANTS ContentExact SizeExact FlagsRestored SparseOnlyAtEnd NoSparseWhenNotWanted\nCHECK_DEADLOCK FALSE\n"
                             % (4 if q else 5))
    f_sparse = pool.submit(tlc.run, "MCSparse", cfg=mcs_cfg, workers=4, timeout=1500)
    wit = {}
    for inv in ("NeverHole", "NeverAppendEmulated"):
        wc = os.path.join(ctx.workdir, "wit_%s.cfg" % inv)
        open(wc, "w").write("SPECIFICATION Spec\nCONSTANTS B = 2  TrackContent = TRUE  MaxBufs = 2  MaxOld = 1\nINVARIANTS %s\nCHECK_DEADLOCK FALSE\n" % inv)
        wit[inv] = pool.submit(tlc.run, "MCSparse", cfg=wc, workers=1, timeout=300)
    # ------------------------------------------------------------------ (M)+(R) decoding
    f_cli = pool.submit(tlc.run, "MCCliDecode", workers=2, timeout=900)
    items = D.corpus(ctx, xz, q)
    ndirected0 = len(items)
    items += D.directed(ctx, xz, q)
    # the .lzma header domain of spec/LzmaSniff.tla (recognition by xz vs decoding by the library / lzmadec)
    sn = tlc.run("MCLzmaSniff", workers=1, timeout=600)
    ctx.add_tlc("MCLzmaSniff", sn, exhaustive=True)
    if sn.violation:
        viol("model:MCLzmaSniff:" + sn.violation, sn.out[-3000:], dict(kind="tlc_counterexample"))
    nhdr0 = len(items)
    items += D.header_items(ctx, xz, plans_from_tlc(sn.out), q)
    for i in range(nhdr0, len(items)):
        D.DET_BY_MODEL[i] = "lzma" if items[i][3]["sniff"] else "none"
    wd = os.path.join(ctx.workdir, "dec"); os.makedirs(wd)
    base = dict(singleStream=False, force=False, nowarn=False, quiet=0)
    import random as _random
    cases = []
    def add(idx, tool, src, opt, fmt, th):
        name, data = items[idx][:2]
        cases.append(D.make_case(len(cases), idx, name, data, tool, src, opt, fmt, th))
    for idx, it in enumerate(items):
        name, data, fmt = it[:3]
        r = _random.Random(ctx.seed * 100003 + idx)
        if idx >= nhdr0:
            # memory limit on both sides: huge dictionary sizes end in LZMA_MEMLIMIT_ERROR instead of an allocation
            ml = dict(base, memlimit=D.MEMLIMIT)
            add(idx, "xz_dc", "file", ml, "auto", 1)
            add(idx, r.choice(["xz_dc", "xz_t", "xz_d"]), r.choice(D.SRCS), ml, "lzma", r.choice([1, 4]))
            add(idx, "xz_dc", r.choice(D.SRCS), dict(ml, force=True), r.choice(["auto", "lzma"]), 1)       # pass-through iff not recognised
            if it[3]["dict"] <= (96 << 20):
                add(idx, "lzmadec", r.choice(D.SRCS), base, "auto", 1)
            continue
        if idx >= ndirected0:
            # inputs built for the model's target classes: every tool that reads the format x every source
            tools = ["xz_dc", "xz_d", "xz_t"] + (["xzdec"] if name.endswith(".xz") else []) + (["lzmadec"] if name.endswith(".lzma") else [])
            for tool in tools:
                for src in D.SRCS:
                    ths = [1, 4] if (tool == "xz_dc" and name.endswith(".xz")) else [r.choice([1, 4])]
                    for th in ths:
                        add(idx, tool, src, base, fmt, th)
            o = dict(base, **r.choice([dict(singleStream=True), dict(nowarn=True), dict(ignoreCheck=True), dict(quiet=r.choice([1, 2]))]))
            add(idx, r.choice(["xz_dc", "xz_d", "xz_t"]), r.choice(D.SRCS), o, fmt, r.choice([1, 4]))
            continue
        add(idx, "xz_dc", "file", base, "auto", 1); add(idx, "xz_dc", r.choice(D.SRCS), base, "auto", 4)
        add(idx, "xz_d", r.choice(["file", "file", "stdin_file", "stdin_pipe"]), base, "auto", r.choice([1, 4]))
        add(idx, "xz_t", r.choice(D.SRCS), base, "auto", r.choice([1, 4]))
        add(idx, "xzdec", r.choice(D.SRCS), base, "auto", 1); add(idx, "lzmadec", r.choice(D.SRCS), base, "auto", 1)
        o = dict(base); f2 = "auto"
        k = r.randrange(6)
        if k == 0: o["singleStream"] = True
        elif k == 1: o["force"] = True
        elif k == 2: o["nowarn"] = True
        elif k == 3: o["quiet"] = r.choice([1, 2])
        elif k == 4: o["ignoreCheck"] = True
        else: f2 = {".xz": "xz", ".lzma": "lzma", ".lz": "lzip"}.get(os.path.splitext(name)[1], "auto") if r.random() < 0.7 else r.choice(["xz", "lzma", "lzip"])
        add(idx, r.choice(["xz_dc", "xz_d", "xz_t"]), r.choice(D.SRCS), o, f2, r.choice([1, 4]))
        if not q:
            o2 = dict(base, singleStream=r.random() < 0.5, force=r.random() < 0.5, nowarn=r.random() < 0.5, quiet=r.choice([0, 1, 2]))
            add(idx, r.choice(["xz_dc", "xz_d", "xz_t"]), r.choice(D.SRCS), o2, "auto", r.choice([1, 4]))
    cfile = os.path.join(ctx.workdir, "cases.ndjson")
    with open(cfile, "w") as f:
        for c in cases:
            f.write(json.dumps(dict(id=c["id"], tool=c["tool"], src=c["src"], opt=c["mopt"], lib=c["lib"])) + "\n")
    g = tlc.run("GenCliDecode", workers=1, timeout=900, env={"C18_CASES": cfile})
    ctx.add_tlc("GenCliDecode", g, exhaustive=True)
    preds = {p["id"]: p["r"] for p in plans_from_tlc(g.out)}
    if len(preds) != len(cases):
        raise MachineryError("GenCliDecode predicted %d of %d cases\n%s" % (len(preds), len(cases), g.out[-1500:]))
    tl = [l for l in g.out.splitlines() if l.startswith('<<"TARGETS", "')]
    if not tl:
        raise MachineryError("GenCliDecode did not print its targets")
    targets = json.loads(tl[0][len('<<"TARGETS", "'):-3].encode().decode("unicode_escape"))
    def one(c):
        D.run_case(ctx, bins, wd, c, items[c["idx"]][1], preds[c["id"]], viol)
    with cf.ThreadPoolExecutor(4) as ex:
        list(ex.map(one, cases))
    # every target class of the model must have been constructed and executed (valid streams only)
    hit = set()
    for c in cases:
        if c["idx"] >= nhdr0:
            continue                 # header cases carry huge dictionary sizes: only decoded under the memory limit
        name, data, fmt = items[c["idx"]][:3]
        ic = D.input_class(c["idx"], data, c["fmt"])
        if ic["final"] == "END" and not c["opt"].get("ignoreCheck") and not c["opt"]["singleStream"]:
            hit.add((c["tool"], c["src"], ic["det"], ic["trailing"], ic["atBoundary"], ic["unsupFirst"], ic["unsupLater"]))
    missing = [t for t in targets if (t["tool"], t["src"], t["cls"]["det"], t["cls"]["trailing"], t["cls"]["atBoundary"],
                                      t["cls"]["unsupFirst"], t["cls"]["unsupLater"]) not in hit]
    if missing:
        raise MachineryError("%d of %d target classes of GenCliDecode were not executed, e.g. %s" % (len(missing), len(targets), json.dumps(missing[:3])))
    ctx.add_traces(len(items))
    ctx.sample(dict(kind="decode_case", **{k: cases[-3][k] for k in ("name", "tool", "src", "opt", "fmt", "threads", "lib", "retname")}, predicted=preds[cases[-3]["id"]]))
    ctx.log("decode: %d inputs (%d directed, %d .lzma headers), %d tool runs compared with the library verdict; %d target classes all executed"
            % (len(items), nhdr0 - ndirected0, len(items) - nhdr0, len(cases), len(targets)))

    # ------------------------------------------------------------------ (V) sparse output
    gcfg = os.path.join(ctx.workdir, "gensparse.cfg")
    open(gcfg, "w").write("SPECIFICATION Spec\nCONSTANTS B = 2 MaxBufs = %d\nACTION_CONSTRAINT Emit\nCHECK_DEADLOCK FALSE\n" % (3 if q else 4))
    g = tlc.run("GenSparse", cfg=gcfg, workers=1, timeout=300)
    ctx.add_tlc("GenSparse", g, exhaustive=True)
    seqs = [p["bufs"] for p in plans_from_tlc(g.out)]
    if len(seqs) < 300:
        raise MachineryError("GenSparse produced %d sequences" % len(seqs))
    rng.shuffle(seqs)
    # every sequence is used once; sinks / threads / --no-sparse rotate over them (all sinks for a sample)
    nseq = 70 if q else 600
    hists = []
    swd = os.path.join(ctx.workdir, "sparse"); os.makedirs(swd)
    idx = 0
    for k, bufs in enumerate(seqs[:nseq]):
        plain = S.realise(bufs, rng)
        if k % 9 == 0:
            plain = plain + bytes(S.B * rng.choice([1, 2, 5]))         # long trailing hole
        args = rng.choice([["-0", "-T1"], ["-1", "-T4", "--block-size=8192"], ["-0", "-T2", "--block-size=20000"], ["-0", "--block-size=4096", "-T1"]])
        r = U.run([xz, "-c"] + args, input=plain)
        if r.returncode != 0:
            raise MachineryError("compressing a plaintext failed: %r" % r.stderr)
        ret, dec, _ = U.libdecode(r.stdout, "stream", out_cap=len(plain) + 65536)
        if ret != "STREAM_END" or dec != plain:
            viol("sparse:library_roundtrip", "library decode of xz %s output is not the plaintext (%s)" % (args, ret), dict(args=args))
            continue
        sinks = S.SINKS if k % 5 == 0 else rng.sample(S.SINKS, 3)
        for sink in sinks:
            th = rng.choice([1, 4])
            sp = rng.random() < 0.8
            S.run_case(ctx, xz, swd, idx, r.stdout, plain, sink, th, sp, hists, viol)
            idx += 1
    S.validate(ctx, hists, viol)
    ctx.sample(dict(kind="sparse_trace", label=hists[0][0], events=hists[0][1][:12]))
    ctx.log("sparse: %d plaintexts, %d decompressions into sinks traced and validated" % (min(nseq, len(seqs)), idx))

    # ------------------------------------------------------------------ (R) CLI round trip over option combinations
    go = tlc.run("GenCliOpts", workers=1, timeout=300)
    ctx.add_tlc("GenCliOpts", go, exhaustive=True)
    combos = []
    sc = set()
    for p in plans_from_tlc(go.out):
        k = json.dumps(p["c"], sort_keys=True)
        if k not in sc:
            sc.add(k); combos.append(p)
    rng.shuffle(combos)
    ncomb = 60 if q else 700
    plain = (b"round trip \x00\x01 " * 700) + bytes(20000) + bytes(rng.getrandbits(8) for _ in range(15000)) + b"\xe8\x00\x00\x00\x00" * 300
    def rt(p):
        c = p["c"]
        a = ["-F", c["fmt"], "-%d%s" % (c["preset"], "e" if c["extreme"] else ""), "-T%d" % c["threads"]]
        if c["blockSize"]: a.append("--block-size=%d" % c["blockSize"])
        if c["blockList"]: a.append("--block-list=" + c["blockList"])
        if c["filters"]: a.append("--filters=" + c["filters"])
        if c["check"]: a += ["-C", c["check"]]
        r1 = U.run([xz, "-c"] + a, input=plain)
        rep = dict(kind="roundtrip", combo=c, argv=a)
        if r1.returncode != p["exit"]:
            viol("roundtrip:compress_exit:%s" % c["fmt"], "xz %s: exit %d: %r" % (a, r1.returncode, r1.stderr[:300]), rep)
            return
        for th in (1, 4):
            r2 = U.run([xz, "-dc", "-T%d" % th], input=r1.stdout)
            if r2.returncode != 0 or r2.stdout != plain:
                viol("roundtrip:differs:%s:T%d" % (c["fmt"], th), "xz %s | xz -dc -T%d: exit %d, %d bytes (plain %d)" %
                     (a, th, r2.returncode, len(r2.stdout), len(plain)), rep)
        tool = bins["xzdec"] if c["fmt"] == "xz" else bins["lzmadec"]
        r3 = U.run([tool], input=r1.stdout)
        if r3.returncode != 0 or r3.stdout != plain:
            viol("roundtrip:differs:%s:%s" % (c["fmt"], os.path.basename(tool)), "%s of xz %s output: exit %d, %d bytes" %
                 (os.path.basename(tool), a, r3.returncode, len(r3.stdout)), rep)
    with cf.ThreadPoolExecutor(4) as ex:
        list(ex.map(rt, combos[:ncomb]))
    for p in combos[:ncomb]:
        ctx.case(key=("rt", json.dumps(p["c"], sort_keys=True)))
    ret, dec, _ = U.libdecode(U.run([xz, "-c", "-0"], input=plain).stdout, "stream", out_cap=len(plain) + 65536)
    if dec != plain:
        viol("roundtrip:library", "library decode of xz -0 output differs", None)
    ctx.log("round trip: %d option combinations" % min(ncomb, len(combos)))

    # ------------------------------------------------------------------ collect (M)
    m = f_cli.result()
    ctx.add_tlc("MCCliDecode", m, exhaustive=True)
    ctx.log("MCCliDecode:", m.summary())
    if m.violation:
        viol("model:MCCliDecode:" + m.violation, m.out[-3000:], dict(kind="tlc_counterexample"))
    r = f_sparse.result()
    ctx.add_tlc("MCSparse(B=2,MaxBufs=%d,MaxOld=3)" % (4 if q else 5), r, exhaustive=True)
    ctx.log("MCSparse:", r.summary())
    if r.violation:
        viol("model:MCSparse:" + r.violation, r.out[-4000:], dict(kind="tlc_counterexample"))
    for inv, fut in wit.items():
        w = fut.result()
        ctx.add_tlc("witness:" + inv, w)
        if w.violation != inv:
            raise MachineryError("non-vacuity witness %s not produced (%s)" % (inv, w.summary()))
    pool.shutdown()
    ctx.assumptions += ["the oracle for xz is the single-threaded lzma_stream_decoder with xz's flags; xz itself uses lzma_stream_decoder_mt",
                        "xz's format sniffing (is_format_*) is mirrored in harness/cli/c18_decode.py: it is an input of CliDecode, not part of liblzma",
                        "ext4 in the sandbox: holes are observed through the lseek/write calls, not through st_blocks"]
    return ctx.finish(rule="evaluations = tool runs whose stdout / exit status / target file / output system calls were compared with the "
                      "TLA+ prediction and the library decode; distinct by (input, tool, options) / (plaintext, sink, threads)",
                      trusted=["TLC", "strace", "ctypes driver of liblzma (ASan build)"])
