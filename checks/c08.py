"""C08 - threaded compression is correct, ordered and live under every schedule.

(M) MtEncoder.tla (one action per critical section of stream_encoder_mt.c / outqueue.c) checked by TLC against the
    contract in MCMtEncoder.tla: ordered output, Blocks partition the input at block_size / requested offsets only,
    FULL_FLUSH / FULL_BARRIER / FINISH completion conditions, truthful monotone progress, no premature BUF_ERROR,
    deadlock freedom (lost wake-ups with Spurious = FALSE), for all interleavings and application slicings within
    small constants, in several configurations (worker failure, timeout, spurious wake-ups, 1 thread).
(V) real lzma_stream_encoder_mt (TSan build, VERIF_EV hooks, --wrap'ped pthread_cond_signal, seeded schedule
    perturbation, slicing, flush/barrier scripts, early lzma_end): every recorded execution must be a behaviour of
    TraceMtEncoder; the output must be one valid Stream decoding to the input, identical to the 1-thread output,
    with Block boundaries exactly at block_size multiples / requested offsets, and decodable at each completed flush.
"""
import json, os, re, concurrent.futures as cf
from lib import tlc, build, tracev
from lib.ctx import MachineryError
from harness.mt import mtlib

QUICK_MC = ["q_plain", "q_flush", "q_fail", "q_timeout", "nw1", "live", "reinit", "reinit_fixed", "reinit_bs", "reinit_bs_fixed",
            "reinit_nw_up", "reinit_nw_down", "q_failmain", "q_failmain_flush"]
ALL_MC = ["plain", "bs1", "flush", "q_barrier", "fail", "spur", "timeout", "nw1", "live", "reinit", "reinit_fixed", "reinit_fixed3", "reinit_bs", "reinit_bs_fixed", "reinit_nw_up", "reinit_nw_down", "q_failmain", "q_failmain_flush", "update"]

def model_check(ctx):
    names = QUICK_MC if ctx.quick else ALL_MC
    def go(n):
        return n, tlc.run("MCMtEncoder", cfg="MCMtEncoder_%s.cfg" % n, workers=4, timeout=2400, xmx="12g")
    if not ctx.quick:
        # beyond the exhaustive constants: random behaviours with 3 workers, 4 Blocks, time-outs and spurious wake-ups
        rs = tlc.run("MCMtEncoder", cfg="MCMtEncoder_sim3.cfg", workers=6, timeout=900, xmx="8g", simulate=25000, depth=250, seed=ctx.seed)
        ctx.add_tlc("MCMtEncoder_sim3(simulate)", rs, exhaustive=False)
        ctx.log("MC", "sim3", rs.summary())
        if rs.violation:
            ctx.violation("model:sim3:%s" % rs.violation, "TLC -simulate: %s\n%s" % (rs.violation, rs.out[-3000:]), dict(kind="tlc", cfg="sim3"))
    with cf.ThreadPoolExecutor(4) as ex:
        for n, r in ex.map(go, names):
            ctx.add_tlc("MCMtEncoder_" + n, r, exhaustive=True)
            ctx.log("MC", n, r.summary())
            if n == "reinit":
                # FixLostWorker = FALSE: xz 5.8.1 as released.  It must violate NoLostWorker (non-vacuity of the
                # re-initialisation part of the model); the repaired behaviour is checked by reinit_fixed.
                if r.violation != "NoLostWorker":
                    raise MachineryError("MCMtEncoder_reinit.cfg (released 5.8.1 variant) no longer violates NoLostWorker: %s" % r.summary())
                continue
            if n == "reinit_bs":
                # FixBlockSize = FALSE: xz 5.8.1 as released reuses the workers' input buffers when the handle is
                # re-initialised with a larger block_size; must violate InBufFits (reinit_bs_fixed: repaired tree)
                if r.violation != "InBufFits":
                    raise MachineryError("MCMtEncoder_reinit_bs.cfg (released 5.8.1 variant) no longer violates InBufFits: %s" % r.summary())
                continue
            if r.violation:
                ctx.violation("model:%s:%s" % (n, r.violation),
                              "TLC: the model of stream_encoder_mt.c violates %s in configuration %s\n%s" % (r.violation, n, r.out[-3000:]),
                              dict(kind="tlc", cfg=n))

def lost_unstarted_worker(evs):
    """Signature of the known re-init defect in a hung run: some worker was started (GtStart) before the
    re-initialisation, never began encoding (no WEncInit/WError), acknowledged STOP at the top of its loop
    afterwards and never reached WFinCoder again."""
    ri = [i for i, e in enumerate(evs) if e["e"] == "AppReinit"]
    if not ri:
        return False
    ri = ri[-1]
    for w in set(e["w"] for e in evs if e["e"] == "GtStart"):
        starts = [i for i, e in enumerate(evs[:ri]) if e["e"] == "GtStart" and e["w"] == w]
        if not starts:
            continue
        g0 = starts[-1]
        began = any(e["e"] in ("WEncInit", "WError") and e["w"] == w for e in evs[g0:ri])
        # it may also begin right after the re-init started; lost only if it acknowledged STOP while idle-looping
        acked = any(e["e"] == "WTop" and e["w"] == w and e.get("ack") == 1 and e["a"] == 0 for e in evs[g0:])
        returned = any(e["e"] == "WFinCoder" and e["w"] == w for e in evs[g0:])
        if not began and acked and not returned:
            return True
    return False

def expected_boundaries(total, bs, offsets):
    """Uncompressed sizes of the Blocks: full Blocks of bs, cut at every requested offset and at the end."""
    cuts = sorted(set(o for o in offsets if 0 < o < total) | {total})
    sizes = []; pos = 0
    for c in cuts:
        n = c - pos
        while n > bs:
            sizes.append(bs); n -= bs
        if n > 0:
            sizes.append(n)
        pos = c
    return sizes

def run(ctx):
    model_check(ctx)
    from harness.pydrv import lz, coders
    L = build.lib("asan"); lz.load(L["so"])
    exe = mtlib.driver("tsan")
    exe_asan = mtlib.driver("asan")
    rng = ctx.rng
    wd = ctx.workdir
    inputs = [("text", coders.rand_data(rng, 150000, "text")), ("rand", coders.rand_data(rng, 90000, "rand")),
              ("empty", b""), ("small", coders.rand_data(rng, 700, "text")), ("zeros", bytes(120000))]
    nseeds = 4 if ctx.quick else 12
    groups = []; jobs = []
    # The "incompressible" fallback of worker_encode() (lzma_block_uncomp_encode when the LZMA2 output no longer fits
    # in the worker's output buffer) is reached only by Blocks of many MiB of random data: LZMA2 stores such data in
    # chunks a little smaller than the 64 KiB the bound assumes.  One big Block that a barrier / flush / FINISH ends
    # a few bytes before block_size, then a short second Block.  These runs use the ASan driver (TSan is too slow).
    BIG = 24 << 20
    big_short = rng.randint(1, 4)       # the fallback is reached only if the Block is this close to block_size
    big_data = rng.randbytes(BIG - big_short + 3000)
    path = os.path.join(wd, "bigrand.in"); open(path, "wb").write(big_data)
    gbig = dict(inp="bigrand", path=path, data=big_data, nw=2, bs=BIG, timeout=0, runs=[], big=True)
    groups.append(gbig)
    for k, kind in enumerate("bf" if not ctx.quick else rng.choice("bf")):
        a = [(kind, BIG - big_short)]
        jobs.append((gbig, dict(threads=2, blocksize=BIG, timeout=0, seed=ctx.seed * 1000 + 900 + k, perturb=0, slicing=0, endafter=-1,
                                check=10, watchdog=200, asan=1, actions="%s%d" % a[0]), a))
    for ii, (iname, data) in enumerate(inputs):
        path = os.path.join(wd, iname + ".in"); open(path, "wb").write(data)
        settings = [(2, 40000, 0), (3, 25000, 0)] if ctx.quick else [(1, 40000, 0), (2, 40000, 0), (3, 25000, 0), (4, 16384, 0), (8, 20000, 0)]
        if ii % 2 == 0 or not ctx.quick:
            settings.append((2, 30000, 1))
        if iname in ("rand", "text"):
            # just below 2^14: the Compressed Size of an incompressible Block needs a longer VLI than block_size itself
            # (the Block Header must have been reserved for the biggest possible Compressed Size)
            settings.append((2, 16381 + ii % 3, 0))
        for (nw, bs, to) in settings:
            g = dict(inp=iname, path=path, data=data, nw=nw, bs=bs, timeout=to, runs=[])
            groups.append(g)
            for k in range(nseeds):
                total = len(data)
                acts = []
                if total > 1000 and k % 2 == 1:
                    for _ in range(rng.randint(1, 3)):
                        acts.append((rng.choice("fb"), rng.randrange(1, total)))
                    acts.sort(key=lambda a: a[1])
                    acts = [a for i, a in enumerate(acts) if i == 0 or a[1] != acts[i - 1][1]]
                seed = ctx.seed * 1000 + 31 * len(jobs) + k
                endafter = rng.randint(1, 8) if (k % 3 == 2 or k == 3) else -1
                p = dict(threads=nw, blocksize=bs, timeout=to, seed=seed, perturb=[0, 30, 60][k % 3],
                         slicing=1 if k else 0, endafter=endafter, actions=",".join("%s%d" % a for a in acts))
                if k % 4 in (0, 1):
                    # the action arrives in a call without new input, after the workers have consumed everything
                    p["lateact"] = 1
                jobs.append((g, p, acts))
                if k == 0 and total > 1000:
                    # lzma_filters_update() between Blocks (after a barrier / flush) and at arbitrary moments:
                    # chain [delta(dist = 1 + version), LZMA2]; Block Headers must show the version in effect
                    acts3 = sorted(set(rng.randrange(1, total) for _ in range(3)))
                    a3 = [(rng.choice("fb"), o) for o in acts3]
                    p3 = dict(p, seed=seed + 13, endafter=-1, updates=1, slicing=1, actions=",".join("%s%d" % a for a in a3))
                    jobs.append((g, p3, a3))
                if k in (1, 2) and total > 1000:
                    # one allocation fails somewhere (initialisation, thread creation, a worker's Block encoder, an
                    # output buffer, the Index ...): LZMA_MEM_ERROR or a complete correct Stream, never a hang, a race
                    # or a "successful" Stream that lost data.  Not trace-validated (the model has worker failures only).
                    for j in range(2 if ctx.quick else 6):
                        jobs.append((g, dict(p, seed=seed + 29 + j, endafter=-1, failalloc=rng.randint(1, 90), watchdog=20,
                                             **({"asan": 1} if j % 2 else {})), acts))
                if k == 1 and total > 1000:
                    # the same handle given to lzma_stream_encoder_mt() again without lzma_end(), then a full encode
                    p2 = dict(p, seed=seed + 7, endafter=-1, reinit_after=rng.randint(1, 6), watchdog=20)
                    jobs.append((g, p2, acts))
                    # ... and with another block_size the second time (larger or smaller): the workers' input
                    # buffers must fit the new size.  One of the two runs under ASan instead of TSan.
                    nbs = rng.choice([bs * 2 + rng.randrange(0, 5000), max(4096, bs // 2 - rng.randrange(0, 3000))])
                    p4 = dict(p, seed=seed + 17, endafter=-1, reinit_after=rng.randint(1, 6), reinit_blocksize=nbs, watchdog=20)
                    jobs.append((g, p4, acts))
                    jobs.append((g, dict(p4, seed=seed + 19, reinit_after=rng.randint(3, 12), asan=1), acts))
                    # ... and with another thread count (more / fewer), block_size unchanged or changed too
                    nthr = nw + 1 if rng.random() < 0.5 or nw == 1 else nw - 1
                    p5 = dict(p, seed=seed + 23, endafter=-1, reinit_after=rng.randint(1, 8), reinit_threads=nthr, watchdog=20)
                    if rng.random() < 0.4:
                        p5["reinit_blocksize"] = nbs
                    jobs.append((g, p5, acts))
    # every allocation ordinal of one (thorough: three) slicing run(s): count them first, then fail each in turn
    sweep_groups = [g for g in groups if g["inp"] == "text" and not g.get("big")][:1 if ctx.quick else 3]
    for g in sweep_groups:
        p0 = dict(threads=g["nw"], blocksize=g["bs"], timeout=g["timeout"], seed=ctx.seed * 1000 + 777, perturb=0, slicing=1, endafter=-1)
        r0 = mtlib.run_driver(exe_asan, "enc", g["path"], os.path.join(wd, "cnt.out"), os.path.join(wd, "cnt.tr"), failalloc=10 ** 9, **p0)
        mm = re.search(r"allocs=(\d+)", r0["stdout"])
        if not mm:
            if r0["hang"] or r0["rc"] not in (0, 66):
                # the counting run (no allocation fails in it) is an ordinary run: a hang / crash in it is a verdict
                ctx.violation(("hang:%s:T%d:to%d" % (g["inp"], g["nw"], g["timeout"])) if r0["hang"] else "crash:%s" % g["inp"],
                              "the allocation-counting run of the threaded encoder did not finish (rc %s)\n%s" % (r0["rc"], r0["stderr"][-1500:]),
                              dict(kind="run", mode="enc", params=p0, input=g["inp"]))
                continue
            raise MachineryError("could not count the allocations of a threaded encoder run: %r" % r0["stdout"][-200:])
        for kk in range(1, int(mm.group(1)) + 1):
            jobs.append((g, dict(p0, failalloc=kk, watchdog=20, actions="", **({"asan": 1} if kk % 2 else {})), []))
    def exec_job(idx):
        g, params, acts = jobs[idx]
        p = {k: v for k, v in params.items() if not (k == "actions" and v == "") and k != "asan"}
        res = mtlib.run_driver(exe_asan if params.get("asan") else exe, "enc", g["path"], os.path.join(wd, "eo.%d" % idx), os.path.join(wd, "et.%d" % idx),
                                proc_timeout=240 if g.get("big") else 60, **p)
        out = open(os.path.join(wd, "eo.%d" % idx), "rb").read() if os.path.exists(os.path.join(wd, "eo.%d" % idx)) else b""
        return idx, res, out
    with cf.ThreadPoolExecutor(8) as ex:
        results = list(ex.map(exec_job, range(len(jobs))))
    ref_cache = {}
    fallback_runs = [0]
    failruns = [0, 0]
    for idx, res, out in results:
        g, params, acts = jobs[idx]
        label = "%s:T%d:bs%d:to%d:seed%d:%s%s" % (g["inp"], g["nw"], g["bs"], g["timeout"], params["seed"], params["actions"],
                                                  (":reinit%d" % params["reinit_after"] if "reinit_after" in params else "") +
                                                  (":bs%d" % params["reinit_blocksize"] if "reinit_blocksize" in params else "") +
                                                  (":thr%d" % params["reinit_threads"] if "reinit_threads" in params else "") +
                                                  (":failalloc%d" % params["failalloc"] if "failalloc" in params else "") +
                                                  (":asan" if params.get("asan") else ""))
        # block_size in effect for the Stream that is finished (the run may end before the re-initialisation is due)
        did_reinit = any(e["e"] == "Reinited" for e in res["events"])
        bs_eff = params["reinit_blocksize"] if did_reinit and "reinit_blocksize" in params else g["bs"]
        ctx.case(key=label)
        rp = dict(kind="run", mode="enc", params=params, input=g["inp"])
        # a run that re-initialises the handle while Blocks are still being encoded: known-broken history class
        busy = False
        if "reinit_after" in params:
            fe = mtlib.fold(res["events"])[1]
            ria = [i for i, e in enumerate(fe) if e["e"] == "AppReinit"]
            if ria:
                started = [e["w"] for e in fe[:ria[-1]] if e["e"] == "GtStart"]
                done = [e["w"] for e in fe[:ria[-1]] if e["e"] == "WFinCoder"]
                busy = len(started) > len(done)
        # In such a run the schedule-dependent symptoms of the known defects (TSan reports, the lost-worker hang,
        # progress of the old Stream) are reported under the known-finding family "reinit-busy:"; if the run raced
        # (TSan reported something) everything it shows is attributed to that race.  Functional results of runs that
        # did not race (round trip, boundaries, determinism, return codes, other trace rejections) are checked normally.
        raced = busy and bool(mtlib.tsan_keys(res["stderr"]))
        pre = "reinit-busy:" if busy else ""
        _viol = ctx.violation
        def violation(key, detail, replay_obj=None, _busy=busy, _raced=raced):
            masked = _busy and (_raced or key.startswith("tsan:") or key == "lost-unstarted-worker")
            return _viol(("reinit-busy:" if masked else "") + key, detail, replay_obj)
        for key, rep in mtlib.tsan_keys(res["stderr"]):
            violation(key, rep, rp)
        if res["hang"] and "reinit_after" in params and lost_unstarted_worker(mtlib.fold(res["events"])[1]):
            violation("lost-unstarted-worker", "re-initialised encoder hangs: a worker that had been given a Block but had not "
                          "started was told to stop and never returned to the free stack (%s)" % label, rp)
            continue
        if res["hang"]:
            violation("hang:%s:T%d:to%d" % (g["inp"], g["nw"], g["timeout"]),
                          "driver watchdog fired: deadlock or lost wake-up\n" + json.dumps(res["events"][-10:]), rp)
            continue
        if "AddressSanitizer" in res["stderr"]:
            kind = re.search(r"AddressSanitizer: ([a-z-]+)", res["stderr"])
            fn = re.search(r"#\d+ 0x[0-9a-f]+ in (\w+) [^\n]*src/liblzma", res["stderr"])
            violation("asan:%s:%s%s" % (kind.group(1) if kind else "report", fn.group(1) if fn else "?",
                                        ":reinit-blocksize" if "reinit_blocksize" in params else ""),
                      "AddressSanitizer report in a threaded encoder run (%s)\n%s" % (label, res["stderr"][:3000]), rp)
            continue
        if res["rc"] not in (0, 66):
            violation("crash:%s" % g["inp"], "driver exit %s\n%s" % (res["rc"], res["stderr"][-3000:]), rp)
            continue
        init_ev, evs = mtlib.fold(res["events"])
        if "failalloc" in params:
            rets_f = [e for e in evs if e["e"] == "Ret"]
            last_f = rets_f[-1]["a"] if rets_f else (init_ev or {}).get("a")
            if last_f == lz.STREAM_END:
                st = coders.decode_with("lzma_stream_decoder", (lz.UINT64_MAX, 0), out, out_cap=len(g["data"]) + 4096)
                if st["ret"] != lz.STREAM_END or st["out"] != g["data"]:
                    violation("failalloc:finished-but-wrong:%s" % g["inp"], "with one failed allocation the encoder reported "
                              "LZMA_STREAM_END but the output does not decode to the input (%s)" % label, rp)
            elif last_f != lz.MEM_ERROR:
                violation("failalloc:ret:%s" % g["inp"], "with one failed allocation the encoder ended with %s, neither "
                          "LZMA_MEM_ERROR nor LZMA_STREAM_END (%s)" % (last_f, label), rp)
            failruns[0 if last_f == lz.MEM_ERROR else 1] += 1
            if last_f != lz.STREAM_END:
                # the failure path (threads_stop, LZMA_MEM_ERROR, lzma_end) must be a behaviour of the model too
                if init_ev is not None and init_ev.get("a") == 0:
                    g["runs"].append((label, [{"e": "Reset", "tailsz": 0}] + [e for e in evs if e["e"] != "FlushDone"]))
                continue
            # the failing ordinal was never reached: an ordinary run, judged as such below
        if g.get("big"):
            fallback_runs[0] += any(e["e"] == "WEncCode" and e["d"] == 1 for e in evs)
        if any(e["e"] == "TOOMANYCALLS" for e in evs):
            # 200000 lzma_code() calls without an end: the coder keeps returning LZMA_OK without getting anywhere
            violation("livelock:%s:T%d:to%d" % (g["inp"], g["nw"], g["timeout"]), "200000 lzma_code() calls did not finish the run: calls keep "
                      "returning without progress and without LZMA_BUF_ERROR (%s)\n%s" % (label, json.dumps(evs[-8:])), rp)
            continue
        if any(e["e"] == "OVERFLOW" for e in evs):
            raise MachineryError("driver event buffer overflow: " + label)
        ri = max([i for i, e in enumerate(evs) if e["e"] == "Reinited"] + [0])
        blocks = [e for e in evs[ri:] if e["e"] == "WFinCoder" and e["a"] == 2 and e["d"] == 1]
        data = g["data"]
        # decodability at each completed FULL_FLUSH (FlushDone: a = action, b = input offset, c = output offset)
        for e in evs[ri:]:
            if e["e"] == "FlushDone" and e["a"] == lz.FULL_FLUSH:
                c = lz.Coder(); assert c.init("lzma_stream_decoder", lz.UINT64_MAX, 0) == lz.OK
                r = lz.run_coder(c, out[:e["c"]], out_cap=len(data) + 4096); c.end()
                if r["out"] != data[:e["b"]] or r["ret"] not in (lz.OK, lz.BUF_ERROR):
                    violation("flush:not-decodable:%s" % g["inp"],
                                  "after FULL_FLUSH at input offset %d the output so far (%d bytes) decodes to %d bytes (ret %s) (%s)" % (
                                      e["b"], e["c"], len(r["out"]), r["ret"], label), rp)
        rets = [e for e in evs if e["e"] == "Ret"]
        finished = params["endafter"] < 0 or bool(rets and rets[-1]["a"] == lz.STREAM_END and rets[-1]["b"] == len(data)
                                                 and not any(e["e"] == "FlushDone" for e in evs[-3:]))
        if finished:
            last = rets[-1]["a"] if rets else None
            if last != lz.STREAM_END:
                violation("finish:ret:%s" % g["inp"], "encoder ended with %s (%s)" % (last, label), rp)
            else:
                st = coders.decode_with("lzma_stream_decoder", (lz.UINT64_MAX, 0), out, out_cap=len(data) + 4096)
                if st["ret"] != lz.STREAM_END or st["out"] != data:
                    violation("finish:roundtrip:%s" % g["inp"], "output does not decode to the input (%s)" % label, rp)
                else:
                    lay = mtlib.layout(out)
                    if "updates" in params:
                        # the delta distance in each Block Header = the one its worker was given (hook) in Block order
                        by_w = {}; dist_by_blk = []
                        for e in evs[ri:]:
                            if e["e"] == "GtStart":
                                by_w[e["w"]] = len(dist_by_blk); dist_by_blk.append(None)
                            elif e["e"] == "WEncInit" and e["w"] in by_w:
                                dist_by_blk[by_w[e["w"]]] = e["a"]
                        hdr = []
                        for b in lay["blocks"]:
                            h = out[b["off"]:b["off"] + b["bh"]]
                            # Block Header: size, flags, [csize vli], [usize vli], filter flags: id 0x03, size 1, dist-1
                            pos = 2
                            for bit in (0x40, 0x80):
                                if h[1] & bit:
                                    _, pos = mtlib.vli(h, pos)
                            hdr.append(h[pos + 2] + 1 if h[pos] == 0x03 else 0)
                        if hdr != [d for d in dist_by_blk if d is not None][:len(hdr)]:
                            violation("finish:update-chain:%s" % g["inp"], "delta distances in the Block Headers %s differ from "
                                      "the chains given to the workers %s (%s)" % (hdr[:10], dist_by_blk[:10], label), rp)
                    got = [b["outsz"] for b in lay["blocks"]]
                    exp = expected_boundaries(len(data), bs_eff, [o for _, o in acts])
                    if got != exp or any(b["hdr"] != "ok" for b in lay["blocks"]):
                        violation("finish:boundaries:%s" % g["inp"], "Block sizes %s, expected %s (%s)" % (got[:12], exp[:12], label), rp)
                    # determinism: same bytes as the single-thread run with the same options and actions
                    rk = (g["inp"], bs_eff, params["actions"]) if "updates" not in params else None
                    if rk is not None and rk not in ref_cache:
                        p1 = dict(threads=1, blocksize=bs_eff, seed=1, slicing=0)
                        if params["actions"]:
                            p1["actions"] = params["actions"]
                        if "check" in params:
                            p1.update(check=params["check"], watchdog=200)
                        r1 = mtlib.run_driver(exe_asan if g.get("big") else exe, "enc", g["path"], os.path.join(wd, "ref.out"), os.path.join(wd, "ref.tr"), **p1)
                        if r1["hang"] or r1["rc"] not in (0, 66) or not os.path.exists(os.path.join(wd, "ref.out")):
                            violation("hang:%s:T1:to0" % g["inp"], "single-thread reference run did not terminate / failed (rc %s)" % r1["rc"],
                                          dict(kind="run", mode="enc", params=p1, input=g["inp"]))
                            ref_cache[rk] = None
                        else:
                            ref_cache[rk] = open(os.path.join(wd, "ref.out"), "rb").read()
                            os.unlink(os.path.join(wd, "ref.out"))
                    if rk is not None and ref_cache[rk] is not None and ref_cache[rk] != out:
                        violation("finish:determinism:%s" % g["inp"], "output differs from the 1-thread one-shot output (%s)" % label, rp)
        tailsz = len(out) - 12 - sum(e["b"] for e in blocks) if finished else 0
        evs2 = [e for e in evs if e["e"] != "FlushDone" and not (e["e"] == "Reinited" and e["a"] != 0)]
        g["runs"].append(((("reinit-raced:" if raced else pre) + label), [{"e": "Reset", "tailsz": max(tailsz, 0)}] + evs2))
    if not fallback_runs[0]:
        raise MachineryError("no run reached the incompressible-Block fallback of worker_encode (vacuous bigrand group)")
    ctx.log("incompressible fallback reached in %d run(s)" % fallback_runs[0])
    ctx.log("allocation-failure runs: %d ended with LZMA_MEM_ERROR, %d completed" % tuple(failruns))
    def validate_group(g):
        if not g["runs"]:
            return g, None
        cfgline = dict(e="Config", nw=g["nw"], nwmax=g["nw"] + 1, bs=g["bs"], total=len(g["data"]), timeout=bool(g["timeout"]))
        sub = type(ctx)(ctx.pid, ctx.tier, ctx.seed)
        sub.workdir = os.path.join(ctx.workdir, "g%d" % id(g)); os.makedirs(sub.workdir, exist_ok=True)
        sub.findings = ctx.findings
        tracev.validate(sub, "TraceMtEncoder", g["runs"],
                        lambda label, e, i: ("reinit-busy:" if (label.startswith("reinit-raced:") or
                                                                 (label.startswith("reinit-busy:") and e.get("e") == "Progress")) else "") +
                        "trace:%s:%s" % (label.replace("reinit-busy:", "").replace("reinit-raced:", "").split(":")[0], e.get("e")),
                        prelude=[cfgline], name="TraceMtEncoder.%s.%d.%d.%d" % (g["inp"], g["nw"], g["bs"], g["timeout"]), maxl=True)
        return g, sub
    with cf.ThreadPoolExecutor(5) as ex:
        for g, sub in ex.map(validate_group, groups):
            if sub is None:
                continue
            ctx.states += sub.states; ctx.transitions += sub.transitions; ctx.traces += sub.traces
            ctx.tlc_runs += sub.tlc_runs; ctx.violations += sub.violations; ctx.known_hits += sub.known_hits
    if groups and groups[0]["runs"]:
        ctx.sample(dict(kind="recorded_execution_head", label=groups[0]["runs"][0][0], events=groups[0]["runs"][0][1][:40]))
    ctx.assumptions += ["critical sections are atomic (lock discipline); TSan observes executed interleavings only",
                        "the incompressible-fallback path (lzma_block_uncomp_encode) is reached by the 24 MiB random-data runs only (ASan build, 2 threads)",
                        "model constants: <= 2 workers, block_size <= 2 units, <= 4 input units, <= 8 calls"]
    return ctx.finish(rule="evaluations = threaded encoder executions (input x threads x block_size x timeout x seed: slicing + "
                      "schedule perturbation + flush/barrier script + early lzma_end), each recorded through the hooks and "
                      "validated against TraceMtEncoder; distinct by parameter tuple",
                      trusted=["TLC", "TSan", "hooks under TUKAANI_PROJECT_XZ_VERIF", "mt_drv.c"])
