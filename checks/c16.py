"""C16 - legacy .lzma, foreign .lz and auto-detection follow their format rules.

(M) MCFormats: the implementation-shaped models (spec/Alone.tla = alone_decoder.c, Lzip.tla = lzip_decoder.c,
    Auto.tla = auto_decoder.c + the lzma_code() BUF_ERROR rule, XzPadding.tla = SEQ_STREAM_HEADER/FOOTER/PADDING of
    stream_decoder.c, Lzma1End.tla = end marker / known size rules of lzma_decoder.c), driven by FormatDriver.tla
    with EVERY slicing of the input and both finishing styles, end with what FormatContract.tla (declarative
    format rules) demands.  Three deliberately broken variants (= xz 5.8.1 as released) must violate the contract.
(G/R) GenFormats: one plan per abstract file x decoder x flags x finishing style with the model's outcome.  Every plan
    is serialised with harness/glue (independent of liblzma) and replayed into lzma_alone_decoder /
    lzma_lzip_decoder / lzma_stream_decoder / lzma_auto_decoder under many slicings; (return codes other than OK,
    output, total_in) must be the predicted ones.  harness/glue is the second judge of every file.
(CLI) the same files through xz -dc --format=..., --single-stream, xzdec, lzmadec, lzmainfo: exit status and
    stdout as the model says.
"""
import json, os, subprocess, threading, random, hashlib, concurrent.futures, multiprocessing, time
from lib import tlc, build
from lib.ctx import MachineryError
from checks.c11 import plans_from_tlc

HERE = os.path.dirname(os.path.dirname(os.path.abspath(__file__)))
VARIANT_EXTRA = {"reinit_stale": "alone_decoder.c: uncompressed_size survives a re-initialisation of the handle"}
VARIANTS = {"eopm_local": "lzma_decoder.c: eopm_is_valid recomputed on every call",
            "picky_zero": "alone_decoder.c: dictionary size 0 passes the plausibility test",
            "finish_all": "auto_decoder.c: trailing-garbage test applied to .lz/.xz too"}

def write_cfg(ctx, name, base, **subst):
    txt = open(os.path.join(HERE, "spec", base)).read()
    import re
    for k, v in subst.items():
        txt, n = re.subn(r"\b%s = (\{[^}]*\}|\S+)" % k, "%s = %s" % (k, v), txt)
        if n != 1:
            raise MachineryError("cfg %s: constant %s not found" % (base, k))
    path = os.path.join(ctx.workdir, "c16_%s.cfg" % name)       # scratch dir of this run, removed by ctx.finish
    with open(path, "w") as f:
        f.write(txt)
    return path

# ------------------------------------------------------------------------------------------------ replay
def slicings(lay, n, rng, thorough):
    """lists of piece sizes for a file of n bytes: one-shot, byte-wise, two-piece splits, a few random ones"""
    out = [("oneshot", []), ("bytewise", [1] * n)] if n > 1 else [("oneshot", [])]
    if n > 1:
        pts = set()
        if thorough and n <= 260:
            pts = set(range(1, n))
        else:
            c = 0
            for _, b in lay.segs:          # around every field / region boundary
                for d in (-3, -2, -1, 0, 1, 2, 3):
                    if 0 < c + d < n:
                        pts.add(c + d)
                c += len(b)
            pts = set(rng.sample(sorted(pts), min(len(pts), 5 if not thorough else 60)))
            for _ in range(1 if not thorough else 12):
                pts.add(rng.randrange(1, n))
            # the last bytes of every payload (end marker)
            c = 0
            for cls, b in lay.segs:
                c += len(b)
                if cls == "P":
                    for d in range(1, 8):
                        if 0 < c - d < n and (thorough or rng.random() < 0.25):
                            pts.add(c - d)
        for p in sorted(pts):
            out.append(("split2@%d" % p, [p]))
        for j in range(1 if not thorough else 6):
            ps = []; left = n
            while left > 0 and len(ps) < 40:
                k = rng.choice((1, 1, 2, 3, 5, 8, 13)) if rng.random() < 0.7 else rng.randrange(1, left + 1)
                ps.append(k); left -= k
            out.append(("random%d" % j, ps))
    return out

def classify(plan, what, exp_last, got_last, sliced):
    fd = plan["fd"]; api = plan["api"]; fmt = fd["fmt"]; fl = plan["flags"]
    if what == "rets" and fmt == "alone" and api in ("alone", "auto") and exp_last == "STREAM_END" and got_last == "DATA_ERROR" \
            and fd["eopm"] and fd["usz"] in ("exact", "zero") and sliced:
        return "slice:lzma1:known-size+eopm:split-in-eopm"
    if what == "rets" and fmt == "lzip" and api == "auto" and "CONCATENATED" in fl and exp_last == "STREAM_END" \
            and got_last == "DATA_ERROR":
        return "auto:lzip:concatenated:trailing-data"
    if what == "rets" and fmt == "alone" and api == "auto" and fd["dict"] == [0, 0] and exp_last == "FORMAT_ERROR":
        return "header:lzma:picky:dict_size=0"
    return "replay:%s:%s:%s:%s->%s" % (api, fmt, what, exp_last, got_last)

def expected_of(plan, S, lay, drv):
    """concrete expectation of a plan: rets, output relation, total_in (None = not compared)"""
    rets = plan["rets"]
    rel = plan["exp"]["outRel"]
    # "eq": the model's count; "ge"/"le": the contract's bound (the model's own count of a cut payload is abstract)
    out = drv.map_out(S, plan["out"] if rel == "eq" else plan["exp"]["out"])
    tin = lay.ccut if plan["tin"] == plan["len"] else lay.a2c(plan["tin"])
    return rets, rel, out, tin

def replay_chunk(args):
    """worker: replay plans [(idx, plan)] -> (ncases, casekeys, mismatches, sample)"""
    seed, thorough, items, sopath, mdir = args
    from harness.pydrv import lz, c16drv as drv
    marker = os.path.join(mdir, "w%d.json" % os.getpid()) if mdir else None
    if lz.L() is None:
        lz.load(sopath)
    mism = []; keys = []; sample = None; cache = {}
    for idx, plan in items:
        fd = plan["fd"]
        fk = drv.fd_key(fd)
        if marker:
            with open(marker, "w") as mf:
                json.dump([idx, plan], mf)
        if fk not in cache:
            if len(cache) > 64:
                cache.clear()
            S = drv.serialise(fd, seed)
            lay = drv.Layout(plan["kinds"], S, fd["cut"])
            cache[fk] = (S, lay)
        S, lay = cache[fk]
        if not lay.ok:
            mism.append(dict(machinery="layout of the serialised file does not mirror the abstract tokens", plan=plan))
            continue
        data = S.full[:lay.ccut]
        e_rets, rel, e_out, e_tin = expected_of(plan, S, lay, drv)
        alld = drv.all_data(S)
        rng = random.Random("%s/%d" % (seed, idx))
        runs = [(plan["api"], sn, pc) for sn, pc in slicings(lay, len(data), rng, thorough)]
        if plan["api"] == "stream":
            # the threaded .xz decoder (what the xz tool uses) has its own copy of the Stream Padding code
            runs += [("stream_mt", sn, pc) for _, sn, pc in (runs if thorough else runs[:6])]
        for rapi, sname, pieces in runs:
            r = drv.drive(rapi, plan["flags"], data, pieces, plan["mode"])
            keys.append("%s/%s/%s/%s/%s" % (fk[:10], rapi, ",".join(sorted(plan["flags"])), plan["mode"], sname))
            bad = None
            if not r["ok"]:
                bad = ("acct", "ok", "broken")
            elif r["rets"] != e_rets:
                bad = ("rets", e_rets[-1] if e_rets else "none", r["rets"][-1] if r["rets"] else "none")
                if e_rets[:-1] != r["rets"][:-1] and e_rets[-1:] == r["rets"][-1:]:
                    bad = ("rets", "+".join(e_rets), "+".join(r["rets"]))
            elif e_out is None and rel == "eq":
                bad = ("machinery", "out", "unmappable")
            elif rel == "eq" and r["out"] != e_out:
                bad = ("out", "%d" % len(e_out), "%d" % len(r["out"]) if len(r["out"]) != len(e_out) else "differs")
            elif rel == "ge" and not (e_out is not None and r["out"].startswith(e_out)):
                bad = ("out", "prefix-kept", "lost")
            elif rel == "le" and not (alld.startswith(r["out"]) and (e_out is None or len(r["out"]) <= len(e_out))):
                bad = ("out", "at-most", "more-or-different")
            elif e_tin is not None and r["total_in"] != e_tin:
                bad = ("tin", str(e_tin - len(data)) if e_tin >= len(data) else "mid", "%+d" % (r["total_in"] - e_tin))
            elif e_tin is None and plan["exp"]["tin"] != -1:
                bad = ("machinery", "tin", "unmappable")
            if bad:
                if bad[0] == "machinery":
                    mism.append(dict(machinery="%s %s" % bad[1:], plan=plan))
                else:
                    key = classify(dict(plan, api=rapi), bad[0], bad[1], bad[2], bool(pieces))
                    mism.append(dict(key=key, plan=plan, slicing=sname, pieces=pieces, file=data.hex(),
                                     expected=dict(rets=e_rets, out=None if e_out is None else e_out.hex(), outRel=rel, tin=e_tin),
                                     got=dict(rets=r["rets"], out=r["out"].hex(), tin=r["total_in"])))
            elif sample is None and pieces and plan["fd"]["fmt"] == "lzip" and len(plan["fd"]["mem"]) > 1:
                sample = dict(kind="replayed_plan", plan={k: plan[k] for k in ("fd", "api", "flags", "mode", "rets", "out", "tin")},
                              slicing=sname, file=data.hex(), observed=dict(rets=r["rets"], out=r["out"].hex(), tin=r["total_in"]))
    if marker:
        try:
            os.unlink(marker)
        except OSError:
            pass
    return len(keys), keys, mism, sample

class MiniCtx:
    """stand-in for the context inside a forked worker: records what the parent replays into the real one"""
    def __init__(self, ctx):
        self.seed = ctx.seed; self.tier = ctx.tier; self.workdir = ctx.workdir; self.quick = ctx.quick
        self.rng = random.Random("%s/child" % ctx.seed)
        self.cases = []; self.viols = []; self.samples = []; self.traces = 0; self.logs = []; self.extra = {}; self.tlc = []
        self.tlc_runs = []
    def case(self, key=None, nontrivial=True): self.cases.append(key)
    def violation(self, key, detail, replay_obj=None): self.viols.append((key, detail, replay_obj))
    def sample(self, obj, limit=6): self.samples.append(obj)
    def add_traces(self, n=1): self.traces += n
    def log(self, *a): self.logs.append(" ".join(str(x) for x in a))
    def add_tlc(self, name, r, exhaustive=None): self.tlc.append((name, r, exhaustive))
    def merge_into(self, ctx):
        for k in self.cases: ctx.case(key=k)
        for v in self.viols: ctx.violation(*v)
        for x in self.samples: ctx.sample(x)
        for l in self.logs: ctx.log(l)
        for t in self.tlc: ctx.add_tlc(*t)
        ctx.tlc_runs += self.tlc_runs
        ctx.add_traces(self.traces); ctx.extra.update(self.extra)

def _child(args):
    fn, mini, fargs = args
    out = fn(mini, *fargs)
    return mini, out

def _kill_pool(ex):
    for p in list((getattr(ex, "_processes", None) or {}).values()):
        try:
            p.kill()
        except Exception:
            pass
    ex.shutdown(wait=False, cancel_futures=True)

def isolated(ctx, label, fn, fargs, timeout):
    """run fn(ctx-like, *fargs) in a forked process: liblzma runs in-process there, so an abort (assertion,
    sanitizer report) or a hang must end as a violation and never take the check down or block it"""
    from concurrent.futures.process import BrokenProcessPool
    if not ctx.quick:
        # thorough tier: run in-process.  The forked child of this phase was seen to dead-lock right after fork() in the
        # thorough tier on the unchanged tree (the parent holds more threads there); termination is then guaranteed by
        # the wall-clock cap of ./check instead of by this isolation.
        return fn(ctx, *fargs)
    ex = concurrent.futures.ProcessPoolExecutor(1, mp_context=multiprocessing.get_context("fork"))
    fut = ex.submit(_child, (fn, MiniCtx(ctx), fargs))
    try:
        mini, out = fut.result(timeout=timeout)
        ex.shutdown(wait=True)
        mini.merge_into(ctx)
        return out
    except BrokenProcessPool:
        _kill_pool(ex)
        ctx.violation("crash:%s" % label, "the process running '%s' against the in-process liblzma died (abort / assertion / "
                      "sanitizer report; see stderr above)" % label, dict(kind="crash", phase=label))
    except concurrent.futures.TimeoutError:
        _kill_pool(ex)
        ctx.violation("hang:%s" % label, "'%s' did not finish within %d s" % (label, timeout), dict(kind="hang", phase=label))
    return None

def _one_plan(args):
    return replay_chunk(args)[2]

def crash_key(plan):
    fd = plan["fd"]; extra = ""
    if fd["fmt"] == "lzip":
        ds = [m["ds"] for m in fd["mem"] if m["ds"] != 12]
        extra = ":ds=0x%02X" % ds[0] if ds else ""
    elif fd["fmt"] == "alone":
        extra = ":props=%d" % fd["props"] if fd["props"] != 93 else ":usz=%s" % fd["usz"]
    return "%s:%s%s" % (plan["api"], fd["fmt"], extra)

def replay(ctx, plans, sopath, nproc):
    items = list(enumerate(plans))
    # keep the plans of one file together (serialised once), spread files over the workers
    items.sort(key=lambda ip: json.dumps(ip[1]["fd"], sort_keys=True))
    nchunk = max(nproc * 6, 1)
    size = (len(items) + nchunk - 1) // nchunk
    chunks = [(ctx.seed, not ctx.quick, items[i:i + size], sopath) for i in range(0, len(items), size)]
    from concurrent.futures.process import BrokenProcessPool
    mdir = os.path.join(ctx.workdir, "markers"); os.makedirs(mdir, exist_ok=True)
    chunks = [c + (mdir,) for c in chunks]
    limit = 900 if ctx.quick else 7200       # generous: the machine may be shared (normal: < 1 min / a few minutes)
    deadline = time.time() + limit
    fork = multiprocessing.get_context("fork")
    ex = concurrent.futures.ProcessPoolExecutor(nproc, mp_context=fork)
    futs = [ex.submit(replay_chunk, c) for c in chunks]
    results = []; failed = None
    for f in futs:
        try:
            results.append(f.result(timeout=max(1.0, deadline - time.time())))
        except BrokenProcessPool:
            failed = failed or "crash"
        except concurrent.futures.TimeoutError:
            failed = "hang"; break
    if failed:
        _kill_pool(ex)
        # which case was running?  every worker leaves a marker with its current plan; re-run each one alone
        suspects = []
        for fn in sorted(os.listdir(mdir)):
            try:
                suspects.append(json.load(open(os.path.join(mdir, fn))))
            except Exception:
                pass
        found = False
        for idx, plan in suspects[:8]:
            ex1 = concurrent.futures.ProcessPoolExecutor(1, mp_context=fork)
            fu = ex1.submit(_one_plan, (ctx.seed, not ctx.quick, [(idx, plan)], sopath, None))
            kind = None
            try:
                fu.result(timeout=90)
                ex1.shutdown(wait=True)
            except BrokenProcessPool:
                kind = "crash"
            except concurrent.futures.TimeoutError:
                kind = "hang"
            if kind:
                _kill_pool(ex1)
                found = True
                ctx.violation("%s:%s" % (kind, crash_key(plan)), "decoding this file %s the process (liblzma in-process: abort / assertion / "
                              "sanitizer report on stderr): %s" % ("kills" if kind == "crash" else "never returns in", json.dumps(
                                  {k: plan[k] for k in ("fd", "api", "flags", "mode", "rets")})[:900]), dict(kind="plan_crash", plan=plan))
        if not found:
            ctx.violation("%s:replay-worker" % failed, "a replay worker %s; the case could not be singled out; running plans: %s" % (
                "died" if failed == "crash" else "did not finish within %d s" % limit,
                json.dumps([p["fd"] for _, p in suspects])[:1200]), dict(kind="worker_" + failed))
    else:
        ex.shutdown(wait=True)
    seen = set(); n = 0
    for cnt, keys, mism, sample in results:
        n += cnt
        for k in keys:
            ctx.case(key=k)
        if sample:
            ctx.sample(sample)
        for m in mism:
            if "machinery" in m:
                raise MachineryError("replay: %s: %s" % (m["machinery"], json.dumps(m["plan"])[:600]))
            if m["key"] in seen:
                continue
            seen.add(m["key"])
            ctx.violation(m["key"], "slicing %s: expected %s, got %s (file %s)" % (
                m["slicing"], m["expected"], m["got"], m["file"][:160]), dict(kind="plan", **m))
    ctx.add_traces(len(plans))
    return n

# ------------------------------------------------------------------------------------------------ handle re-use
def compare(plan_like, S, lay, r, data, drv):
    """-> None or (what, expected, got) for one decoder run against one per-file prediction"""
    e_rets, rel, e_out, e_tin = expected_of(plan_like, S, lay, drv)
    if not r["ok"]:
        return ("acct", "ok", "broken")
    if r["rets"] != e_rets:
        return ("rets", "+".join(e_rets) or "none", "+".join(r["rets"]) or "none")
    if rel == "eq" and e_out is not None and r["out"] != e_out:
        return ("out", str(len(e_out)), str(len(r["out"])))
    if rel == "ge" and not (e_out is not None and r["out"].startswith(e_out)):
        return ("out", "prefix-kept", "lost")
    if rel == "le" and not drv.all_data(S).startswith(r["out"]):
        return ("out", "at-most", "different")
    if e_tin is not None and r["total_in"] != e_tin:
        return ("tin", str(e_tin), str(r["total_in"]))
    return None

def seq_files(sp, seed, drv):
    out = []
    for j, f in enumerate(sp["files"]):
        S = drv.serialise(f["fd"], "%s.%d" % (seed, j))
        lay = drv.Layout(f["kinds"], S, f["fd"]["cut"])
        if not lay.ok:
            raise MachineryError("sequence plan: layout mismatch %s" % json.dumps(f["fd"])[:300])
        out.append((f, S, lay, S.full[:lay.ccut]))
    return out

def replay_sequences(ctx, splans):
    """FormatSeq plans: the files of a sequence are decoded one after the other on ONE lzma_stream that is
    re-initialised (constructor called again, no lzma_end) between them; every file must give what the model
    predicts for it - which is what a fresh decoder gives."""
    from harness.pydrv import lz, c16drv as drv
    seen = set(); n = 0
    for k, sp in enumerate(splans):
        files = seq_files(sp, ctx.seed, drv)
        rng = random.Random("%s/seq/%d" % (ctx.seed, k))
        apis = [sp["api"]] + (["stream_mt"] if sp["api"] == "stream" else [])
        styles = ["oneshot", "bytewise", "split"] + ([] if ctx.quick else ["split", "split", "random"])
        for rapi in apis:
            for style in styles:
                c = lz.Coder()
                for j, (f, S, lay, data) in enumerate(files):
                    nb = len(data)
                    pieces = [] if style == "oneshot" or nb < 2 else [1] * nb if style == "bytewise" else \
                        [rng.randrange(1, nb)] if style == "split" else [rng.randrange(1, 9) for _ in range(nb)]
                    r = drv.drive(rapi, sp["flags"], data, pieces, sp["mode"], coder=c)
                    n += 1
                    ctx.case(key=("seq", k, rapi, style, j, tuple(pieces[:40])))
                    pl = dict(f, api=rapi, flags=sp["flags"], mode=sp["mode"])
                    bad = compare(pl, S, lay, r, data, drv)
                    if bad:
                        fresh = compare(pl, S, lay, drv.drive(rapi, sp["flags"], data, pieces, sp["mode"]), data, drv)
                        if j > 0 and fresh is None:
                            key = "reuse:%s:%s:after-%s:%s:%s->%s" % (rapi, f["fd"]["fmt"], files[j - 1][0]["fd"]["fmt"], bad[0], bad[1], bad[2])
                        else:
                            key = classify(pl, bad[0], bad[1].split("+")[-1], bad[2].split("+")[-1], bool(pieces))
                        if key not in seen:
                            seen.add(key)
                            ctx.violation(key, "file %d of a sequence on one re-initialised handle (%s, %s, %s): expected %s got %s; "
                                          "a fresh handle %s" % (j + 1, rapi, sp["flags"], style, bad[1], bad[2],
                                                                 "is fine" if fresh is None else "differs too"),
                                          dict(kind="sequence", api=rapi, flags=sp["flags"], mode=sp["mode"], style=style, index=j,
                                               files=[d.hex() for _, _, _, d in files], model=[x[0]["rets"] for x in files]))
                        break
                c.end()
    if splans:
        sp = splans[len(splans) // 2]
        ctx.sample(dict(kind="sequence_plan", api=sp["api"], flags=sp["flags"], mode=sp["mode"],
                        files=[dict(fd=f["fd"], rets=f["rets"], out=f["out"], tin=f["tin"]) for f in sp["files"]]))
    ctx.add_traces(len(splans))
    return n

def cli_sequences(ctx, splans):
    """xz -dc f1 f2 .., lzmadec f1 f2 .., xzdec f1 f2 ..: one process, one lzma_stream re-initialised per file"""
    from harness.pydrv import c16drv as drv
    cli = build.cli()
    env = dict(os.environ); env.pop("LD_PRELOAD", None); env["LC_ALL"] = "C"
    ML = "--memlimit-decompress=%d" % drv.MEMLIMIT
    jobs = []
    for k, sp in enumerate(splans):
        if sp["mode"] != "finish":
            continue
        fl = tuple(sorted(sp["flags"])); api = sp["api"]
        fmts = set(f["fd"]["fmt"] for f in sp["files"])
        if api == "alone" and not fl:
            tool, argv, stop = "lzmadec", [], True
        elif api == "stream" and fl == ("CONCATENATED",):
            tool, argv, stop = "xzdec", [], True
        elif api in ("auto", "lzip", "stream") and (fl == ("CONCATENATED", "TELL_UNSUPPORTED_CHECK") or
                                                    (fl == ("CONCATENATED",) and "xz" not in fmts)):
            tool, argv, stop = "xz", ["-dc", ML, "-T1" if k % 2 else "-T3"], False
        else:
            continue
        jobs.append((k, sp, tool, argv, stop))
    if ctx.quick:
        ctx.rng.shuffle(jobs)
        # sequences that mix formats first (state carried from one file's format to the next)
        jobs.sort(key=lambda j: len(set(f["fd"]["fmt"] for f in j[1]["files"])) == 1)
        per = {}; keep = []
        for j in jobs:
            fam = (j[2], tuple(file_class(f["fd"]) for f in j[1]["files"]))
            if fam not in per and len([1 for x in keep if x[2] == j[2]]) < 80:
                per[fam] = 1; keep.append(j)
        jobs = keep
    def one(job):
        k, sp, tool, argv, stop = job
        files = seq_files(sp, ctx.seed, drv)
        d = os.path.join(ctx.workdir, "seq%d" % k)
        os.makedirs(d, exist_ok=True)
        paths = []
        exp_out = b""; exp_rc = 0; cmp_out = True
        for j, (f, S, lay, data) in enumerate(files):
            p = os.path.join(d, "f%d" % j)
            with open(p, "wb") as fh:
                fh.write(data)
            paths.append(p)
        for f, S, lay, data in files:
            last = f["rets"][-1]
            eo = drv.map_out(S, f["out"]) if f["exp"]["outRel"] == "eq" else None
            if eo is None:
                cmp_out = False
            else:
                exp_out += eo
            good = last == "STREAM_END" and (tool != "lzmadec" or f["tin"] == f["len"])
            if not good:
                exp_rc = 1
                if stop:
                    break
            elif "UNSUPPORTED_CHECK" in f["rets"] and tool == "xz" and exp_rc == 0:
                exp_rc = 2              # a warning; an error on any operand (exit 1) takes precedence
        p = run_tool([cli[tool]] + argv + paths, None, env)
        return job, files, p.returncode, p.stdout, p.stderr, exp_rc, exp_out if cmp_out else None
    seen = set(); n = 0
    with concurrent.futures.ThreadPoolExecutor(6) as ex_:
        for job, files, rc, so, se, exp_rc, exp_out in ex_.map(one, jobs):
            k, sp, tool, argv, stop = job
            n += 1
            ctx.case(key=("cliseq", tool, tuple(argv[:1]), tuple(hashlib.md5(d).hexdigest() for _, _, _, d in files)))
            what = "exit:%d->%d" % (exp_rc, rc) if rc != exp_rc else "stdout" if exp_out is not None and so != exp_out else None
            if what:
                key = "cli-multi:%s:%s:%s" % (tool, "+".join(f["fd"]["fmt"] for f, _, _, _ in files), what)
                if key not in seen:
                    seen.add(key)
                    ctx.violation(key, "%s %s with %d file operands: exit %d (model %d), stdout %d bytes (model %s), stderr %r; "
                                  "model per file %s" % (tool, argv, len(files), rc, exp_rc, len(so),
                                                         None if exp_out is None else len(exp_out), se[:300], [f["rets"] for f, _, _, _ in files]),
                                  dict(kind="cli_sequence", tool=tool, argv=argv, files=[d.hex() for _, _, _, d in files]))
    return n

# ------------------------------------------------------------------------------------------------ buffer boundaries
IOBUF = 8192            # BUFSIZ of xzdec.c / lzmadec and IO_BUFFER_SIZE of xz

def _enc(ctor, args, data):
    from harness.pydrv import lz
    c = lz.Coder()
    if c.init(ctor, *args) != lz.OK:
        raise MachineryError("%s failed" % ctor)
    r = lz.run_coder(c, data)
    c.end()
    if r["ret"] != lz.STREAM_END:
        raise MachineryError("%s: encoder returned %s" % (ctor, lz.retname(r["ret"])))
    return r["out"]

def exact_file(fmt, size, rng, cache):
    """a VALID file of exactly `size` bytes (None if impossible: .xz sizes are multiples of four) and its content.
    Made with liblzma's encoders by searching the input length; validity and content are confirmed by harness/glue."""
    import ctypes as C
    from harness.pydrv import lz
    from harness.glue import alone, lzip, xz
    if (fmt, size) in cache:
        return cache[(fmt, size)]
    res = None
    if fmt == "xz" and size % 4:
        cache[(fmt, size)] = None
        return None
    for attempt in range(12):
        pool = bytes(rng.choice(b"ACGTNacgtn-01\n  ") for _ in range(size * 3 + 256))
        if fmt in ("lzma", "lz"):
            want = size if fmt == "lzma" else size - 13
            o = lz.lzma_opts(0)
            enc = lambda L: _enc("lzma_alone_encoder", (C.byref(o),), pool[:L])
        else:
            want = size
            enc = lambda L: _enc("lzma_easy_encoder", (0, lz.CHECK_CRC32), pool[:L])
        lo, hi = 0, len(pool)
        while lo < hi:                      # smallest L with len(enc(L)) >= want
            mid = (lo + hi) // 2
            if len(enc(mid)) >= want:
                hi = mid
            else:
                lo = mid + 1
        cand = None
        for L in range(max(0, lo - 3), min(len(pool), lo + 4)):
            f = enc(L)
            if len(f) == want or (fmt == "xz" and len(f) <= want and want - len(f) <= 8 and (want - len(f)) % 4 == 0):
                cand = (L, f); break
        if cand is None:
            continue
        L, f = cand; data = pool[:L]
        if fmt == "lzma":
            g = alone.parse(f); ok = g.verdict == "ok" and g.out == data and g.trailing == 0 and not g.xz_utils_rejects
        elif fmt == "lz":
            f = lzip.build_member(data=data, payload=f[13:], ds_byte=18)
            g = lzip.parse(f); ok = g.verdict == "ok" and g.output == data and g.trailing == 0
        else:
            f = f + bytes(want - len(f))     # Stream Padding (a multiple of four zero bytes)
            g = xz.parse(f); ok = g.verdict == "ok" and g.output == data
        if not ok or len(f) != size:
            raise MachineryError("exact_file(%s, %d): glue does not confirm the file: %r" % (fmt, size, g))
        res = (f, data); break
    if res is None:
        raise MachineryError("could not make a valid .%s file of exactly %d bytes" % (fmt, size))
    cache[(fmt, size)] = res
    return res

BOUNDARY_TOOLS = {      # model tool -> [(program, argv, file format)]
    "lzmadec": [("lzmadec", [], "lzma")],
    "xzdec": [("xzdec", [], "xz")],
    "xz_lzma": [("xz", ["-dc", "--format=lzma"], "lzma"), ("xz", ["-dc"], "lzma")],
    "xz_single": [("xz", ["-dc", "--single-stream"], "lzma"), ("xz", ["-dc", "--single-stream", "-T1"], "xz")],
    "xz_xz": [("xz", ["-dc", "-T1"], "xz"), ("xz", ["-dc"], "xz")],
    "xz_lzip": [("xz", ["-dc", "--format=lzip"], "lz"), ("xz", ["-dc"], "lz")],
}

def boundary_clause(ctx):
    """CliRead.tla: the read loops of xzdec/lzmadec/xz (end of input known only after a short read) give a verdict that
    depends only on where the valid data ends, not on how the file size relates to the buffer size.  TLC checks it for
    all sizes (and that the variant without lzmadec's probe read breaks it) and emits the cases around k * B;
    they are replayed with real files of 8192 k + d bytes (+ one foreign byte), from a file and from a pipe."""
    r = tlc.run("CliRead", cfg="CliRead.cfg", workers=1, timeout=300)
    ctx.add_tlc("CliRead(B=3, n<=10)", r, exhaustive=True)
    if r.violation or not r.ok():
        ctx.violation("model:cli-read:%s" % r.violation, r.out[-3000:], dict(kind="tlc_counterexample"))
    v = tlc.run("CliRead", cfg="CliReadVar_noprobe.cfg", workers=1, timeout=300)
    ctx.tlc_runs.append(dict(name="broken model variant cli_noprobe", **v.summary()))
    if v.violation != "VerdictIndependentOfBuffer":
        raise MachineryError("CliRead variant without the probe read does not violate the contract: %s" % v.summary())
    g = tlc.run("CliRead", cfg="GenCliRead.cfg", workers=1, timeout=300)
    ctx.add_tlc("GenCliRead(B=8)", g, exhaustive=True)
    plans = plans_from_tlc(g.out)
    if len(plans) < 60:
        raise MachineryError("GenCliRead printed only %d plans\n%s" % (len(plans), g.out[-1500:]))
    plans.sort(key=lambda p: json.dumps(p, sort_keys=True))
    cli = build.cli()
    env = dict(os.environ); env.pop("LD_PRELOAD", None); env["LC_ALL"] = "C"
    rng = random.Random("%s/boundary" % ctx.seed)
    cache = {}; jobs = []
    d = os.path.join(ctx.workdir, "boundary"); os.makedirs(d, exist_ok=True)
    for pl in plans:
        B = pl["B"]; k = (pl["n"] + 4) // B; dd = pl["n"] - k * B; trail = pl["n"] - pl["e"]
        total = IOBUF * k + dd
        for prog, argv, fmt in BOUNDARY_TOOLS[pl["tool"]]:
            got = exact_file(fmt, total - trail, rng, cache)
            if got is None:
                continue
            f, data = got
            f = f + b"X" * trail
            path = os.path.join(d, "%s.%d.%d" % (fmt, total, trail))
            if not os.path.exists(path):
                with open(path, "wb") as fh:
                    fh.write(f)
            for via in ("file", "pipe"):
                jobs.append((pl, prog, argv, fmt, via, path, f, data, k, dd, trail))
    def one(j):
        pl, prog, argv, fmt, via, path, f, data, k, dd, trail = j
        p = run_tool([cli[prog]] + argv + ([path] if via == "file" else []), None if via == "file" else f, env)
        return j, p.returncode, p.stdout, p.stderr
    seen = set(); n = 0
    with concurrent.futures.ThreadPoolExecutor(6) as ex_:
        for j, rc, so, se in ex_.map(one, jobs):
            pl, prog, argv, fmt, via, path, f, data, k, dd, trail = j
            n += 1
            ctx.case(key=("boundary", prog, tuple(argv), fmt, via, k, dd, trail))
            what = None
            if rc != pl["exit"]:
                what = "exit:%d->%d" % (pl["exit"], rc)
            elif rc == 0 and so != data:
                what = "stdout"
            if what:
                key = "cli-boundary:%s:%s:size=%dB%+d:trail=%d:%s" % (prog, fmt, k, dd, trail, what)
                if key not in seen:
                    seen.add(key)
                    ctx.violation(key, "%s %s, .%s file of %d bytes (%d x %d %+d, %d foreign byte(s) at the end) from a %s: exit %d "
                                  "(model %d), stdout %d bytes (content %d), stderr %r" % (prog, argv, fmt, len(f), k, IOBUF, dd, trail, via,
                                                                                       rc, pl["exit"], len(so), len(data), se[:200]),
                                  dict(kind="cli", tool=prog, argv=argv, file=f.hex(), plan=pl, via=via))
    ctx.sample(dict(kind="boundary_case", model=plans[len(plans) // 2], buffer=IOBUF))
    ctx.log("buffer boundaries: %d model cases, %d files of exact sizes, %d tool runs (file and pipe)" % (len(plans), len(cache), n))
    ctx.extra["boundary_tool_runs"] = n
    return n

# ------------------------------------------------------------------------------------------------ glue as judge
def judge(ctx, plans):
    """harness/glue (written from the format documents) judges every serialised file: its verdict and output must
    be the contract's for the specific decoder (flags {} / {CONCATENATED}) and for auto-detection."""
    from harness.pydrv import c16drv as drv
    from harness.glue import alone, lzip, xz
    seen = set(); n = 0; done = set()
    for plan in plans:
        fd = plan["fd"]; api = plan["api"]; fl = set(plan["flags"])
        if plan["mode"] != "finish" or fl - {"CONCATENATED"}:
            continue
        fk = (drv.fd_key(fd), api, tuple(sorted(fl)))
        if fk in done:
            continue
        done.add(fk)
        exp = plan["exp"]["rets"][-1]
        if exp == "MEMLIMIT_ERROR":
            continue
        S = drv.serialise(fd, ctx.seed)
        lay = drv.Layout(plan["kinds"], S, fd["cut"])
        data = S.full[:lay.ccut]
        v = None; out = None
        if fd["fmt"] == "alone" and api in ("alone", "auto"):
            r = alone.parse(data)
            out = r.out
            if r.verdict == "error:props" or "lc+lp>4" in r.xz_utils_rejects:
                v = "FORMAT_ERROR"
            elif api == "auto" and len(data) >= 5 and "dict_size_form" in r.xz_utils_rejects:
                v = "FORMAT_ERROR"
            elif api == "auto" and len(data) >= 13 and "usize>=256GiB" in r.xz_utils_rejects:
                v = "FORMAT_ERROR"
            elif r.verdict == "ok":
                v = "DATA_ERROR" if (api == "auto" and "CONCATENATED" in fl and r.trailing) else "STREAM_END"
            elif r.verdict == "truncated":
                v = "BUF_ERROR"
            else:
                v = "DATA_ERROR"
            if v == "FORMAT_ERROR":
                out = b""
        elif fd["fmt"] == "lzip" and api == "lzip":
            r = lzip.parse(data, concatenated="CONCATENATED" in fl)
            out = r.output
            v = {"ok": "STREAM_END", "truncated": "BUF_ERROR", "unsupported:version": "OPTIONS_ERROR",
                 "error:format": "FORMAT_ERROR"}.get(r.verdict, "DATA_ERROR")
        elif fd["fmt"] == "xz" and api == "stream":
            r = xz.parse(data, concatenated="CONCATENATED" in fl)
            out = r.output
            v = xz.expected_ret(r.verdict)
        else:
            continue
        n += 1
        ctx.case(key=("judge",) + fk)
        e_out = drv.map_out(S, plan["out"])
        bad = None
        if v != exp:
            bad = "judge:%s:%s:%s->%s" % (fd["fmt"], api, v, exp)
            det = "glue verdict %s (%r) but the contract says %s" % (v, getattr(r, "verdict", None), exp)
        elif plan["exp"]["outRel"] == "eq" and e_out is not None and out != e_out:
            bad = "judge:%s:%s:output" % (fd["fmt"], api)
            det = "glue output %d bytes, contract %d bytes" % (len(out), len(e_out))
        if bad and bad not in seen:
            seen.add(bad)
            ctx.violation(bad, det + " file " + data.hex()[:200], dict(kind="judge", plan=plan, file=data.hex()))
    return n

# ------------------------------------------------------------------------------------------------ tools
def lzmainfo_text(data, plan):
    us = int.from_bytes(data[5:13], "little"); ds = int.from_bytes(data[1:5], "little")
    t = "Uncompressed size:             "
    t += "Unknown" if us == (1 << 64) - 1 else "%d MB (%d bytes)" % ((us // 1024 + 512) // 1024, us)
    e = 0; n = ds
    while n > 1:
        e += 1; n //= 2
    t += "\nDictionary size:               %d MB (2^%d bytes)\n" % ((ds // 1024 + 512) // 1024, e)
    t += "Literal context bits (lc):     %d\nLiteral pos bits (lp):         %d\nNumber of pos bits (pb):       %d\n" % (
        plan["lc"], plan["lp"], plan["pb"])
    return t.encode()

class _Hung:
    returncode = -999; stdout = b""; stderr = b"(killed: no result within 60 s)"

def run_tool(argv, data, env):
    """a tool that does not return is a result (exit -999), not an exception"""
    try:
        if data is None:
            return subprocess.run(argv, stdin=subprocess.DEVNULL, stdout=subprocess.PIPE, stderr=subprocess.PIPE, env=env, timeout=60)
        return subprocess.run(argv, input=data, stdout=subprocess.PIPE, stderr=subprocess.PIPE, env=env, timeout=60)
    except subprocess.TimeoutExpired:
        return _Hung()

def cli_jobs(plans, seed, quick, rng):
    """[(label, argv-tail, tool, data, exp_exit, exp_stdout or None, plan)]"""
    from harness.pydrv import c16drv as drv
    jobs = []; done = set()
    ML = "--memlimit-decompress=%d" % drv.MEMLIMIT
    for plan in plans:
        if plan["mode"] != "finish":
            continue
        fd = plan["fd"]; api = plan["api"]; fl = tuple(sorted(plan["flags"])); fmt = fd["fmt"]
        sel = []
        if fmt == "alone" and api == "auto" and fl in ((), ("CONCATENATED",)):
            ss = [] if fl else ["--single-stream"]
            sel = [("xz", ["-dc", "--format=lzma", ML] + ss), ("xz", ["-dc", ML] + ss)]
        elif fmt == "alone" and api == "alone" and not fl:
            sel = [("lzmadec", []), ("lzmainfo", [])]
        elif fmt == "lzip" and api == "lzip" and fl in ((), ("CONCATENATED",)):
            ss = [] if fl else ["--single-stream"]
            sel = [("xz", ["-dc", "--format=lzip", ML] + ss), ("xz", ["-dc", "--format=auto", ML] + ss)]
        elif fmt == "xz" and api == "stream" and fl in (("CONCATENATED", "TELL_UNSUPPORTED_CHECK"), ("TELL_UNSUPPORTED_CHECK",)):
            ss = [] if "CONCATENATED" in fl else ["--single-stream"]
            sel = [("xz", ["-dc", "-T1"] + ss), ("xz", ["-dc", "--format=xz", "-T4"] + ss)]
        elif fmt == "xz" and api == "stream" and fl == ("CONCATENATED",):
            sel = [("xzdec", [])]
        if not sel:
            continue
        fk = drv.fd_key(fd)
        S = drv.serialise(fd, seed)
        lay = drv.Layout(plan["kinds"], S, fd["cut"])
        data = S.full[:lay.ccut]
        last = plan["rets"][-1]
        e_out = drv.map_out(S, plan["out"]) if plan["exp"]["outRel"] == "eq" else None
        for tool, argv in sel:
            k = (fk, tool, tuple(argv))
            if k in done:
                continue
            done.add(k)
            if tool == "lzmainfo":
                if len(data) < 13 or plan["propsBad"]:
                    jobs.append((tool, argv, data, 1, b"", plan))
                else:
                    jobs.append((tool, argv, data, 0, lzmainfo_text(data, plan), plan))
                continue
            if tool == "lzmadec":
                if last == "MEMLIMIT_ERROR":
                    continue            # lzmadec has no limit: it would really allocate the dictionary
                ex = 0 if (last == "STREAM_END" and plan["tin"] == plan["len"]) else 1
            elif last == "STREAM_END":
                ex = 2 if "UNSUPPORTED_CHECK" in plan["rets"] else 0
            else:
                ex = 1
            jobs.append((tool, argv, data, ex, e_out, plan))
    if quick:
        # at most two files of every structural class per tool configuration
        rng.shuffle(jobs)
        keep = []; per = {}
        for j in jobs:
            fam = (j[0], tuple(j[1]), j[3], file_class(j[5]["fd"]))
            if per.get(fam, 0) < 2:
                per[fam] = per.get(fam, 0) + 1; keep.append(j)
        jobs = keep
    return jobs

def file_class(fd):
    if fd["fmt"] == "alone":
        return ("alone", fd["usz"], fd["eopm"], fd["trail"] > 0, fd["cut"] > 0, fd["props"] == 93, fd["dict"] == [0, 1], fd["n"])
    if fd["fmt"] == "lzip":
        return ("lzip", len(fd["mem"]), tuple(fd["trail"][:5]), fd["cut"] > 0,
                tuple((m["ver"], m["crc"], m["dsz"], m["msz"], m["magic"] == [76, 90, 73, 80], m["ds"] == 12) for m in fd["mem"]))
    return ("xz", len(fd["str"]), len(fd["trail"]), fd["cut"] > 0,
            tuple((s["check"], s["hdr"], s["cbad"], s["pad"] % 4) for s in fd["str"]))

def run_cli(ctx, plans):
    cli = build.cli()
    jobs = cli_jobs(plans, ctx.seed, ctx.quick, ctx.rng)
    env = dict(os.environ); env.pop("LD_PRELOAD", None); env["LC_ALL"] = "C"
    def one(j):
        tool, argv, data, ex, e_out, plan = j
        p = run_tool([cli[tool]] + argv, data, env)
        return j, p.returncode, p.stdout, p.stderr
    seen = set(); n = 0
    with concurrent.futures.ThreadPoolExecutor(6) as ex_:
        for j, rc, so, se in ex_.map(one, jobs):
            tool, argv, data, ex, e_out, plan = j
            n += 1
            ctx.case(key=("cli", tool, tuple(argv), hashlib.md5(data).hexdigest()))
            what = None
            if rc != ex:
                what = "exit:%d->%d" % (ex, rc)
            elif e_out is not None and so != e_out:
                what = "stdout"
            if what:
                fd = plan["fd"]
                cls = fd["fmt"]
                if fd["fmt"] == "alone":
                    cls += ":usz=%s" % fd["usz"] if fd["usz"] in ("e38",) else ""
                key = "cli:%s:%s:%s:%s" % (tool, " ".join(a for a in argv if not a.startswith("--memlimit")), cls, what)
                if tool == "xz" and fd["fmt"] == "alone" and fd["usz"] == "e38":
                    key = "cli:xz:lzma:usize=256GiB-accepted"
                if key in seen:
                    continue
                seen.add(key)
                ctx.violation(key, "%s %s: exit %d (model %d), stdout %d bytes (model %s), stderr %r; model rets %s" % (
                    tool, argv, rc, ex, len(so), None if e_out is None else len(e_out), se[:200], plan["rets"]),
                    dict(kind="cli", tool=tool, argv=argv, file=data.hex(), plan=plan))
    if jobs:
        j = jobs[0]
        ctx.sample(dict(kind="cli_case", tool=j[0], argv=j[1], file=j[2].hex(), expected_exit=j[3], model_rets=j[5]["rets"]))
    return n

# ------------------------------------------------------------------------------------------------ .lzma encoder
def encoder_clause(ctx):
    """AloneEnc.tla: TLC checks that the header written by alone_encoder.c is the contract's (least plausible
    dictionary size, valid properties, unknown size) and prints the predicted header per requested size; sizes up
    to 6 MiB are replayed into lzma_alone_encoder(), the result must decode through lzma_auto_decoder()."""
    import ctypes as C
    from harness.pydrv import lz, c16drv as drv
    from harness.glue import alone
    r = tlc.run("AloneEnc", workers=1, timeout=300)
    ctx.add_tlc("AloneEnc (ASSUMEs over %s)" % "EncSizes", r, exhaustive=True)
    if r.violation or not r.ok():
        raise MachineryError("AloneEnc: %s\n%s" % (r.summary(), r.out[-1500:]))
    plans = plans_from_tlc(r.out)
    if len(plans) < 100:
        raise MachineryError("AloneEnc printed only %d plans" % len(plans))
    n = 0; seen = set()
    for k, pl in enumerate(plans):
        d = pl["dict"][0] + (pl["dict"][1] << 16)
        if d > (6 << 20) or d < 4096:
            continue
        for (lc, lp, pb), hk in (((3, 0, 2), "header"), ((1, 2, 4), "header2")):
            data = bytes(ctx.rng.randrange(4) * 37 for _ in range(ctx.rng.randrange(0, 200)))
            o = lz.lzma_opts(0, dict_size=d, lc=lc, lp=lp, pb=pb)
            c = lz.Coder()
            if c.init("lzma_alone_encoder", C.byref(o)) != lz.OK:
                raise MachineryError("lzma_alone_encoder init failed for dict_size %d" % d)
            res = lz.run_coder(c, data)
            c.end()
            f = res["out"]
            n += 1
            ctx.case(key=("enc", d, lc, lp, pb, len(data)))
            key = None
            if res["ret"] != lz.STREAM_END:
                key = "encoder:lzma:ret:%s" % lz.retname(res["ret"]); det = "encoder returned %s" % lz.retname(res["ret"])
            elif list(f[:13]) != pl[hk]:
                key = "encoder:lzma:header"; det = "dict_size %d lc/lp/pb %d/%d/%d: header %s, model %s" % (d, lc, lp, pb, f[:13].hex(), bytes(pl[hk]).hex())
            else:
                dr = drv.drive("auto", ["CONCATENATED"], f, [5, 8], "finish")
                g = alone.parse(f)
                if dr["rets"] != ["STREAM_END"] or dr["out"] != data or dr["total_in"] != len(f):
                    key = "encoder:lzma:not-decodable"; det = "auto decoder: %s out %d/%d tin %d/%d" % (dr["rets"], len(dr["out"]), len(data), dr["total_in"], len(f))
                elif g.verdict != "ok" or g.out != data or g.xz_utils_rejects:
                    key = "encoder:lzma:glue-rejects"; det = "glue: %r" % g
            if key and key not in seen:
                seen.add(key)
                ctx.violation(key, det, dict(kind="encoder", dict_size=d, lc=lc, lp=lp, pb=pb, data=data.hex(), file=f.hex()))
    ctx.log("replayed %d predicted .lzma headers into lzma_alone_encoder" % n)
    return n

# ------------------------------------------------------------------------------------------------ main
def replay_one(ctx, L):
    """./check C16 --replay FILE: run the recorded case again against the current tree"""
    from harness.pydrv import c16drv as drv
    rp = json.load(open(ctx.replay))["replay"]
    if rp.get("kind") == "plan":
        plan = rp["plan"]; data = bytes.fromhex(rp["file"])
        r = drv.drive(plan["api"], plan["flags"], data, rp["pieces"], plan["mode"])
        got = dict(rets=r["rets"], out=r["out"].hex(), tin=r["total_in"])
        exp = rp["expected"]
        ctx.case(key=("replay", ctx.replay))
        ctx.log("replay %s slicing %s: expected %s got %s" % (plan["api"], rp["slicing"], exp, got))
        same = got["rets"] == exp["rets"] and (exp["outRel"] != "eq" or exp["out"] is None or got["out"] == exp["out"]) \
            and (exp["tin"] is None or got["tin"] == exp["tin"])
        if not same:
            ctx.violation(rp["key"], "still differs: expected %s got %s" % (exp, got), rp)
    elif rp.get("kind") == "cli":
        cli = build.cli()
        env = dict(os.environ); env.pop("LD_PRELOAD", None); env["LC_ALL"] = "C"
        p = subprocess.run([cli[rp["tool"]]] + rp["argv"], input=bytes.fromhex(rp["file"]), stdout=subprocess.PIPE,
                           stderr=subprocess.PIPE, env=env, timeout=60)
        ctx.case(key=("replay", ctx.replay))
        ctx.log("replay %s %s: exit %d stdout %d bytes stderr %r" % (rp["tool"], rp["argv"], p.returncode, len(p.stdout), p.stderr[:200]))
        ctx.notes.append("cli replay is informative only: compare with the model values recorded in the replay file")
    return ctx.finish(rule="one recorded case re-executed", trusted=["ctypes driver"])

def run(ctx):
    from harness.pydrv import lz
    L = build.lib("asan")
    lz.load(L["so"])
    if ctx.replay:
        return replay_one(ctx, L)
    quick = ctx.quick
    # a check always terminates: overall wall-clock cap
    cap = 2400 if quick else 16000           # normal: ~1 min / ~5 min; generous because the machine may be shared
    def too_long():
        try:
            ctx.violation("hang:check:wall-clock", "the check did not finish within %d s; see the log for the phase that was running" % cap,
                          dict(kind="hang", phase="whole check"))
            ctx.finish(rule="aborted by the wall-clock cap", trusted=[])
        finally:
            os._exit(1)
    watchdog = threading.Timer(cap, too_long); watchdog.daemon = True; watchdog.start()
    try:
        return run_body(ctx, L, quick)
    finally:
        watchdog.cancel()

def run_body(ctx, L, quick):
    from harness.pydrv import lz
    res = {}
    cfgs = []
    def tl(name, module, cfg, workers, timeout):
        res[name] = tlc.run(module, cfg=cfg, workers=workers, timeout=timeout)
    jobs = []
    gens = []
    FMTS = ("alone", "lzip", "xz")
    if quick:
        mc = write_cfg(ctx, "mc", "MCFormats.cfg", Sweep='"core"', Profile='"quick"', ChunkSizes="{0, 1}")
        cfgs.append(mc)
        jobs.append(("MCFormats(core, pieces {1,rest})", "MCFormats", mc, 3, 600))
    else:
        for fmt in FMTS:
            mc = write_cfg(ctx, "mc_" + fmt, "MCFormats.cfg", Sweep='"all"', Profile='"quick"', ChunkSizes="{0, 1, 2, 3, 7}",
                           Formats='{"%s"}' % fmt)
            cfgs.append(mc)
            jobs.append(("MCFormats(%s, all, pieces {1,2,3,7,rest})" % fmt, "MCFormats", mc, 3, 1500))
        mc = write_cfg(ctx, "mc_any", "MCFormats.cfg", Sweep='"core"', Profile='"quick"',
                       ChunkSizes="{0, 1, 2, 3, 4, 5, 6, 7, 8, 9, 10, 11, 12, 13, 14, 15, 16, 17, 18, 19, 20, 21, 22, 23, 24}")
        cfgs.append(mc)
        jobs.append(("MCFormats(core, every slicing)", "MCFormats", mc, 3, 1500))
    for fmts in ((FMTS,) if quick else tuple((f,) for f in FMTS)):
        gen = write_cfg(ctx, "gen_" + fmts[0], "GenFormats.cfg", Sweep='"all"', Profile='"quick"' if quick else '"full"',
                        Formats="{%s}" % ", ".join('"%s"' % f for f in fmts))
        cfgs.append(gen)
        gens.append("GenFormats(%s)" % ",".join(fmts))
        jobs.append((gens[-1], "GenFormats", gen, 3, 1500))
    seqmc = write_cfg(ctx, "seq_mc", "MCFormatSeq.cfg", SeqLevel='"core"' if quick else '"all"',
                      ChunkSizes="{0, 1}" if quick else "{0, 1, 2, 3, 7}")
    jobs.append(("FormatSeq(re-initialised handle, %s)" % ("core" if quick else "all"), "FormatSeq", seqmc, 2, 1500))
    seqgen = write_cfg(ctx, "seq_gen", "GenFormatSeq.cfg")
    jobs.append(("GenFormatSeq", "FormatSeq", seqgen, 2, 1500))
    seqvar = write_cfg(ctx, "seq_var", "MCFormatSeqVar_stale.cfg")
    jobs.append(("variant:reinit_stale", "FormatSeq", seqvar, 1, 600))
    for v in VARIANTS:
        vc = write_cfg(ctx, "var_" + v, "MCFormatsVar_%s.cfg" % v, Sweep='"core"')
        cfgs.append(vc)
        jobs.append(("variant:" + v, "MCFormats", vc, 1, 600))
    try:
        ths = [threading.Thread(target=tl, args=j) for j in jobs]
        if quick:
            for t in ths: t.start()
            for t in ths: t.join()
        else:
            # thorough: the generator first (the replay can start), model checking runs two at a time
            order = [j for j in jobs if j[1] == "GenFormats"] + [j for j in jobs if j[1] != "GenFormats"]
            with concurrent.futures.ThreadPoolExecutor(4) as ex:
                list(ex.map(lambda j: tl(*j), order))
    finally:
        pass
    # (M)
    for name, module, cfg, w, to in jobs:
        r = res[name]
        if name.startswith("variant:"):
            v = name.split(":")[1]
            ctx.tlc_runs.append(dict(name="broken model variant " + v, **r.summary()))
            if r.error or r.timeout:
                raise MachineryError("TLC variant %s failed: %s\n%s" % (v, r.error, r.out[-2000:]))
            if r.violation != "MeetsContract":
                raise MachineryError("the deliberately broken model variant %s (%s) does not violate the contract: "
                                     "the model checking is vacuous" % (v, dict(VARIANTS, **VARIANT_EXTRA)[v]))
            ctx.log("broken variant %s violates MeetsContract as it must (%d states)" % (v, r.distinct))
            continue
        ctx.add_tlc(name, r, exhaustive=True)
        ctx.log(name, r.summary())
        if r.violation:
            st = tlc.trace_states(r.out)
            last = st[-1] if st else {}
            ctx.violation("model:%s:%s" % (r.violation, last.get("api", "?").strip('"')),
                          "the transcribed decoders violate the format contract: " + json.dumps(
                              {k: last.get(k) for k in ("fd", "api", "flags", "mode", "rets", "tin", "tout")})[:1500],
                          dict(kind="tlc_counterexample", out=r.out[-6000:]))
    # (G/R)
    plans = []
    for gname in gens:
        plans += plans_from_tlc(res[gname].out)
    plans.sort(key=lambda p: json.dumps(p, sort_keys=True))       # TLC's output order depends on its worker threads
    if len(plans) < 2000:
        raise MachineryError("plan generation produced only %d plans\n%s" % (len(plans), res[gens[0]].out[-1500:]))
    for p in plans:
        if "UNSPEC" in p["rets"]:
            raise MachineryError("a generated plan runs the model into unspecified territory: %s" % json.dumps(p)[:500])
    nproc = 4
    n = replay(ctx, plans, L["so"], nproc)
    ctx.log("replayed %d plans into liblzma: %d decoder runs" % (len(plans), n))
    nj = judge(ctx, plans)
    ctx.log("glue judged %d file x decoder combinations" % nj)
    nc = run_cli(ctx, plans)
    ctx.log("ran %d tool invocations" % nc)
    ne = isolated(ctx, "lzma-encoder-clause", encoder_clause, (), 900 if quick else 5400)
    boundary_clause(ctx)
    splans = plans_from_tlc(res["GenFormatSeq"].out)
    splans.sort(key=lambda p: json.dumps(p, sort_keys=True))
    if len(splans) < 500:
        raise MachineryError("sequence plan generation produced only %d plans\n%s" % (len(splans), res["GenFormatSeq"].out[-1500:]))
    ns = isolated(ctx, "re-used-handle-replay", replay_sequences, (splans,), 900 if quick else 7200) or 0
    ncs = cli_sequences(ctx, splans)
    ctx.log("re-use: %d sequences of 2-3 files on one re-initialised handle (%d decoder runs), %d multi-file tool invocations" % (
        len(splans), ns, ncs))
    ctx.extra["sequence_plans"] = len(splans); ctx.extra["sequence_decoder_runs"] = ns; ctx.extra["multi_file_tool_runs"] = ncs
    ctx.extra["plans"] = len(plans); ctx.extra["decoder_runs"] = n; ctx.extra["tool_runs"] = nc
    ctx.assumptions += [
        "LZMA1 payloads are abstract in the model (verdict level); the real payloads are made by harness/glue's range coder",
        "memlimit %d bytes <=> model constant MemDictLimbHi: no generated dictionary size lies between 44 and 48 MiB" % (48 << 20),
        "total_in is compared wherever the model position is a field boundary or lies in a byte-exact field; inside a payload "
        "after a data error it is implementation-defined and not compared",
        "xz -dc is run with --memlimit-decompress equal to the library memlimit; lzmadec (no limit) skips the huge-dictionary files"]
    return ctx.finish(rule="evaluations = (plan, slicing) runs of the real decoders + glue judgements + tool invocations; distinct by "
                      "file content x decoder x flags x finishing style x slicing; every one decodes >= 1 header byte except the "
                      "empty-file plans", trusted=["TLC", "harness/glue (selftested against liblzma both ways)", "ctypes driver", "gcc ASan/UBSan"])
