"""C13 - the Index and file-info APIs describe files exactly; random access is correct.

(M) MCIndex: every index reachable by any history of append / stream_flags / stream_padding / cat / dup /
    encode->decode / end within the bounds satisfies IndexContract (sizes valid, checks, complete iteration in the
    four modes, next() from every position, locate, failed calls change nothing, success iff within limits).
    MCFileInfo: the backwards walk of file_info.c over every abstract multi-Stream file within the bounds, for every
    way of supplying input, terminates with the concatenation of the per-Stream indexes and never seeks past the end.
(R) GenIndex: TLC generates call histories (random walks over the whole VLI range + breadth-first over a small
    alphabet + volume plans evaluated by EvalIndex) with the predicted return value, all getters, the complete
    iteration in four modes and locate at every boundary after every call; harness/pydrv/c13_index.py replays them.
(V) file-info: multi-Stream padded .xz files made by the real encoder are decoded by lzma_file_info_decoder with
    several read sizes; the recorded (input, consumed, return, seek_pos) trace is validated against FileInfo.tla
    (TraceFileInfo), the resulting index against the prediction EvalIndex computes from the per-Stream Records,
    Blocks are decoded at the offsets of the index, and `xz --list --robot -vv` is compared with the same prediction.
"""
import json, os, subprocess, sys, concurrent.futures
from lib import tlc, build
from lib.ctx import MachineryError

HERE = os.path.dirname(os.path.dirname(os.path.abspath(__file__)))

SEEN = set()
STATS = {}

def plans_from_tlc(out):
    plans = []
    for line in out.splitlines():
        if line.startswith('<<"PLAN", "'):
            js = line[len('<<"PLAN", "'):-3]
            plans.append(json.loads(js.encode().decode("unicode_escape")))
    return plans

def plan_ops(plan):
    def short(o):
        d = {"op": o["op"], "k": o["k"]}
        if o["j"]: d["j"] = o["j"]
        if o["op"] in ("append", "appendn", "padding", "iter_locate", "catn"): d["u"] = o["u"]
        if o["op"] in ("append", "appendn", "catn"): d["v"] = o["v"]
        if o["n"]: d["n"] = o["n"]
        if o["m"]: d["m"] = o["m"]
        if o["f"]["set"]: d["f"] = o["f"]
        return d
    return [dict(short(s["o"]), ret=s["ret"], why=s["why"]) for s in plan]

def run_workers(ctx, mode, items, nproc, label):
    """Run harness/pydrv/c13_index.py children over `items` (one JSON per line). Returns list of (item index, result).
    A child that dies while an item runs (assertion / sanitizer abort in the library) yields the result
    dict(key="replay:crash") for that item; the rest of its share is run by a fresh child."""
    L = build.lib("asan")
    env = build.asan_env(); env["VERIF_LIBLZMA"] = L["so"]; env["PYTHONPATH"] = HERE
    env["ASAN_OPTIONS"] = env.get("ASAN_OPTIONS", "") + ":detect_leaks=0"
    results = []
    pending = [list(range(c, len(items), nproc)) for c in range(nproc)]
    rounds = 0
    while any(pending) and rounds < 8:
        rounds += 1
        procs = []
        for c, idxs in enumerate(pending):
            if not idxs:
                continue
            src = os.path.join(ctx.workdir, "%s.%d.%d.in" % (label, c, rounds)); dst = src[:-3] + ".out"
            with open(src, "w") as f:
                for i in idxs:
                    f.write(json.dumps(items[i]) + "\n")
            p = subprocess.Popen([sys.executable, "-m", "harness.pydrv.c13_index", mode, src, dst], cwd=HERE, env=env,
                                 stdout=subprocess.PIPE, stderr=subprocess.STDOUT, text=True)
            procs.append((c, p, idxs, dst))
        pending = [[] for _ in pending]
        for c, p, idxs, dst in procs:
            try:
                out, _ = p.communicate(timeout=1500)
            except subprocess.TimeoutExpired:
                p.kill(); out, _ = p.communicate()
                out += "\n(timeout)"
            begun = -1; done = {}
            if os.path.exists(dst):
                for line in open(dst):
                    try:
                        d = json.loads(line)
                    except ValueError:
                        continue
                    if "stats" in d:
                        for k, v in d["stats"].items():
                            STATS[k] = STATS.get(k, 0) + v
                    if "begin" in d: begun = d["begin"]
                    if "done" in d: done[d["done"]] = d["res"]
            for n, i in enumerate(idxs):
                if n in done:
                    results.append((i, done[n]))
            if p.returncode == 77:
                raise MachineryError("%s worker: harness error\n%s" % (label, out[-3000:]))
            if p.returncode != 0:
                if begun >= 0 and begun not in done:
                    results.append((idxs[begun], dict(step=-1, key="replay:crash", detail=out[-3000:])))
                    pending[c] = idxs[begun + 1:]
                else:
                    raise MachineryError("%s worker failed outside an item: rc=%s\n%s" % (label, p.returncode, out[-3000:]))
    results.sort(key=lambda x: x[0])
    return results

# ------------------------------------------------------------------ index histories
def gen_walks(ctx, nproc, walks, depth, cfg="GenIndexSim.cfg"):
    seeds = [ctx.rng.randrange(1, 1 << 30) for _ in range(nproc)]
    def one(seed):
        return tlc.run("GenIndex", cfg=cfg, workers=1, timeout=900, simulate=walks, depth=depth + 4, seed=seed)
    with concurrent.futures.ThreadPoolExecutor(nproc) as ex:
        rs = list(ex.map(one, seeds))
    plans = []
    for n, r in enumerate(rs):
        ctx.add_tlc("GenIndex(simulate,seed=%d)" % seeds[n], r)
        plans += plans_from_tlc(r.out)
    return plans

def replay_index(ctx, plans, label, nproc=4):
    res = run_workers(ctx, "index", plans, nproc, label)
    seen = SEEN; bad = 0
    for i, r in res:
        ctx.case(key=("plan", json.dumps(plan_ops(plans[i]))))
        if r:
            bad += 1
            if r["key"] in seen:
                continue
            seen.add(r["key"])
            ops = plan_ops(plans[i])
            ctx.violation(r["key"], "step %d (%s): %s" % (r["step"], json.dumps(ops[r["step"]]) if r["step"] >= 0 else "?", r["detail"]),
                          dict(kind="index_plan", ops=ops[:r["step"] + 1] if r["step"] >= 0 else ops, mismatch=r,
                               history=[st["o"] for st in plans[i][1:]]))
    if len(res) != len(plans) and not bad:
        raise MachineryError("replay %s: %d of %d plans accounted for" % (label, len(res), len(plans)))
    ctx.add_traces(len(plans))
    ctx.log("replayed %d plans / %d calls (%s): %d differ; injected allocation failures so far: %d" % (
        len(plans), sum(len(p) for p in plans), label, bad, STATS.get("memerrs", 0)))


# ------------------------------------------------------------------ file-info
XZSEEN = set()
STATS = {}
CHECKNAME = {0: "None", 1: "CRC32", 4: "CRC64", 10: "SHA-256"}

def window_sweep(ctx, items, full):
    """Multi-Stream files in which the Stream Header of a non-first Stream starts d bytes before/after the start of
    the decoder's first look-back window (FileInfo!TempCap = 8192 bytes before the end of the file), d = -28..28 in
    steps of four, for the last Stream and for a middle one, with and without Stream Padding."""
    rng = ctx.rng
    def small():
        return dict(n=rng.choice([0, 1, 17, 300]), kind="text", seed=rng.randrange(1 << 30), check=rng.choice([0, 1, 4, 10]),
                    preset=0, block_size=None, pad=rng.choice([0, 4]))
    for d in range(-28, 32, 4):
        for where in ("last", "middle"):
            for pad in ((0, 4, 8) if full else (rng.choice([0, 4, 8]),)):
                k = dict(window_delta=d, seed=rng.randrange(1 << 30), check=rng.choice([0, 1, 4, 10]), preset=rng.choice([0, 1]), pad=pad)
                streams = [small() for _ in range(rng.choice([1, 2]))] + [k] + ([small()] if where == "middle" else [])
                n = len(items)
                items.append(dict(id=n, streams=streams, seed=rng.randrange(1 << 30), sweep=True,
                                  path=os.path.join(ctx.workdir, "fi_%d.xz" % n)))

def make_files(ctx, nfiles, ndamaged):
    rng = ctx.rng
    items = []
    window_sweep(ctx, items, not ctx.quick)
    # a file whose last Stream has an Index bigger than the decoder's temp buffer (2200 Records of 4 bytes), so the
    # Index decoder is fed straight from the application's reads: always read with 1 and 3 bytes at a time
    n = len(items)
    big = dict(n=2200 * 200, kind="rand", seed=rng.randrange(1 << 30), check=rng.choice([0, 1, 4]), preset=0, block_size=200,
               pad=rng.choice([0, 4]))
    first = dict(n=rng.choice([1, 300]), kind="text", seed=rng.randrange(1 << 30), check=1, preset=0, block_size=None, pad=rng.choice([0, 8]))
    items.append(dict(id=n, streams=[first, big], seed=rng.randrange(1 << 30), bigindex=True, max_blocks=4,
                      path=os.path.join(ctx.workdir, "fi_%d.xz" % n)))
    nsweep = len(items)
    for n in range(nsweep, nsweep + nfiles + ndamaged):
        dmg = n >= nsweep + nfiles
        small = dmg or rng.random() < 0.45
        ns = rng.choice([1, 1, 2, 2, 3, 4]) if not dmg else rng.choice([1, 2])
        streams = []
        for _ in range(ns):
            size = rng.choice([0, 1, 17, 300] if small else [0, 1, 300, 5000, 20000, 70000])
            bs = rng.choice([None, None, 4096, 16384]) if size > 4096 else rng.choice([None, 4096])
            pad = rng.choice([0, 0, 4, 8, 100] if small else [0, 0, 4, 8, 100, 8192 - 12, 8192, 8196, 12000, 20000])
            streams.append(dict(n=size, kind=rng.choice(["text", "rand", "zeros", "periodic"]), seed=rng.randrange(1 << 30),
                                check=rng.choice([0, 1, 4, 10]), preset=rng.choice([0, 1]), block_size=bs, pad=pad))
        it = dict(id=n, streams=streams, seed=rng.randrange(1 << 30), path=os.path.join(ctx.workdir, "fi_%d.xz" % n))
        if dmg:
            it["damage"] = dict(kind=rng.choice(["backward", "unpadded", "oddpad"]), stream=rng.randrange(ns), delta=rng.choice([4, 8, -4]))
            if it["damage"]["kind"] == "oddpad":
                if ns < 2:
                    streams.append(dict(streams[0], seed=rng.randrange(1 << 30)))
                streams[-1]["pad"] = rng.choice([2, 6, 10]); streams[-2]["pad"] = rng.choice([2, 6, 8190])
        items.append(it)
    return items

def eval_histories(ctx, hists, label):
    path = os.path.join(ctx.workdir, "eval_%s.ndjson" % label)
    with open(path, "w") as f:
        for h in hists:
            f.write(json.dumps(h) + "\n")
    r = tlc.run("EvalIndex", workers=1, timeout=900, env={"PLANS": path})
    ctx.add_tlc("EvalIndex(%s)" % label, r)
    plans = plans_from_tlc(r.out)
    if len(plans) != len(hists):
        raise MachineryError("EvalIndex produced %d predictions for %d histories\n%s" % (len(plans), len(hists), r.out[-2000:]))
    return plans

def xz_list(ctx, item, obs, size):
    """Compare `xz --list --robot -vv` with the model's prediction of the file's index."""
    from harness.pydrv.c13_index import big
    xz = build.cli()["xz"]
    e = dict(os.environ); e.pop("LD_PRELOAD", None)
    r = subprocess.run([xz, "--list", "--robot", "-vv", item["path"]], stdout=subprocess.PIPE, stderr=subprocess.STDOUT,
                       text=True, env=e, timeout=120)
    def bad(what, detail):
        if what in XZSEEN:
            return
        XZSEEN.add(what)
        ctx.violation("xzlist:" + what, "%s (file of %d streams)\n%s" % (detail, len(item["streams"]), r.stdout[:1500]),
                      dict(kind="xz_list", item={k: v for k, v in item.items() if k != "obs"}))
    if r.returncode != 0:
        return bad("exit", "xz --list exit code %d" % r.returncode)
    rows = [l.split("\t") for l in r.stdout.splitlines()]
    frow = [x for x in rows if x[0] == "file"]; srows = [x for x in rows if x[0] == "stream"]; brows = [x for x in rows if x[0] == "block"]
    st = obs["st"]; bl = obs["bl"]
    names = sorted(CHECKNAME.get(c, "?") for c in range(16) if obs["checks"] >> c & 1)
    want = [obs["streams"], obs["blocks"], size, big(obs["usize"]), sum(big(s["pad"]) for s in st)]
    got = [int(frow[0][k]) for k in (1, 2, 3, 4, 7)] if frow else None
    if got != want:
        return bad("file", "file line %s, model %s" % (got, want))
    if sorted(x.strip() for x in frow[0][6].split(",")) != names:
        return bad("checks", "checks %s, model %s" % (frow[0][6], names))
    if len(srows) != len(st) or len(brows) != obs["blocks"]:
        return bad("count", "%d stream / %d block lines, model %d / %d" % (len(srows), len(brows), len(st), obs["blocks"]))
    brows = [brows[b["nfile"] - 1] for b in bl]       # (big indexes: the model lists sampled Blocks)
    for row, s in zip(srows, st):
        want = [s["number"], s["blocks"], big(s["coff"]), big(s["uoff"]), big(s["csize"]), big(s["usize"]), big(s["pad"])]
        got = [int(row[k]) for k in (1, 2, 3, 4, 5, 6, 9)]
        if got != want or row[8] != CHECKNAME[s["flags"]["check"]]:
            return bad("stream", "stream line %s %s, model %s %s" % (got, row[8], want, CHECKNAME[s["flags"]["check"]]))
    for row, b in zip(brows, bl):
        want = [b["s"], b["nstream"], b["nfile"], big(b["cfoff"]), big(b["ufoff"]), big(b["total"]), big(b["usize"])]
        got = [int(row[k]) for k in (1, 2, 3, 4, 5, 6, 7)]
        if got != want:
            return bad("block", "block line %s, model %s" % (got, want))

def combine_histories(hs):
    """The calls that build the index of all Streams of several files in a row (the Streams of the later files are
    built in slot 2 and concatenated like the non-first Streams of a file)."""
    out = list(hs[0])
    for h in hs[1:]:
        first = next((n for n, o in enumerate(h) if o["op"] == "init"), len(h))
        out.append(dict(h[0], op="init", k=2, j=0))
        out += [dict(o, k=2) for o in h[:first]]
        out.append(dict(h[0], op="cat", k=1, j=2))
        out += h[first:]
    return out

def xz_list_totals(ctx, groups):
    """`xz --list --robot` over several files: the totals line must be the model's figures of all their Streams."""
    hists = [combine_histories([it["built"]["history"] for it in g]) for g in groups]
    plans = eval_histories(ctx, hists, "totals")
    xz = build.cli()["xz"]
    e = dict(os.environ); e.pop("LD_PRELOAD", None)
    for g, p in zip(groups, plans):
        obs = [o for k, o in p[-1]["obs"] if k == 1][0]
        want = [obs["streams"], obs["blocks"], big_(obs["fsize"]), big_(obs["usize"]), sum(big_(s["pad"]) for s in obs["st"]), len(g)]
        names = sorted(CHECKNAME.get(c, "?") for c in range(16) if obs["checks"] >> c & 1)
        if want[2] != sum(it["built"]["size"] for it in g):
            raise MachineryError("model file size of the listed files %d, real %d" % (want[2], sum(it["built"]["size"] for it in g)))
        for opts in ([], ["-vv"]):
            r = subprocess.run([xz, "--list", "--robot"] + opts + [it["path"] for it in g], stdout=subprocess.PIPE,
                               stderr=subprocess.STDOUT, text=True, env=e, timeout=120)
            rows = [l.split("\t") for l in r.stdout.splitlines() if l.startswith("totals\t")]
            got = [int(rows[0][k]) for k in (1, 2, 3, 4, 7, 8)] if len(rows) == 1 and r.returncode == 0 else None
            ctx.case(key=("xzlist_totals", tuple(json.dumps(it["streams"]) for it in g), tuple(opts)))
            if got != want or sorted(x.strip() for x in rows[0][6].split(",")) != names:
                if "totals" not in XZSEEN:
                    XZSEEN.add("totals")
                    ctx.violation("xzlist:totals", "xz --list --robot %s of %d files: totals %s %s, model %s %s\n%s" % (
                        " ".join(opts), len(g), got, rows[0][6] if rows else None, want, names, r.stdout[-1200:]),
                        dict(kind="xz_list_totals", files=[it["streams"] for it in g]))
    return len(groups)

def file_info(ctx, nfiles, ndamaged, budget_events):
    from lib import tracev
    items = make_files(ctx, nfiles, ndamaged)
    built = run_workers(ctx, "fi_build", items, 4, "fibuild")
    broken = set()
    for i, r in built:
        if "key" in r:       # the encoder crashed, failed, or produced Streams that do not parse
            if r["key"] not in XZSEEN:
                XZSEEN.add(r["key"])
                ctx.violation(r["key"] if r["key"].startswith("fileinfo:") else "fileinfo:build_crash", r["detail"],
                              dict(kind="file", item=items[i]["streams"]))
            broken.add(i)
            continue
        items[i]["built"] = r
        if items[i].get("bigindex") and r["layout"][-1][1] <= 8192:
            raise MachineryError("the big-Index file has an Index of only %d bytes" % r["layout"][-1][1])
    items = [it for n, it in enumerate(items) if n not in broken]
    if not items:
        return []
    valid = [it for it in items if "damage" not in it]
    plans = eval_histories(ctx, [it["built"]["history"] for it in valid], "files") if valid else []
    for it, p in zip(valid, plans):
        obs = [o for k, o in p[-1]["obs"] if k == 1]
        if not obs or not obs[0]["small"] and False:
            raise MachineryError("no prediction for file %d" % it["id"])
        it["obs"] = obs[0]
        if big_(it["obs"]["fsize"]) != it["built"]["size"]:
            # the model's file size of the concatenated index must be the size of the file the encoder produced
            ctx.violation("fileinfo:model_file_size", "model %d, file %d" % (big_(it["obs"]["fsize"]), it["built"]["size"]),
                          dict(kind="file", item=it["streams"]))
    # read sizes per file within the event budget
    spent = 0; nfirst = 0
    for it in items:
        size = it["built"]["size"]
        reads = [8192, size, 0]
        if "damage" in it:
            reads = [8192, size]
        elif it.get("sweep"):
            reads = [size, 1000, 0]
            if nfirst < 3 and size - 8192 - 16 >= 12:
                # a first chunk that ends d bytes before the decoder's first look-back window (file size - 8192),
                # d = 0..16, then the rest of the file (seeks followed): internal seeks at the edge of a partly
                # consumed input buffer
                nfirst += 1
                reads += [[size - 8192 - d, size] for d in range(17)]
        elif it.get("bigindex"):
            reads = [size, 8192, 3, 1]
        else:
            for rs in (7, 1):
                if spent + size // rs < budget_events and size // rs < budget_events // 6:
                    reads.append(rs); spent += size // rs
        it["reads"] = reads
    runs = run_workers(ctx, "fi_run", [{k: v for k, v in it.items() if k != "built"} | dict(layout=it["built"]["layout"]) for it in items], 4, "firun")
    hists = []; seen = set(); nblocks = 0
    for i, r in runs:
        it = items[i]
        if "key" in r:       # crash of the library while this file was decoded
            if "fileinfo:crash" not in seen:
                seen.add("fileinfo:crash")
                ctx.violation("fileinfo:crash", r["detail"], dict(kind="file", item=it["streams"], damage=it.get("damage")))
            continue
        nblocks += r["blocks"]
        for key, detail in r["problems"]:
            if key not in seen:
                seen.add(key)
                ctx.violation(key, detail, dict(kind="file", item=it["streams"], damage=it.get("damage")))
        for t in r["traces"]:
            ctx.case(key=("fileinfo", json.dumps(it["streams"]), json.dumps(it.get("damage")), json.dumps(t["rs"])))
            if "damage" not in it and t["ret"] != "STREAM_END" and "fileinfo:ret:" + t["ret"] not in seen:
                seen.add("fileinfo:ret:" + t["ret"])
                ctx.violation("fileinfo:ret:" + t["ret"], "valid file, read size %s: %s" % (t["rs"], t["ret"]),
                              dict(kind="file", item=it["streams"], events=t["events"][-5:]))
            if it.get("bigindex") and t["rs"] == 1 and ctx.quick:
                continue          # (quick: the 17000 one-byte calls are made and judged by their result, not trace-validated)
            hists.append(("file%d%s/rs%s" % (it["id"], "dmg" if "damage" in it else "", t["rs"]), t["events"]))
    nev = sum(len(e) for _, e in hists)
    rej = tracev.validate(ctx, "TraceFileInfo", hists,
                          lambda label, e, i: "trace:fileinfo:%s:%s" % ("damaged" if "dmg" in label else "valid", e.get("ret", e.get("e"))))
    ctx.sample(dict(kind="fileinfo_trace", label=hists[0][0], events=hists[0][1][:12]))
    for it in valid:
        xz_list(ctx, it, it["obs"], it["built"]["size"])
        ctx.case(key=("xzlist", json.dumps(it["streams"])))
    # several files at once: multi-Stream / padded files first
    cand = sorted((it for it in valid if not it.get("bigindex")), key=lambda it: -(len(it["streams"]) + sum(1 for x in it["streams"] if x["pad"])))
    ng = 4 if ctx.quick else 16
    groups = [cand[n::ng][:3] for n in range(ng)]
    groups = [g for g in groups if len(g) >= 2]
    nt = xz_list_totals(ctx, groups)
    ctx.log("xz --list totals: %d groups of files compared (robot, robot -vv)" % nt)
    ctx.log("file-info: %d files (%d damaged), %d decodes / %d calls validated by TraceFileInfo (rejected %d), %d Blocks decoded "
            "at index offsets, %d xz --list comparisons" % (len(items), ndamaged, len(hists), nev, rej, nblocks, len(valid)))
    return [p for p in plans]

def big_(x):
    return x[0] + (x[1] << 21) + (x[2] << 42)

def bug_variants(ctx):
    """Non-vacuity of the contract: the model of index.c as it was in the pinned tree (one deviation switched on at
    a time) must violate the matching invariant of IndexContract."""
    base = open(os.path.join(HERE, "spec", "MCIndex.cfg")).read()
    expect = {"BugDupChecks": {"InvChecks", "InvOps", "InvDup"}, "BugIterEmpty": {"InvIterNext"}, "BugAppendTotal": {"InvValid", "InvOps"}}
    for flag, invs in expect.items():
        cfg = os.path.join(ctx.workdir, "MCIndex_%s.cfg" % flag)
        with open(cfg, "w") as f:
            f.write(base.replace(flag + " = FALSE", flag + " = TRUE"))
        r = tlc.run("MCIndex", cfg=cfg, workers=4, timeout=300)
        ctx.add_tlc("MCIndex(%s)" % flag, r, expect_violation=True)
        if r.violation not in invs:
            raise MachineryError("IndexContract does not reject the %s behaviour (got %s)\n%s" % (flag, r.violation, r.out[-1500:]))
        ctx.log("MCIndex with %s=TRUE violates %s as it must (%d states)" % (flag, r.violation, r.distinct))
    cfg = os.path.join(ctx.workdir, "MCFileInfo_BugPadding.cfg")
    with open(cfg, "w") as f:
        f.write(open(os.path.join(HERE, "spec", "MCFileInfo.cfg")).read().replace("BugPadding = FALSE", "BugPadding = TRUE"))
    r = tlc.run("MCFileInfo", cfg=cfg, workers=4, timeout=300)
    ctx.add_tlc("MCFileInfo(BugPadding)", r, expect_violation=True)
    if r.violation not in ("ValidDecodes", "TypeOK"):
        raise MachineryError("MCFileInfo does not reject a decoder that forgets Stream Padding (got %s)\n%s" % (r.violation, r.out[-1500:]))
    ctx.log("MCFileInfo with BugPadding=TRUE violates %s as it must (%d states)" % (r.violation, r.distinct))

def model_checks(ctx):
    q = ctx.quick
    out = []
    for name, mod, cfg, to in (("MCIndex", "MCIndex", "MCIndex.cfg" if q else "MCIndexT.cfg", 300 if q else 1500),
                               ("MCFileInfo", "MCFileInfo", "MCFileInfo.cfg" if q else "MCFileInfoT.cfg", 300 if q else 900),
                               ("MCFileInfo(damaged)", "MCFileInfo", "MCFileInfoDmg.cfg" if q else "MCFileInfoDmgT.cfg", 300 if q else 900)):
        r = tlc.run(mod, cfg=cfg, workers=4, timeout=to)
        out.append((name, r))
    return out

def generate_plans(ctx):
    q = ctx.quick
    jobs = []
    for n in range(4):
        jobs.append(("walks", dict(cfg="GenIndexSim.cfg", simulate=120 if q else 1200, depth=16)))
    for n in range(2):
        jobs.append(("volume", dict(cfg="GenIndexVol.cfg", simulate=10 if q else 60, depth=12)))
    jobs.append(("bfs", dict(cfg="GenIndexBfs.cfg" if q else "GenIndexBfsT.cfg")))
    jobs.append(("iter", dict(cfg="GenIndexIter.cfg")))
    # every index of 5+ Streams over {empty, empty Block, Block} and of 5+ all-empty / non-empty Record groups
    jobs.append(("limits", dict(cfg="GenIndexLim.cfg")))     # every transition over sizes near 2^62 / 2^63, up to 3 Streams
    jobs.append(("hash", dict(cfg="GenIndexHash.cfg")))      # every transition of a small lzma_index_hash state graph
    jobs.append(("family", dict(cfg="GenIndexFam.cfg" if q else "GenIndexFamT.cfg")))      # every transition of a one-index iterator state graph
    seeds = [ctx.rng.randrange(1, 1 << 30) for _ in jobs]
    def one(a):
        (label, kw), seed = a
        if "simulate" in kw:
            kw = dict(kw, seed=seed)
        return label, tlc.run("GenIndex", workers=1, timeout=1500, **kw)
    jobs.sort(key=lambda j: {"family": 0, "limits": 1, "walks": 2}.get(j[0], 3))     # longest first, four at a time
    with concurrent.futures.ThreadPoolExecutor(4) as ex:
        rs = list(ex.map(one, zip(jobs, seeds)))
    return rs

def replay_file(ctx):
    """./check C13 --replay FILE: re-evaluate the recorded call history with the model and replay it."""
    d = json.load(open(ctx.replay))
    h = (d.get("replay") or {}).get("history")
    if not h:
        raise MachineryError("replay file has no index history (only index plans can be replayed)")
    plans = eval_histories(ctx, [h], "replay")
    replay_index(ctx, plans, "replay", nproc=1)
    return ctx.finish(rule="one recorded history re-evaluated by EvalIndex and replayed", trusted=["TLC", "ctypes driver"])

def run(ctx):
    q = ctx.quick
    if ctx.replay:
        return replay_file(ctx)
    # (M) and plan generation run side by side (4 + 7 JVMs)
    with concurrent.futures.ThreadPoolExecutor(2) as ex:
        fm = ex.submit(model_checks, ctx)
        fg = ex.submit(generate_plans, ctx)
        mc = fm.result(); gen = fg.result()
    for name, r in mc:
        ctx.add_tlc(name, r, exhaustive=True)
        if r.violation:
            ctx.violation("model:%s:%s" % (name, r.violation), r.out[-4000:], dict(kind="tlc_counterexample"))
        ctx.log(name + ":", r.summary())
    bug_variants(ctx)
    # (R) index histories
    groups = {}
    for label, r in gen:
        ctx.add_tlc("GenIndex(%s)" % label, r, exhaustive=(label in ("bfs", "iter", "family", "hash", "limits")) or None)
        groups.setdefault(label, []).extend(plans_from_tlc(r.out))
    if len(groups.get("walks", [])) < 100 or len(groups.get("bfs", [])) < 1000 or len(groups.get("volume", [])) < 10 \
       or len(groups.get("iter", [])) < 500 or len(groups.get("family", [])) < 1000 \
       or len(groups.get("hash", [])) < 300 or len(groups.get("limits", [])) < 3000:
        raise MachineryError("plan generation produced too few plans: %s" % {k: len(v) for k, v in groups.items()})
    ctx.sample(dict(kind="index_plan", ops=plan_ops(groups["walks"][0])))
    ctx.sample(dict(kind="index_volume_plan", ops=plan_ops(groups["volume"][0])))
    for label in ("iter", "hash", "limits", "family", "bfs", "walks", "volume"):
        replay_index(ctx, groups[label], label)
    # (V) file-info
    fplans = file_info(ctx, 24 if q else 160, 6 if q else 40, 12000 if q else 120000)
    replay_index(ctx, fplans, "fileindexes")
    ctx.assumptions += [
        "LP64 structure sizes in Index!MemUsage (checked against lzma_index_memusage(1,0) = 408 at start-up)",
        "the Backward Size limit (2^34) of append/cat needs > 9e8 Records and is transcribed but not reachable here",
        "decoding garbage as an Index / Stream Header fails (FileInfo!Case IDEC/HDEC); consumed bytes of failing calls are not compared",
        "memory-allocation failures of the index functions are not injected (C10/C09 cover allocator behaviour)"]
    return ctx.finish(rule="evaluations = call histories generated by TLC and replayed (distinct by call sequence) + "
                      "file-info decodes (distinct by file layout x read size) + xz --list comparisons; all have >= 1 call",
                      trusted=["TLC", "gcc ASan/UBSan", "ctypes driver", "zlib.crc32", "the .xz parser in c13_fileinfo.py (format document)"])
