"""C13 - the Index and file-info APIs describe files exactly; random access is correct.

(M) MCIndex: every index reachable by any history of append / stream_flags / stream_padding / cat / dup /
    encode->decode / end within the bounds satisfies IndexContract (sizes valid, checks, complete iteration in the
    four modes, next() from every position, locate, failed calls change nothing, success iff within limits).
    MCFileInfo: the backwards walk of file_info.c over every abstract multi-Stream file within the bounds, for every
    way of supplying input, terminates with the concatenation of the per-Stream indexes and never seeks past the end.
(R) GenIndex: TLC generates call histories (random walks over the whole VLI range + breadth-first over a small
    alphabet + volume plans evaluated by EvalIndex) with the predicted return value, all getters, the complete
    iteration in four modes and locate at every boundary after every call; harness/pydrv/c13_index.py replays them.
(V) file-info: multi-Stream padded .xz files made by the real encoder are decoded by lzma_file_info_decoder with
    several read sizes; the recorded (input, consumed, return, seek_pos) trace is validated against FileInfo.tla
    (TraceFileInfo), the resulting index against the prediction EvalIndex computes from the per-Stream Records,
    Blocks are decoded at the offsets of the index, and `xz --list --robot -vv` is compared with the same prediction.
"""
import json, os, subprocess, sys, concurrent.futures
from lib import tlc, build
from lib.ctx import MachineryError

HERE = os.path.dirname(os.path.dirname(os.path.abspath(__file__)))

def plans_from_tlc(out):
    plans = []
    for line in out.splitlines():
        if line.startswith('<<"PLAN", "'):
            js = line[len('<<"PLAN", "'):-3]
            plans.append(json.loads(js.encode().decode("unicode_escape")))
    return plans

def plan_ops(plan):
    def short(o):
        d = {"op": o["op"], "k": o["k"]}
        if o["j"]: d["j"] = o["j"]
        if o["op"] in ("append", "appendn", "padding", "iter_locate", "catn"): d["u"] = o["u"]
        if o["op"] in ("append", "appendn", "catn"): d["v"] = o["v"]
        if o["n"]: d["n"] = o["n"]
        if o["m"]: d["m"] = o["m"]
        if o["f"]["set"]: d["f"] = o["f"]
        return d
    return [dict(short(s["o"]), ret=s["ret"], why=s["why"]) for s in plan]

def run_workers(ctx, mode, items, nproc, label):
    """Run harness/pydrv/c13_index.py children over `items` (one JSON per line). Returns list of (item index, result)
    and reports crashes."""
    L = build.lib("asan")
    env = build.asan_env(); env["VERIF_LIBLZMA"] = L["so"]; env["PYTHONPATH"] = HERE
    env["ASAN_OPTIONS"] = env.get("ASAN_OPTIONS", "") + ":detect_leaks=0"
    chunks = [list(range(c, len(items), nproc)) for c in range(nproc)]
    procs = []
    for c, idxs in enumerate(chunks):
        if not idxs:
            continue
        src = os.path.join(ctx.workdir, "%s.%d.in" % (label, c)); dst = os.path.join(ctx.workdir, "%s.%d.out" % (label, c))
        with open(src, "w") as f:
            for i in idxs:
                f.write(json.dumps(items[i]) + "\n")
        p = subprocess.Popen([sys.executable, "-m", "harness.pydrv.c13_index", mode, src, dst], cwd=HERE, env=env,
                             stdout=subprocess.PIPE, stderr=subprocess.STDOUT, text=True)
        procs.append((p, idxs, dst))
    results = []
    for p, idxs, dst in procs:
        try:
            out, _ = p.communicate(timeout=1500)
        except subprocess.TimeoutExpired:
            p.kill(); out, _ = p.communicate()
            out += "\n(timeout)"
        begun = -1; done = {}
        if os.path.exists(dst):
            for line in open(dst):
                try:
                    d = json.loads(line)
                except ValueError:
                    continue
                if "begin" in d: begun = d["begin"]
                if "done" in d: done[d["done"]] = d["res"]
        for n, i in enumerate(idxs):
            if n in done:
                results.append((i, done[n]))
        if p.returncode == 77:
            raise MachineryError("%s worker: harness error\n%s" % (label, out[-3000:]))
        if p.returncode != 0:
            if begun >= 0 and begun not in done:
                # the library aborted (assertion / sanitizer) while this item ran: the code took a step the
                # model has no counterpart for
                results.append((idxs[begun], dict(step=-1, key="replay:crash", detail=out[-3000:])))
            else:
                raise MachineryError("%s worker failed outside an item: rc=%s\n%s" % (label, p.returncode, out[-3000:]))
    results.sort(key=lambda x: x[0])
    return results

# ------------------------------------------------------------------ index histories
def gen_walks(ctx, nproc, walks, depth, cfg="GenIndexSim.cfg"):
    seeds = [ctx.rng.randrange(1, 1 << 30) for _ in range(nproc)]
    def one(seed):
        return tlc.run("GenIndex", cfg=cfg, workers=1, timeout=900, simulate=walks, depth=depth + 4, seed=seed)
    with concurrent.futures.ThreadPoolExecutor(nproc) as ex:
        rs = list(ex.map(one, seeds))
    plans = []
    for n, r in enumerate(rs):
        ctx.add_tlc("GenIndex(simulate,seed=%d)" % seeds[n], r)
        plans += plans_from_tlc(r.out)
    return plans

def replay_index(ctx, plans, label, nproc=4):
    res = run_workers(ctx, "index", plans, nproc, label)
    seen = set(); bad = 0
    for i, r in res:
        ctx.case(key=("plan", json.dumps(plan_ops(plans[i]))))
        if r:
            bad += 1
            if r["key"] in seen:
                continue
            seen.add(r["key"])
            ops = plan_ops(plans[i])
            ctx.violation(r["key"], "step %d (%s): %s" % (r["step"], json.dumps(ops[r["step"]]) if r["step"] >= 0 else "?", r["detail"]),
                          dict(kind="index_plan", ops=ops[:r["step"] + 1] if r["step"] >= 0 else ops, mismatch=r))
    if len(res) != len(plans):
        raise MachineryError("replay %s: %d of %d plans accounted for" % (label, len(res), len(plans)))
    ctx.add_traces(len(plans))
    ctx.log("replayed %d plans / %d calls (%s): %d differ" % (len(plans), sum(len(p) for p in plans), label, bad))

def run(ctx):
    q = ctx.quick
    # (M) index
    r = tlc.run("MCIndex", cfg="MCIndex.cfg" if q else "MCIndexT.cfg", workers=4, timeout=240 if q else 1500)
    ctx.add_tlc("MCIndex", r, exhaustive=True)
    if r.violation:
        ctx.violation("model:index:" + r.violation, r.out[-4000:], dict(kind="tlc_counterexample"))
    ctx.log("MCIndex:", r.summary())
    # (R) index histories
    plans = gen_walks(ctx, 4, 120 if q else 1500, 12)
    if len(plans) < 100:
        raise MachineryError("plan generation produced only %d plans" % len(plans))
    ctx.sample(dict(kind="index_plan", ops=plan_ops(plans[0])))
    replay_index(ctx, plans, "walks")
    return ctx.finish(rule="evaluations = call histories generated by TLC and replayed (distinct by call sequence) + "
                      "file-info decodes (distinct by file layout x read size); all have >= 1 call",
                      trusted=["TLC", "gcc ASan/UBSan", "ctypes driver", "zlib.crc32"])
