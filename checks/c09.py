"""C09 - memory limits are honoured and memory estimates are upper bounds.

(M) MCMemLimit: the restart protocol of the limited decoders (SEQ_BLOCK_INIT / SEQ_CODER_INIT / SEQ_MEMUSAGE,
    *_memconfig) and the threaded decoder's memlimit_threading / memlimit_stop accounting (direct-mode decision,
    start condition, cache eviction) transcribed in MemLimit.tla satisfy MemLimitContract.tla for every unit sequence,
    limit and lzma_memlimit_set value within the constants; broken variants must each violate it.  The variant of the
    protocol the library follows is determined by two probes and confirmed by trace validation on all other runs; the
    contract is model-checked for exactly that variant.
(V) ctypes driver with a size-recording lzma_allocator: decoders (.xz single/threaded, .lzma, .lz, auto, index,
    file-info) on files whose declared dictionary is 4 KiB .. 1.5 GiB, limits M-1, M, M+1, raise-and-resume, lowering;
    *_memusage() estimates against measured peaks; every run is validated by TraceMemLimit.tla.
(M+R) MemAdjust.tla transcribes coder_set_compression_settings() of src/xz/coder.c; TLC emits plans
    (limit x threads x preset x flags) that are replayed with the real xz; threads used, dictionary size written in the
    Block Header, messages and exit status must equal the prediction.
"""
import ctypes as C, json, os, re, subprocess, concurrent.futures
from lib import tlc, build, tracev
from lib.ctx import MachineryError

HERE = os.path.dirname(os.path.dirname(os.path.abspath(__file__)))
SPEC = os.path.join(HERE, "spec")
BASE = 32768
SLACK = 0            # allowance of the single-threaded decoders beyond max(limit, LZMA_MEMUSAGE_BASE): none needed
SLACK_INDEX = 16384  # Index / file info decoders: usage counts the Indexes only; coder structures (8 KiB buffer) come on top
SLACK_MT = 16384     # threaded decoder: thread table, coder structures, index hash (not in its own accounting)
VARIANTS_BROKEN = {"set_accepts_small": "MCMemLimitSt.cfg", "usage_not_updated": "MCMemLimitSt.cfg",
                   "compare_after_alloc": "MCMemLimitSt.cfg", "limit_checked_once": "MCMemLimitSt.cfg", "threading_test_uses_stop": "MCMemLimitMt.cfg",
                   "can_start_uses_stop": "MCMemLimitMt.cfg", "outq_cache_test_uses_in_use": "MCMemLimitMt.cfg"}
FINDING = {"mt_usage_excludes_need": ("memlimit:stream_decoder_mt:memusage-not-needed-amount",
                                      "after LZMA_MEMLIMIT_ERROR from lzma_stream_decoder_mt, lzma_memusage() reports the memory "
                                      "currently allocated, not the amount the refused Block needs; raising the limit to the "
                                      "reported value does not let decoding continue"),
           "mt_set_keeps_threading": ("memlimit:stream_decoder_mt:exceeds-stop-after-lowering",
                                      "lzma_memlimit_set() on lzma_stream_decoder_mt lowers memlimit_stop but leaves "
                                      "memlimit_threading above it; threaded decoding then allocates more than the accepted hard limit")}


def cfg_with(ctx, base, variant, name, extra=""):
    """Copy of a spec/*.cfg with the Variant/Bug constant replaced; written to the work directory."""
    txt = open(os.path.join(SPEC, base)).read()
    vs = "{" + ", ".join('"%s"' % v for v in sorted(variant)) + "}"
    txt = re.sub(r"\b(Bug|Variant) = \{[^}]*\}", lambda m: "%s = %s" % (m.group(1), vs), txt)
    p = os.path.join(ctx.workdir, name)
    open(p, "w").write(txt + extra)
    return p


# ------------------------------------------------------------------ data
def dict_sizes(quick):
    return [1 << 16, 1 << 20, 64 << 20, 3 << 29] if quick else [1 << 12, 1 << 16, 1 << 20, 3 << 22, 64 << 20, 1 << 30, 3 << 29]


def lzma2_dict_bytes(quick):
    """LZMA2 dictionary property bytes: the whole domain 0..40 (thorough) or a spread including both ends (quick).
    Bytes 38..40 declare 2 GiB, 3 GiB and 4 GiB - 1: amounts that do not fit the 32-bit log ("huge" files)."""
    return [0, 1, 7, 12, 19, 30, 36, 37, 38, 39, 40] if quick else list(range(41))


HUGE = 1 << 31


def make_files(ctx, lz, coders, D):
    """(kind, label, data) for the single-threaded decoders."""
    rng = ctx.rng
    files = []
    small = coders.rand_data(rng, 3000, "text")
    text = coders.rand_data(rng, 30000, "text")
    x1 = coders.encode_xz(small, preset=0)
    for db in lzma2_dict_bytes(ctx.quick):
        real = 0xFFFFFFFF if db == 40 else (2 | (db & 1)) << (db // 2 + 11)
        px, real = D.patch_xz_dict(x1, real)
        files.append(("stream", "xz-dictbyte%d-%d%s" % (db, real, "-huge" if real >= HUGE else ""), px))
        if db in (19, 37, 40):
            files.append(("auto", "auto-xz-dictbyte%d%s" % (db, "-huge" if real >= HUGE else ""), px))
    # two Blocks with different needs (second larger, and second smaller), and two concatenated Streams
    x2 = coders.encode_xz(text, preset=0, block_size=10000)
    for a, b, c in ((1 << 16, 1 << 20, 1 << 18), (1 << 22, 1 << 16, 1 << 23)):
        px, _, blocks = D.patch_all_blocks(x2, a)
        out = bytearray(px)
        for blk, ds in zip(blocks[1:], (b, c)):
            hdr = bytes(out[blk["off"]:blk["off"] + blk["hs"]])
            one, _ = D.patch_xz_dict(b"\0" * 12 + hdr, ds)
            out[blk["off"]:blk["off"] + blk["hs"]] = one[12:]
        files.append(("stream", "xz-3blocks-%d-%d-%d" % (a, b, c), bytes(out)))
    pa, _ = D.patch_xz_dict(x1, 1 << 16); pb, _ = D.patch_xz_dict(coders.encode_xz(text, preset=0), 1 << 21)
    files.append(("stream", "xz-2streams", pa + pb))
    files.append(("auto", "auto-2streams", pb + bytes(8) + pa))
    al = coders.encode_alone(small)
    for ds in dict_sizes(ctx.quick):
        files.append(("alone", "lzma-dict%d" % ds, D.patch_alone_dict(al, ds)))
    files.append(("auto", "auto-lzma-dict%d" % (1 << 22), D.patch_alone_dict(al, 1 << 22)))
    # .lzma headers may declare any 32-bit size: odd sizes and the top of the domain
    for ds in ([4097, (1 << 20) + 1] if ctx.quick else [1, 4095, 4097, (1 << 20) + 1, (3 << 28) + 5]):
        files.append(("alone", "lzma-dict%d" % ds, D.patch_alone_dict(al, ds)))
    for ds in ([0xFFFFFFFF, 0x80000000] if ctx.quick else [0xFFFFFFFF, 0xFFFFFFF1, 0xFFFFFFF0, 0x80000000, 0xC0000001]):
        files.append(("alone", "lzma-dict%d-huge" % ds, D.patch_alone_dict(al, ds)))
    files.append(("auto", "auto-lzma-dict%d-huge" % 0xFFFFFFFF, D.patch_alone_dict(al, 0xFFFFFFFF)))
    lzf = coders.test_file("good-1-v1.lz")
    for lg in ([12, 16, 24, 29] if ctx.quick else [12, 14, 16, 20, 24, 27, 29]):
        pl, real = D.patch_lzip_dict(lzf, lg, rng.choice([0, 3]) if lg > 12 else 0)
        files.append(("lzip", "lz-dict%d" % real, pl))
    files.append(("lzip", "lz-2members", coders.test_file("good-2-v1-v1.lz")))
    files.append(("auto", "auto-lz", D.patch_lzip_dict(lzf, 22)[0]))
    L = lz.L()
    for n in ([0, 1, 600, 5000] if ctx.quick else [0, 1, 2, 511, 512, 513, 600, 5000, 40000]):
        idx = coders.build_index([(rng.randint(5, 5000), rng.randint(1, 90000)) for _ in range(n)])
        size = L.lzma_index_size(idx); buf = lz.Buf(size); pos = C.c_size_t(0)
        assert L.lzma_index_buffer_encode(idx, buf.addr, C.byref(pos), size) == lz.OK
        L.lzma_index_end(idx, None)
        files.append(("index", "index-%d" % n, buf.data(pos.value)))
    multi = coders.encode_xz(text, preset=0, block_size=2000) + bytes(4) + coders.encode_xz(small, preset=0) + \
        coders.encode_xz(text[:9000], preset=0, block_size=300)
    files.append(("file_info", "fileinfo-3streams", multi))
    files.append(("file_info", "fileinfo-1stream", x1))
    # several concatenated Streams whose Indexes are each larger than LZMA_MEMUSAGE_BASE: the limit that lets the
    # decoder through k Streams must not let it hold k+1 Indexes
    for nstreams, nrec in ([(4, 4000)] if ctx.quick else [(3, 6000), (4, 4000), (6, 2500), (2, 9000)]):
        parts = []
        for s in range(nstreams):
            parts.append(D.synth_xz_stream([(rng.randint(5, 8), rng.randint(1, 90000)) for _ in range(nrec + 37 * s)]))
            parts.append(bytes(4 * rng.randint(0, 2)))
        files.append(("file_info", "fileinfo-%dstreams-%drecords" % (nstreams, nrec), b"".join(parts[:-1])))
    return files


# ------------------------------------------------------------------ single-threaded decoders
def st_runs(ctx, lz, coders, D, kind, label, data):
    """All limit scenarios for one file.  Returns list of (label, events)."""
    out = []
    chunk = ctx.rng.choice([None, None, 997])
    if kind in ("index", "file_info"):
        chunk = None
    def fin(run, ref, stopped):
        same = True
        if ref is not None:
            if stopped:
                same = run.ret == lz.MEMLIMIT_ERROR and bytes(ref.out).startswith(bytes(run.out))
            else:
                same = run.result() == ref.result()
        run.events.append(dict(e="Final", stopped=bool(stopped), same=bool(same), live=run.final_live))
        return run.events
    ref = D.LimitedRun(kind, data, D.UNL, chunk=chunk).run()
    out.append((label + "|unlimited", [dict(e="Reset")] + fin(ref, None, False)))
    if label.endswith("-huge"):
        # the need is >= 2 GiB (logged as Unlimited): every limit below 2 GiB must stop the decoder before it asks
        # the allocator for the dictionary, and lzma_memusage() must then report an amount above the limit
        for lim in (1, BASE + 1, 1 << 20, 1 << 30, D.UNL - 1):
            r = D.LimitedRun(kind, data, lim, chunk=chunk).run()
            out.append((label + "|limit=%d" % lim, [dict(e="Reset")] + fin(r, ref, r.ret == lz.MEMLIMIT_ERROR)))
        return out, ref, []
    # the sequence of needs: start at 1, raise to what lzma_memusage() reports, resume
    needs = []
    def raise_to_usage(run, u):
        needs.append(u); return u
    rr = D.LimitedRun(kind, data, 1, chunk=chunk).run(policy=raise_to_usage)
    out.append((label + "|raise-and-resume", [dict(e="Reset")] + fin(rr, ref, False)))
    if not needs:
        return out, ref, needs
    M = max(needs)
    for lim, nm in ((M - 1, "M-1"), (M, "M"), (M + 1, "M+1")):
        r = D.LimitedRun(kind, data, lim, chunk=chunk).run()
        out.append((label + "|limit=" + nm, [dict(e="Reset")] + fin(r, ref, r.ret == lz.MEMLIMIT_ERROR)))
    # raising to one byte less than reported must not help
    state = {"n": 0}
    def raise_too_little(run, u):
        state["n"] += 1
        return u - 1 if state["n"] == 1 else None
    r = D.LimitedRun(kind, data, needs[0] - 1 if needs[0] > 1 else 1, chunk=chunk).run(policy=raise_too_little)
    out.append((label + "|raise-to-M-1", [dict(e="Reset")] + fin(r, ref, True)))
    # calling again without raising the limit, or after a rejected lzma_memlimit_set, stops at the same point again;
    # raising to the reported amount afterwards still resumes
    for nm, script in (("again-again", ["again", "again", None]), ("rejected-again", [("try", -1), "again", None]),
                       ("again-then-raise", ["again", ("try", -1), "raise"])):
        st = {"i": 0}
        def scripted(run, u, script=script, st=st):
            a = script[st["i"]] if st["i"] < len(script) else "raise"
            st["i"] += 1
            if a == "raise":
                return u
            if isinstance(a, tuple):
                return ("try", max(1, u + a[1]))
            return a
        r = D.LimitedRun(kind, data, max(1, needs[0] - 1), chunk=chunk).run(policy=scripted)
        out.append((label + "|" + nm, [dict(e="Reset")] + fin(r, ref, r.ret == lz.MEMLIMIT_ERROR)))
    # raise generously, then try to lower the limit below / to the current usage in the middle
    def raise_more(run, u):
        return u + ctx.rng.choice([1, 4096, 1 << 20])
    r = D.LimitedRun(kind, data, max(1, needs[0] // 2), chunk=chunk)
    nerr = 0
    for _ in range(100000):
        rc = r.code()
        if rc == lz.MEMLIMIT_ERROR:
            nerr += 1
            if nerr > 40:
                break
            if r.set_limit(raise_more(r, lz.L().lzma_memusage(C.byref(r.c.strm)))) != lz.OK:
                break
            u = lz.L().lzma_memusage(C.byref(r.c.strm))
            r.set_limit(u - 1)          # must be rejected
            r.set_limit(0)              # 0 means 1: rejected as well
            r.set_limit(u)              # accepted: lowering down to the usage is fine
            continue
        if rc not in (lz.OK, lz.SEEK_NEEDED):
            break
    r.ret = rc
    if kind in ("index", "file_info") and r.c.index_out.value:
        L = lz.L(); i = r.c.index_out
        r.index_summary = (L.lzma_index_stream_count(i), L.lzma_index_block_count(i), L.lzma_index_file_size(i),
                           L.lzma_index_uncompressed_size(i), L.lzma_index_memused(i))
        L.lzma_index_end(i, r.al.ptr())
    r.c.end(); r.final_live = r.al.cur
    out.append((label + "|raise-then-lower", [dict(e="Reset")] + fin(r, ref, False)))
    return out, ref, needs


# ------------------------------------------------------------------ estimates
def estimate_events(ctx, lz, coders, D):
    L = lz.L(); rng = ctx.rng
    ev = []
    data = coders.rand_data(rng, 40000, "text")
    def add(fn, est, peak, what):
        if est >= D.UNL or peak is None:
            return
        ev.append((what, dict(e="Estimate", fn=fn, what=what, est=int(est), peak=int(peak))))
    presets = [0, 1, 3, 6, 9, 6 | lz.PRESET_EXTREME] if ctx.quick else list(range(10)) + [p | lz.PRESET_EXTREME for p in (0, 3, 6, 9)]
    for p in presets:
        nm = "%d%s" % (p & 31, "e" if p & lz.PRESET_EXTREME else "")
        pk, r = D.measure_peak(lambda c: c.init("lzma_easy_encoder", p, lz.CHECK_CRC64), data)
        add("lzma_easy_encoder_memusage", L.lzma_easy_encoder_memusage(p), pk, "easy_encoder preset " + nm)
        x = coders.encode_xz(data[:5000], preset=p & 31) if (p & 31) <= 6 else D.patch_xz_dict(coders.encode_xz(data[:5000], preset=0),
                                                                                           lz.lzma_opts(p).dict_size)[0]
        pk, r = D.measure_peak(lambda c: c.init("lzma_stream_decoder", lz.UINT64_MAX, 0), x)
        add("lzma_easy_decoder_memusage", L.lzma_easy_decoder_memusage(p), pk, "stream_decoder of preset " + nm)
    corners = []
    for mf in (lz.MF_HC3, lz.MF_HC4, lz.MF_BT2, lz.MF_BT3, lz.MF_BT4):
        for ds in ((4096, 1 << 20) if ctx.quick else (4096, 65536, 1 << 20, 48 << 20)):
            corners.append(dict(dict_size=ds, mf=mf, mode=lz.MODE_NORMAL if mf & 0x10 else lz.MODE_FAST,
                                nice_len=rng.choice([2 if mf == lz.MF_BT2 else 4, 32, 273]), depth=rng.choice([0, 1, 200])))
    corners += [dict(lc=4, lp=0), dict(lc=0, lp=4), dict(lc=0, lp=0, pb=0), dict(dict_size=(1 << 20) + 4096), dict(dict_size=3 << 22)]
    for kw in corners:
        for fid, fname in ((lz.FILTER_LZMA2, "lzma2"), (lz.FILTER_LZMA1, "lzma1")):
            o = lz.lzma_opts(3, **kw)
            chains = [[(fid, o)]]
            if kw.get("lc") == 4 or kw.get("dict_size") == 4096:
                b = lz.OptBcj(); dl = lz.OptDelta(); dl.dist = 7
                chains.append([(lz.FILTER_X86, b), (lz.FILTER_DELTA, dl), (fid, o)])
            for ch in chains:
                f = lz.make_filters(ch)
                what = "%s %s chain=%d" % (fname, json.dumps(kw, sort_keys=True), len(ch))
                est = L.lzma_raw_encoder_memusage(f)
                pk, r = D.measure_peak(lambda c: c.init("lzma_raw_encoder", f), data)
                if r is not None and pk is not None:
                    add("lzma_raw_encoder_memusage", est, pk, "raw_encoder " + what)
                    comp = coders.encode_raw(data[:4000], f)
                    pk2, r2 = D.measure_peak(lambda c: c.init("lzma_raw_decoder", f), comp)
                    add("lzma_raw_decoder_memusage", L.lzma_raw_decoder_memusage(f), pk2, "raw_decoder " + what)
    for threads, preset, bs in ([(1, 0, 0), (2, 1, 8192), (3, 3, 0)] if ctx.quick else
                                [(1, 0, 0), (2, 1, 8192), (3, 3, 0), (4, 6, 1 << 16), (2, 6, 0), (8, 0, 4096)]):
        mt = lz.Mt(); mt.threads = threads; mt.preset = preset; mt.block_size = bs; mt.check = lz.CHECK_CRC64
        big = coders.rand_data(rng, 150000 if bs else 20000, "text")
        pk, r = D.measure_peak(lambda c: c.init("lzma_stream_encoder_mt", C.byref(mt)), big)
        add("lzma_stream_encoder_mt_memusage", L.lzma_stream_encoder_mt_memusage(C.byref(mt)), pk,
            "stream_encoder_mt threads=%d preset=%d block_size=%d" % (threads, preset, bs))
    # the same estimate against the peak under a slow consumer (the output queue fills up to its 2*threads buffers)
    for threads, preset, bs in ([(3, 0, 1 << 18), (2, 1, 1 << 19)] if ctx.quick else
                                [(3, 0, 1 << 18), (2, 1, 1 << 19), (4, 0, 1 << 17), (2, 3, 1 << 20)]):
        mt = lz.Mt(); mt.threads = threads; mt.preset = preset; mt.block_size = bs; mt.check = lz.CHECK_CRC64
        big = coders.rand_data(rng, 1 << 15, "text") * ((2 * threads + 3) * bs >> 15)
        pk, r = D.measure_peak_slow(lambda c: c.init("lzma_stream_encoder_mt", C.byref(mt)), big)
        add("lzma_stream_encoder_mt_memusage", L.lzma_stream_encoder_mt_memusage(C.byref(mt)), pk,
            "stream_encoder_mt slow consumer threads=%d preset=%d block_size=%d" % (threads, preset, bs))
        ctx.extra.setdefault("mt_encoder_slow_consumer", []).append(
            dict(threads=threads, block_size=bs, estimate=int(L.lzma_stream_encoder_mt_memusage(C.byref(mt))), peak=int(pk or 0)))
    # histories: the estimate for the CURRENT options must also cover a handle that was used with other (bigger or
    # smaller) options before - re-initialisation without lzma_end, lzma_filters_update to another chain,
    # a decoder moving on to a Stream with another dictionary size
    def reinit_case(what, fn, mk1, mk2, est2, coded1=True):
        al = D.SizeAlloc(); c = lz.Coder(al)
        if mk1(c) != lz.OK:
            c.end(); return
        if coded1:
            lz.run_coder(c, data[:20000])
        if mk2(c) != lz.OK:
            c.end(); return
        live = al.cur; al.take_peak()
        lz.run_coder(c, data[:20000])
        pk = max(live, al.take_peak())
        c.end()
        add(fn, est2, pk, "after re-initialisation: " + what)
    pairs = [(6, 0), (0, 6), (3, 1)] if ctx.quick else [(6, 0), (0, 6), (3, 1), (9, 0), (1, 9), (6, 6 | lz.PRESET_EXTREME), (5, 2)]
    for a, b in pairs:
        reinit_case("easy_encoder preset %d -> %d" % (a & 31, b & 31), "lzma_easy_encoder_memusage",
                    lambda c: c.init("lzma_easy_encoder", a, lz.CHECK_CRC32), lambda c: c.init("lzma_easy_encoder", b, lz.CHECK_CRC32),
                    L.lzma_easy_encoder_memusage(b))
        reinit_case("easy_encoder preset %d -> %d (unused)" % (a & 31, b & 31), "lzma_easy_encoder_memusage",
                    lambda c: c.init("lzma_easy_encoder", a, lz.CHECK_CRC32), lambda c: c.init("lzma_easy_encoder", b, lz.CHECK_CRC32),
                    L.lzma_easy_encoder_memusage(b), coded1=False)
    big = dict(dict_size=8 << 20, mf=lz.MF_BT4, mode=lz.MODE_NORMAL, nice_len=64)
    sml = dict(dict_size=1 << 16, mf=lz.MF_HC3, mode=lz.MODE_FAST, nice_len=32)
    for (n1, o1), (n2, o2) in (((("big", big), ("small", sml)), (("small", sml), ("big", big)))):
        for fid, fname in ((lz.FILTER_LZMA2, "lzma2"), (lz.FILTER_LZMA1, "lzma1")):
            f1 = lz.make_filters([(fid, lz.lzma_opts(3, **o1))]); f2 = lz.make_filters([(fid, lz.lzma_opts(3, **o2))])
            reinit_case("raw_encoder %s %s -> %s" % (fname, n1, n2), "lzma_raw_encoder_memusage",
                        lambda c: c.init("lzma_raw_encoder", f1), lambda c: c.init("lzma_raw_encoder", f2), L.lzma_raw_encoder_memusage(f2))
            comp2 = coders.encode_raw(data[:4000], f2)
            al = D.SizeAlloc(); c = lz.Coder(al)
            if c.init("lzma_raw_decoder", f1) == lz.OK and c.init("lzma_raw_decoder", f2) == lz.OK:
                live = al.cur; al.take_peak(); lz.run_coder(c, comp2)
                add("lzma_raw_decoder_memusage", L.lzma_raw_decoder_memusage(f2), max(live, al.take_peak()),
                    "after re-initialisation: raw_decoder %s %s -> %s" % (fname, n1, n2))
            c.end()
        # lzma_filters_update to the other chain before the first Block, then code
        g1 = lz.make_filters([(lz.FILTER_LZMA2, lz.lzma_opts(3, **o1))]); g2 = lz.make_filters([(lz.FILTER_LZMA2, lz.lzma_opts(3, **o2))])
        reinit_case("stream_encoder lzma_filters_update %s -> %s" % (n1, n2), "lzma_raw_encoder_memusage",
                    lambda c: c.init("lzma_stream_encoder", g1, lz.CHECK_CRC32),
                    lambda c: L.lzma_filters_update(C.byref(c.strm), g2), L.lzma_raw_encoder_memusage(g2), coded1=False)
        # a decoder going from a Stream with one dictionary size to a Stream with another: at the end it holds
        # what the last Block needs, and lzma_memusage() says so
        xs = {"big": D.patch_xz_dict(coders.encode_xz(data[:3000], preset=0), 8 << 20)[0],
              "small": D.patch_xz_dict(coders.encode_xz(data[:3000], preset=0), 1 << 18)[0]}
        al = D.SizeAlloc(); c = D.make_decoder("stream", al, D.UNL, b"")
        both = xs[n1] + xs[n2]
        ib = lz.Buf(len(both), both); ob = lz.Buf(1 << 16); s = c.strm
        s.next_in = ib.addr; s.avail_in = len(xs[n1]); s.next_out = ob.addr; s.avail_out = 1 << 16
        c.code_raw(lz.RUN)
        al.take_peak()
        s.avail_in = len(xs[n2]); s.next_out = ob.addr; s.avail_out = 1 << 16
        c.code_raw(lz.RUN)
        add("lzma_memusage", L.lzma_memusage(C.byref(s)), max(al.cur, al.take_peak()) if n1 == "small" else al.cur,
            "stream_decoder after Streams with %s then %s dictionary" % (n1, n2))
        c.end()
    # lzma_index_memusage(streams, blocks) vs an index really built (lzma_index_memused and the allocator)
    for streams, blocks in ([(1, 0), (1, 1), (1, 513), (3, 700)] if ctx.quick else [(1, 0), (1, 1), (1, 512), (1, 513), (3, 700), (7, 5000), (40, 3)]):
        al = D.SizeAlloc(); cur = None
        for s in range(streams):
            i = L.lzma_index_init(al.ptr())
            for _ in range(blocks // streams + (1 if s < blocks % streams else 0)):
                assert L.lzma_index_append(i, al.ptr(), rng.randint(5, 4000), rng.randint(1, 90000)) == lz.OK
            if cur is None:
                cur = i
            else:
                assert L.lzma_index_cat(cur, i, al.ptr()) == lz.OK
        est = L.lzma_index_memusage(streams, blocks)
        if streams == 1:
            # what lzma_index_decoder compares with its limit (lzma_index_memusage(1, count)): must be an upper bound
            add("lzma_index_memusage", est, al.cur, "index streams=%d blocks=%d (allocator)" % (streams, blocks))
            add("lzma_index_memusage", est, L.lzma_index_memused(cur), "index streams=%d blocks=%d (memused)" % (streams, blocks))
            add("lzma_index_memused", L.lzma_index_memused(cur), al.cur, "index memused vs allocator streams=%d blocks=%d" % (streams, blocks))
        else:
            # documented as approximate; for Indexes combined with lzma_index_cat the per-Stream rounding of Record
            # groups makes it a few percent too small: recorded, not judged (the decoders' limits are judged directly)
            ctx.extra.setdefault("index_memusage_multistream_info", []).append(
                dict(streams=streams, blocks=blocks, lzma_index_memusage=int(est), lzma_index_memused=int(L.lzma_index_memused(cur)),
                     allocated=int(al.cur)))
        L.lzma_index_end(cur, al.ptr())
    return ev


# ------------------------------------------------------------------ threaded decoder
def mt_setup(ctx, lz, coders, D, hetero=False):
    """A multi-Block file for the threaded decoder with the per-Block needs <<filters, inbuf, outbuf, known>>.
    hetero: three Blocks with cheap filters followed by one of the same uncompressed size with expensive filters."""
    rng = ctx.rng
    if hetero:
        piece = coders.rand_data(rng, 1 << 16, "text")
        data = piece * 64
        bs = 1 << 20
        x = coders.encode_xz(data, preset=0, block_size=bs)
        px, real, blocks = D.patch_all_blocks(x, 1 << 18)        # preset 0 dictionary: unchanged
        dicts = [real] * (len(blocks) - 1) + [8 << 20]
        out = bytearray(px)
        blk = blocks[-1]
        hdr = bytes(out[blk["off"]:blk["off"] + blk["hs"]])
        one, dicts[-1] = D.patch_xz_dict(b"\0" * 12 + hdr, dicts[-1])
        out[blk["off"]:blk["off"] + blk["hs"]] = one[12:]
        px = bytes(out)
    else:
        data = coders.rand_data(rng, 200000, "text")
        bs = 50000
        x = coders.encode_xz(data, preset=0, block_size=bs)
        px, real, blocks = D.patch_all_blocks(x, 1 << 20)
        dicts = [real] * len(blocks)
    Fs = [int(lz.L().lzma_raw_decoder_memusage(coders.lzma2_filters(0, dict_size=ds))) for ds in dicts]
    uncomps = sorted({b["uncomp"] for b in blocks})
    # sizeof(lzma_outbuf): the output buffer allocation of a threaded run minus the Block's uncompressed size
    r = D.LimitedRun("stream_mt", px, D.UNL, threads=2, tlimit=D.UNL).run()
    cand = [s - uncomps[-1] for s in r.al.sizes if uncomps[-1] < s < uncomps[-1] + 512]
    if not cand:
        raise MachineryError("no output-buffer-sized allocation seen in a threaded run")
    ob = cand[0]
    check_size = 4
    bl = []
    for b, F in zip(blocks, Fs):
        comp = b["unpadded"] - b["hs"] - check_size
        bl.append([F, (comp + 3) // 4 * 4 + check_size, b["uncomp"] + ob, True])
    return dict(data=data, file=px, F=max(Fs), blocks=bl, ref=r, outbuf_overhead=ob, outbufs={u + ob for u in uncomps})


def mt_run(lz, D, S, T, su, threads, lower=0, chunk=None, out_chunk=1 << 16):
    r = D.LimitedRun("stream_mt", su["file"], S, threads=threads, tlimit=T, chunk=chunk, out_chunk=out_chunk)
    setret = "none"
    if lower:
        setret = lz.retname(r.set_limit(lower))
    r.run()
    codes = [e for e in r.events if e["e"] == "Code"]
    peak = max(e.get("peak", 0) for e in r.events)
    threaded = any(s in su["outbufs"] for s in r.al.sizes)
    ref = su["ref"]
    if r.ret == lz.MEMLIMIT_ERROR:
        same = bytes(ref.out).startswith(bytes(r.out))
    else:
        same = r.result() == ref.result()
    return dict(e="MtRun", T=D.cap(max(1, T)), S=D.cap(max(1, S)), lower=D.cap(lower), setret=setret, threads=threads, blocks=su["blocks"],
                ret=lz.retname(r.ret), peak=int(peak), threaded=bool(threaded), usage=codes[-1]["usage"],
                same=bool(same and r.final_live == 0))


def mt_direct_setup(ctx, lz, coders, D):
    """A file that forces the threaded decoder into direct mode: Block Header without sizes (single-threaded
    encoder) declaring an 8 MiB dictionary."""
    data = coders.rand_data(ctx.rng, 60000, "text")
    px, real = D.patch_xz_dict(coders.encode_xz(data, preset=0), 8 << 20)
    F = int(lz.L().lzma_raw_decoder_memusage(coders.lzma2_filters(0, dict_size=real)))
    ref = D.LimitedRun("stream_mt", px, D.UNL, threads=2, tlimit=D.UNL).run()
    return dict(data=data, file=px, F=F, blocks=[[F, 1, 1, False]], ref=ref, outbufs=set())


def mt_history(lz, D, steps):
    """One lzma_stream re-initialised with lzma_stream_decoder_mt() for each step (what xz does for every further
    file on its command line).  steps: list of (setup, T, S, threads).  One MtRun event per step; for the steps after
    the first, `peak` is the largest amount held at the RETURN of any lzma_code() call of that step (memory kept
    from the previous file may only be released when the first Block of the new file is set up)."""
    al = D.SizeAlloc()
    c = lz.Coder(al)
    evs = []
    for n, (su, T, S, threads) in enumerate(steps):
        mt = lz.Mt(); mt.threads = threads; mt.flags = lz.CONCATENATED
        mt.memlimit_threading = lz.UINT64_MAX if T >= D.UNL else T
        mt.memlimit_stop = lz.UINT64_MAX if S >= D.UNL else S
        c.keep = mt
        if c.init("lzma_stream_decoder_mt", C.byref(mt)) != lz.OK:
            raise MachineryError("lzma_stream_decoder_mt re-initialisation failed")
        al.take_peak(); mark = len(al.sizes)
        data = su["file"]; s = c.strm
        ib = lz.Buf(len(data), data); ob = lz.Buf(1 << 16)
        s.next_in = ib.addr; s.avail_in = len(data)
        out = bytearray(); held = 0; r = lz.OK; usage = 0
        for _ in range(100000):
            s.next_out = ob.addr; s.avail_out = 1 << 16
            r = c.code_raw(lz.FINISH)
            got = (1 << 16) - s.avail_out
            out += ob.data(got)
            held = max(held, al.cur)
            usage = lz.L().lzma_memusage(C.byref(s))
            if r != lz.OK:
                break
        pk = al.take_peak()
        ref = su["ref"]
        same = (r == lz.MEMLIMIT_ERROR and bytes(ref.out).startswith(bytes(out))) or \
            (lz.retname(r) == ref.result()[0] and bytes(out) == bytes(ref.out))
        evs.append(dict(e="MtRun", T=D.cap(max(1, T)), S=D.cap(max(1, S)), lower=0, setret="none", threads=threads, blocks=su["blocks"],
                        ret=lz.retname(r), peak=int(pk if n == 0 else held), threaded=any(x in su["outbufs"] for x in al.sizes[mark:]),
                        usage=D.cap(usage), same=bool(same), step=n))
    c.end()
    if al.cur != 0:
        evs[-1]["same"] = False
    return evs


def run(ctx):
    if ctx.replay:
        obj = json.load(open(ctx.replay)).get("replay") or {}
        if obj.get("kind") == "trace":
            tracev.validate(ctx, "TraceMemLimit", [(obj.get("label", "replay"), obj["events"])],
                            lambda lab, e, i: "trace:%s:%s:%s" % (lab.split("|")[0].split(":")[0], e.get("e"), e.get("ret", "")),
                            cfg=cfg_with(ctx, "TraceMemLimit.cfg", set(), "TraceMemLimit.replay.cfg"))
            return ctx.finish(rule="replay: re-validation of a recorded run", trusted=["TLC"])
        # other kinds (threaded run, xz plan): the whole quick tier is cheap, rerun it
    from harness.pydrv import lz, coders
    from harness.pydrv import c09drv as D
    Lb = build.lib("asan")
    lz.load(Lb["so"])
    quick = ctx.quick

    # ---------------- probes: which variant of the protocol does the library follow?
    su = mt_setup(ctx, lz, coders, D)
    F = su["F"]
    need3 = F + max(b[1] + b[2] for b in su["blocks"])
    variant = set()
    p1 = mt_run(lz, D, F - 1, D.UNL, su, 2)
    if p1["ret"] != "MEMLIMIT_ERROR":
        ctx.violation("memlimit:stream_decoder_mt:no-error-below-need", json.dumps(p1), dict(kind="mtrun", run=p1))
    elif p1["usage"] < F:
        variant.add("mt_usage_excludes_need")
    p2 = mt_run(lz, D, 4 * need3, 4 * need3, su, 3, lower=F + 16)
    if p2["setret"] == "OK" and p2["peak"] > F + 16 + SLACK_MT:
        variant.add("mt_set_keeps_threading")
    ctx.extra["library_variant"] = sorted(variant)
    ctx.log("protocol variant followed by the library:", sorted(variant) or "documented protocol")

    # ---------------- (M)
    rs = tlc.run("MCMemLimit", cfg="MCMemLimitSt.cfg", workers=2, timeout=600, coverage=True)
    ctx.add_tlc("MCMemLimit/SpecSt", rs, exhaustive=True)
    if rs.violation:
        ctx.violation("model:" + rs.violation, rs.out[-4000:], dict(kind="tlc_counterexample"))
    mtcfg = cfg_with(ctx, "MCMemLimitMt.cfg" if quick else "MCMemLimitMtBig.cfg", variant, "MCMemLimitMt.variant.cfg")
    rm = tlc.run("MCMemLimit", cfg=mtcfg, workers=4, timeout=1200, coverage=True)
    ctx.add_tlc("MCMemLimit/SpecMt variant=%s" % sorted(variant), rm, exhaustive=True)
    if rm.violation:
        # the transcription the library follows violates the contract: report each variant's finding
        hit = False
        for v in sorted(variant):
            rv = tlc.run("MCMemLimit", cfg=cfg_with(ctx, "MCMemLimitMt.cfg", {v}, "MCMemLimitMt.%s.cfg" % v), workers=2, timeout=600)
            if rv.violation:
                hit = True
                ctx.violation(FINDING[v][0], "%s.\nTLC (%s violated by the transcription the library follows):\n%s\nprobe: %s"
                              % (FINDING[v][1], rv.violation, rv.out[-2500:], json.dumps(p1 if v == "mt_usage_excludes_need" else p2)),
                              dict(kind="mtrun", run=p1 if v == "mt_usage_excludes_need" else p2))
        if not hit:
            ctx.violation("model:" + rm.violation, rm.out[-4000:], dict(kind="tlc_counterexample"))
    ctx.log("MCMemLimit:", rs.summary(), rm.summary())
    nv = {}
    with concurrent.futures.ThreadPoolExecutor(3) as ex:
        futs = {b: ex.submit(tlc.run, "MCMemLimit", cfg=cfg_with(ctx, base, {b}, "MCMemLimit.%s.cfg" % b), workers=1, timeout=300)
                for b, base in VARIANTS_BROKEN.items()}
        for b, f in futs.items():
            rb = f.result()
            if rb.error:
                raise MachineryError("MCMemLimit variant %s: %s" % (b, rb.error))
            if not rb.violation:
                raise MachineryError("non-vacuity: broken variant %r does not violate the contract" % b)
            nv[b] = rb.violation
    ctx.extra["non_vacuity_broken_models"] = nv
    ctx.log("non-vacuity:", nv)

    # ---------------- (V) single-threaded decoders
    hists = []
    files = make_files(ctx, lz, coders, D)
    max_over = -10 ** 12
    for kind, label, data in files:
        runs, ref, needs = st_runs(ctx, lz, coders, D, kind, label, data)
        for lab, evs in runs:
            hists.append((kind + ":" + lab, evs))
            ctx.case(key=(lab, json.dumps(evs)))
            lim = None
            for e in evs:
                if e["e"] == "Init":
                    lim = e["limit"]
                if e["e"] in ("Code", "Set"):
                    if "peak" in e and lim is not None:
                        max_over = max(max_over, e["peak"] - max(lim, BASE))
                    lim = e["limit"]
    ctx.extra["index_decoders_allowance_bytes"] = SLACK_INDEX
    ctx.extra["st_allowance_bytes"] = SLACK
    ctx.extra["st_max_peak_minus_max(limit,BASE)"] = max_over
    # ---------------- (V) estimates
    est = estimate_events(ctx, lz, coders, D)
    worst = min((e["est"] - e["peak"], w) for w, e in est)
    ctx.extra["estimates_compared"] = len(est)
    ctx.extra["estimate_smallest_margin"] = dict(bytes=worst[0], case=worst[1])
    for w, e in est:
        ctx.case(key=("est", w))
    # ---------------- (V) threaded decoder
    mtev = [p1, p2]
    B = max(b[1] + b[2] for b in su["blocks"])
    Ts = [1, F - 1, F, F + B - 1000, F + B + 1000, 2 * (F + B) + 1000, 4 * (F + B), D.UNL]
    Ss = [F - 1, F, F + 1, F + B + 2000, D.UNL]
    combos = [(T, S, th) for T in Ts for S in Ss for th in (1, 2, 4)]
    if quick:
        combos = ctx.rng.sample(combos, 60)
    for T, S, th in combos:
        mtev.append(mt_run(lz, D, S, T, su, th, chunk=ctx.rng.choice([None, 7000])))
    for lower in ([F + 16, F + B + 2000] if quick else [F - 1, F, F + 16, F + B + 2000, 3 * (F + B)]):
        mtev.append(mt_run(lz, D, 6 * (F + B), 6 * (F + B), su, 3, lower=lower))
    # heterogeneous Blocks: limits just above / below what each kind of Block needs, fast and slow consumers
    sh = mt_setup(ctx, lz, coders, D, hetero=True)
    needs = sorted({b[0] + b[1] + b[2] for b in sh["blocks"]})
    Fh = sorted({b[0] for b in sh["blocks"]})
    Fc = Fh[0]; Ob = max(b[2] for b in sh["blocks"])
    # tight limits: the expensive Block fits together with k cached cheap decoders / with k-1 surplus cached output
    # buffers - the thresholds of the two eviction tests of SEQ_BLOCK_THR_INIT
    tight = [needs[-1] + 65536] + [needs[-1] + k * Fc + 32768 for k in (1, 2, 3)] + [needs[-1] + k * Ob - 32768 for k in (1, 2)]
    hT = tight + [needs[-1] - 1000, needs[0] + 1000, 3 * needs[0] + 1000, 2 * needs[-1], D.UNL]
    hS = [D.UNL, Fh[-1], Fh[-1] - 1, needs[-1] + 65536]
    hcombos = [(T, S, th, oc, ic) for T in hT for S in hS for th in (2, 4) for oc in (1 << 16, 4096) for ic in (None, 100000)]
    always = [c for c in hcombos if c[0] in tight and c[1] == D.UNL and c[4] is None and (c[2] == 4 or c[3] == 4096)]
    rest = [c for c in hcombos if c not in always]
    if quick:
        rest = ctx.rng.sample(rest, 14)
    hev = []
    for T, S, th, oc, ic in always + rest:
        hev.append(mt_run(lz, D, S, T, sh, th, chunk=ic, out_chunk=oc))
    hists.append(("stream_decoder_mt|heterogeneous-blocks", [dict(e="Reset")] + hev))
    for e in hev:
        ctx.case(key=("mth", json.dumps(e)))
    ctx.extra["mt_hetero_runs"] = len(hev)
    # histories on one handle: direct-mode file <-> threaded file with other limits
    sd = mt_direct_setup(ctx, lz, coders, D)
    lowT = 4 << 20
    hist = [[(sd, D.UNL, D.UNL, 2), (su, lowT, lowT, 3)], [(su, D.UNL, D.UNL, 3), (sd, D.UNL, sd["F"], 2), (su, lowT, lowT, 2)],
            [(sd, D.UNL, D.UNL, 2), (sd, lowT, sd["F"] + 4096, 2), (su, 2 * (F + B) + 1000, lowT, 4)],
            [(sh, needs[-1] + 65536, D.UNL, 4), (su, lowT, lowT, 3), (sd, lowT, D.UNL, 2)]]
    if not quick:
        hist += [[(sd, D.UNL, D.UNL, 3), (su, F + B + 1000, D.UNL, 4), (sd, D.UNL, D.UNL, 1), (sh, needs[-1] + 65536, D.UNL, 2)]]
    for k, steps in enumerate(hist):
        hv = mt_history(lz, D, steps)
        hists.append(("stream_decoder_mt|history-%d" % k, [dict(e="Reset")] + hv))
        for e in hv:
            ctx.case(key=("mthist", json.dumps(e)))
    ctx.extra["mt_histories"] = len(hist)
    mt_over = max((e["peak"] - min(e["S"], max(e["T"], F)) for e in mtev if e["ret"] == "STREAM_END" and not e["lower"]), default=0)
    ctx.extra["mt_allowance_bytes"] = SLACK_MT
    ctx.extra["mt_max_peak_minus_bound"] = mt_over
    hists.append(("stream_decoder_mt", [dict(e="Reset")] + mtev))
    for e in mtev:
        ctx.case(key=("mt", json.dumps(e)))
    tcfg = cfg_with(ctx, "TraceMemLimit.cfg", variant, "TraceMemLimit.variant.cfg")
    def keyfn(label, e, i):
        return keyfn0(label, e, i)
    def keyfn0(label, e, i):
        k = label.split("|")[0].split(":")[0]
        if e.get("e") == "Estimate":
            w = e.get("what", "")
            m = re.search(r'"dict_size": (\d+)', w)
            flt = "lzma2" if "lzma2" in w else "lzma1" if "lzma1" in w else "other"
            return "estimate:%s:%s:%s" % (e.get("fn"), flt, ("dict-lt-64KiB" if m and int(m.group(1)) < 65536 else "dict-ge-64KiB")
                                          if m else "below-real-peak")
        if e.get("e") == "MtRun":
            return "trace:stream_decoder_mt:%s:%s" % (e.get("ret"), "threaded" if e.get("threaded") else "direct")
        return "trace:%s:%s:%s" % (k, e.get("e"), e.get("ret", ""))
    # estimates last, grouped by finding key (one defect -> one rejection)
    groups = {}
    for w, e in est:
        groups.setdefault(keyfn0("estimates", e, 0), []).append(e)
    for k in sorted(groups):
        hists.append(("estimates|" + k, [dict(e="Reset")] + groups[k]))
    from checks.c10 import _Dedup
    seen = {}
    rej = tracev.validate(_Dedup(ctx, seen), "TraceMemLimit", hists, keyfn, cfg=tcfg, timeout=900, max_rounds=12)
    if seen:
        ctx.extra["rejections_per_key"] = dict(seen)
    ctx.sample(dict(kind="recorded_run", label=hists[1][0], events=hists[1][1]))
    ctx.sample(dict(kind="mt_run", event=mtev[2]))
    ctx.log("validated %d runs (%d events), %d estimates, %d threaded runs: rejected=%d"
            % (len(hists), sum(len(e) for _, e in hists), len(est), len(mtev), rej))

    # ---------------- xz: MemAdjust
    from checks import c09_xz
    c09_xz.run(ctx)

    ctx.assumptions += ["allowance: .xz/.lzma/.lz/auto decoders 0 bytes beyond max(limit, LZMA_MEMUSAGE_BASE=32768); Index and file info "
                        "decoders 16384 bytes (their usage figure covers the Indexes only); "
                        "threaded decoder %d bytes (thread table, coder, index hash are outside its accounting)" % SLACK_MT,
                        "declared dictionary sizes are set by patching encoder output (LZMA2 property byte + Block Header CRC32, "
                        ".lzma header field, .lz header byte); allocations >= 1 MiB come from untouched anonymous mmap",
                        "sizes are logged as 32-bit integers: all amounts < 2^31-1, UINT64_MAX logged as 2147483647"]
    return ctx.finish(rule="evaluations = limited-decoder runs (file x limit scenario), estimate/peak comparisons, threaded-decoder "
                      "runs (T x S x threads), xz invocations; distinct by full event list",
                      trusted=["TLC", "ctypes driver + size-recording allocator", "gcc ASan/UBSan"])
