"""C15 - BCJ and delta filters are exact inverses, size-preserving and stable.

(M) MCBcj: the simple_code() buffering protocol (spec/SimpleCoder.tla) composed with each architecture's reference
    transform (spec/Bcj.tla), under EVERY call sequence with chunk sizes from small sets: delivered bytes are always
    a prefix of the one-shot transform, STREAM_END iff complete, FINISH flushes the held-back tail, decode(encode(x))
    = x = encode(decode(x)), size preserved.  MCDelta: the 256-byte circular-history machine of delta_*.c equals the
    format's definition for every chunking; round trip.
(G) GenBcj: TLC evaluates the reference transforms on inputs built from opcode-pattern classes (per architecture,
    several start offsets incl. the 32-bit wrap, instructions on and off the scan grid, hand-made x86 E8/E9 pairs at
    distances 0..6 x MS bytes), delta distances/lengths, start_offset alignment and delta option validation, and
    coder-REUSE sessions: three jobs back to back on one coder object, state threaded through ScReinit/DeltaReinit
    (= Init: "a re-initialised filter equals a fresh one"; MCBcj/MCDelta have the Reinit action at every state), the
    first job sometimes abandoned mid-stream, offsets unrelated or continuing where the previous job ended.
    GenSimple: TLC simulates call sequences of the SimpleCoder machine and prints every call's predicted
    (input consumed, bytes written, return value).
(R) harness/cdrv/c15_drv.c replays everything into the real filters: the lone coder reached through the internal
    next-coder interface (public API forbids a BCJ/delta filter as the last one) under many slicings (whole, byte
    by byte on either side, every two-piece split, pseudo-random), the exact call plans, the public one-shot
    lzma_bcj_{x86,arm64,riscv}_{encode,decode}, and public chains [filter, LZMA2] via lzma_raw_buffer_encode/decode.
    Reuse sessions run on: the same lzma_next_coder initialised again (no free), the same lzma_stream given
    lzma_raw_encoder/lzma_raw_decoder again, one .xz Stream with a Block per job (LZMA_FULL_FLUSH + lzma_filters_update;
    each Block's payload with only LZMA2 undone must equal the fresh-state bytes), concatenated Streams through one
    LZMA_CONCATENATED decoder.
(V) tests/files good-1-arm64-lzma2-{1,2}.xz, good-1-delta-lzma2.tiff.xz, good-1-3delta-lzma2.xz (written by other
    versions): the payload with only the first filter still applied is decoded by the TLA+ reference (VFilterFiles)
    and must equal the content attested by the file's own Check.  A released liblzma found on the system is a further
    opinion on the same jobs (public chains); it is reported only where the tree and the model agree with each other.
"""
import json, os, subprocess
from lib import tlc, build
from lib.ctx import MachineryError

HERE = os.path.dirname(os.path.dirname(os.path.abspath(__file__)))
CDRV = os.path.join(HERE, "harness", "cdrv")
TLC_WORKERS = int(os.environ.get("VERIF_TLC_WORKERS", "6"))
RET = {"OK": 0, "STREAM_END": 1, "OPTIONS_ERROR": 8}


def records_from_tlc(out):
    recs = []
    for line in out.splitlines():
        if line.startswith('"{') and line.endswith('}"'):
            recs.append(json.loads(json.loads(line)))
    return recs


def hx(b):
    return bytes(b).hex() or "-"


def off32(limbs):
    return "%08x" % (limbs[0] | (limbs[1] << 16))


def job_line(r):
    j, res = r["job"], r["res"]
    k = j["kind"]
    if k in ("S", "O"):
        return "%s %s %d %s %s %s %d" % (k, j["arch"], int(j["enc"]), off32(j["off"]), hx(res["data"]), hx(res["expect"]), res["n1"])
    if k == "I":
        return "I %s %d %s %d" % (j["arch"], int(j["enc"]), off32(j["off"]), RET[res["ret"]])
    if k == "D":
        return "D %d %d %s %s" % (j["dist"], int(j["enc"]), hx(res["data"]), hx(res["expect"]))
    if k == "R":
        parts = ["R", j["arch"], str(int(j["enc"])), str(len(res["subs"]))]
        for sb in res["subs"]:
            parts += [off32(sb["off"]), str(sb["dist"]), hx(sb["data"]), str(sb["feed"]), hx(sb["expect"])]
        return " ".join(parts)
    if k == "J":
        return "J %d %d %d" % (j["type"], j["dist"], RET[res["ret"]])
    raise MachineryError("unknown job kind %r" % k)


def plan_line(p):
    parts = ["P", p["arch"], str(int(p["enc"])), off32(p["off"]), hx(p["data"]), str(len(p["calls"]))]
    for c in p["calls"]:
        parts += [str(c["nin"]), str(c["space"]), str(int(c["finish"])), str(c["used"]), str(RET[c["ret"]]), hx(c["out"])]
    return " ".join(parts)


def run_driver(ctx, lines, describe, label):
    """lines: list of driver input lines; describe(i) -> (key suffix, replay object) for line i (0-based)."""
    exe = build.cprog("c15_drv", [os.path.join(CDRV, "c15_drv.c")], "asan")
    e = dict(os.environ); e.pop("LD_PRELOAD", None)
    e["ASAN_OPTIONS"] = "detect_leaks=1:abort_on_error=0"
    e["UBSAN_OPTIONS"] = "halt_on_error=1:print_stacktrace=1"
    r = subprocess.run([exe], input="\n".join(lines) + "\n", stdout=subprocess.PIPE, stderr=subprocess.STDOUT, text=True,
                       env=e, timeout=1500)
    out = r.stdout
    if any(l.startswith("BADLINE") for l in out.splitlines()):
        raise MachineryError("c15 driver could not parse its input: " + out[-500:])
    done = [l for l in out.splitlines() if l.startswith("DONE")]
    if r.returncode != 0 or not done:
        last = [l for l in out.splitlines() if l.startswith("MISMATCH")][-1:]
        ctx.violation("replay:crash:%s" % label, out[-3000:], dict(kind="crash", label=label, last_mismatch=last))
        return None
    seen = set()
    for l in out.splitlines():
        if not l.startswith("MISMATCH"):
            continue
        f = dict(kv.split("=", 1) for kv in l.split()[1:] if "=" in kv)
        i = int(f["line"]) - 1
        suffix, obj = describe(i)
        key = "replay:%s:%s" % (suffix, f["what"])
        if key in seen:
            continue
        seen.add(key)
        ctx.violation(key, l[:1500], dict(kind="case", label=label, case=obj, driver_line=lines[i], mismatch=l[:3000]))
    info = dict(kv.split("=", 1) for kv in done[0].split()[1:])
    info["_mismatch_lines"] = sorted(set(int(dict(kv.split("=", 1) for kv in l.split()[1:] if "=" in kv)["line"])
                                         for l in out.splitlines() if l.startswith("MISMATCH")))
    info["_files"] = [dict(kv.split("=", 1) for kv in l.split()[1:]) for l in out.splitlines() if l.startswith("FILE ")]
    info["drift"] = sum(1 for l in out.splitlines() if l.startswith("DRIFT"))
    ctx.log("driver (%s): %s" % (label, done[0]))
    return info


def changed_fraction(recs, arch, enc):
    rs = [r for r in recs if r["job"]["kind"] == "S" and r["job"]["arch"] == arch and r["job"]["enc"] == enc]
    if not rs:
        return 0.0
    return sum(1 for r in rs if r["res"]["data"] != r["res"]["expect"]) / len(rs)


def find_system_liblzma():
    """A released liblzma that is not built from the tree under test (next to an `xz` on PATH, or the distro's)."""
    import shutil, glob
    cands = []
    x = shutil.which("xz")
    if x:
        cands += glob.glob(os.path.join(os.path.dirname(os.path.dirname(os.path.realpath(x))), "lib", "liblzma.so.5*"))
    cands += glob.glob("/usr/lib/*/liblzma.so.5*") + glob.glob("/usr/lib64/liblzma.so.5*") + glob.glob("/lib/*/liblzma.so.5*")
    for c in cands:
        if os.path.exists(c) and not os.path.realpath(c).startswith(("/verif", "/repo", "/var/tmp")):
            return c
    return None


def system_library_opinion(ctx, lines, recs, r_mismatch_lines):
    lib = find_system_liblzma()
    if not lib:
        ctx.notes.append("no released liblzma found on this system: comparison with another implementation skipped")
        return None
    e = dict(os.environ)
    for k in ("LD_PRELOAD", "ASAN_OPTIONS", "UBSAN_OPTIONS"):
        e.pop(k, None)
    import sys
    r = subprocess.run([sys.executable, os.path.join(HERE, "harness", "pydrv", "c15_syslzma.py"), lib],
                       input="\n".join(lines) + "\n", stdout=subprocess.PIPE, stderr=subprocess.STDOUT, text=True, env=e, timeout=600)
    done = [l for l in r.stdout.splitlines() if l.startswith("SYSDONE")]
    if r.returncode != 0 or not done:
        ctx.notes.append("system liblzma helper failed (%s): %s" % (lib, r.stdout[-300:]))
        return None
    seen = set()
    for l in r.stdout.splitlines():
        if not l.startswith("SYSMISMATCH"):
            continue
        f = dict(kv.split("=", 1) for kv in l.split()[1:])
        ln = int(f["line"])
        if ln in r_mismatch_lines:
            continue            # the tree disagrees with the model on this input as well: reported by the replay
        key = "syslib:%s:%s" % (f["arch"], "encode" if f["enc"] == "1" else "decode")
        if key not in seen:
            seen.add(key)
            ctx.violation(key, "the released %s and the reference transform (which the tree matches) differ: %s" % (lib, l[:800]),
                          dict(kind="syslib", lib=lib, case=recs[ln - 1], mismatch=l[:3000]))
    ctx.log("released library %s: %s" % (lib, done[0]))
    return dict(lib=lib, result=done[0])


TEST_FILES = ["good-1-arm64-lzma2-1.xz", "good-1-arm64-lzma2-2.xz", "good-1-delta-lzma2.tiff.xz", "good-1-3delta-lzma2.xz"]


def validate_files(ctx):
    """(V) payload of test files written by other versions: reference decode of the first filter == checked content."""
    repo = os.environ.get("VERIF_REPO", "/repo")
    paths = [os.path.join(repo, "tests", "files", f) for f in TEST_FILES]
    paths = [p for p in paths if os.path.exists(p)]
    if not paths:
        ctx.notes.append("no filter test files found")
        return
    info = run_driver(ctx, ["F " + p for p in paths], lambda i: ("file:" + os.path.basename(paths[i]), paths[i]), "files")
    if not info or not info["_files"]:
        return
    nd = os.path.join(ctx.workdir, "files.ndjson")
    with open(nd, "w") as f:
        for x in info["_files"]:
            off = int(x["off"], 16)
            f.write(json.dumps(dict(kind=x["kind"], off=[off & 0xFFFF, off >> 16], dist=int(x["dist"]),
                                    e=list(bytes.fromhex(x["e"])), p=list(bytes.fromhex(x["p"])))) + "\n")
    v = tlc.run("VFilterFiles", workers=2, timeout=600, env={"FILES": nd})
    ctx.add_tlc("VFilterFiles(%d files)" % len(info["_files"]), v, exhaustive=True)
    if v.violation:
        # the content is attested by the file's own Check, the payload by the LZMA2 layer: the reference transform is wrong
        raise MachineryError("Bcj.tla/Delta.tla do not decode a test file written by another version:\n" + v.out[-2500:])
    ctx.add_traces(len(info["_files"]))
    ctx.log("VFilterFiles: %d files, reference decode equals the integrity-checked content" % len(info["_files"]))


ARCHS = ["x86", "powerpc", "ia64", "arm", "armthumb", "sparc", "arm64", "riscv"]


def run(ctx):
    # ---------------- (M)
    m = tlc.run("MCBcj", cfg="MCBcj.cfg" if ctx.quick else "MCBcjThorough.cfg", workers=TLC_WORKERS, timeout=1500)
    ctx.add_tlc("MCBcj(8 architectures x 2 directions x 2 offsets x pattern samples; chunk sizes {0,1,3,all}x{0,1,4,all})",
                m, exhaustive=True)
    if m.violation:
        ctx.violation("model:bcj:" + m.violation, m.out[-4000:], dict(kind="tlc_counterexample"))
    ctx.log("MCBcj:", m.summary())
    d = tlc.run("MCDelta", cfg="MCDelta.cfg" if ctx.quick else "MCDeltaThorough.cfg", workers=2 if ctx.quick else TLC_WORKERS, timeout=1200)
    ctx.add_tlc("MCDelta(distances x contents x all chunkings from {0,1,2,5,all})", d, exhaustive=True)
    if d.violation:
        ctx.violation("model:delta:" + d.violation, d.out[-4000:], dict(kind="tlc_counterexample"))
    ctx.log("MCDelta:", d.summary())

    # ---------------- (G) transforms
    cfg = "GenBcj.cfg" if ctx.quick else "GenBcjThorough.cfg"
    g = tlc.run("GenBcj", cfg=cfg, workers=TLC_WORKERS, timeout=1800, env={"SEED": str(ctx.seed)})
    ctx.add_tlc("GenBcj(%s)" % cfg, g, exhaustive=False)
    if g.violation:
        ctx.violation("model:gen:" + g.violation, g.out[-4000:], dict(kind="tlc_counterexample"))
    recs = records_from_tlc(g.out)
    ctx.log("GenBcj:", g.summary(), "jobs:", len(recs))
    if len(recs) < 500:
        raise MachineryError("GenBcj emitted only %d jobs\n%s" % (len(recs), g.out[-2000:]))
    for a in ARCHS:
        for e in (True, False):
            fr = changed_fraction(recs, a, e)
            if fr < 0.25:
                raise MachineryError("inputs for %s (enc=%s) rarely trigger the transform (%.2f): vacuous samples" % (a, e, fr))
    lines = [job_line(r) for r in recs]

    def describe(i):
        j = recs[i]["job"]
        if j["kind"] in ("D", "J") or j.get("arch") == "delta":
            return "delta", recs[i]
        return j["arch"], recs[i]
    info1 = run_driver(ctx, lines, describe, "transforms")
    sysinfo = system_library_opinion(ctx, lines, recs, set(info1["_mismatch_lines"]) if info1 else set())
    for r in recs:
        ctx.case(key=json.dumps(r["job"], sort_keys=True), nontrivial=r["job"]["kind"] in ("S", "O", "D", "R"))
    ctx.add_traces(len(recs))
    pick = [r for r in recs if r["job"]["kind"] == "S" and r["job"]["arch"] == "x86" and "pair" in r["job"] and r["job"]["pair"][0] == 2]
    if pick:
        ctx.sample(dict(kind="transform_job", record=pick[0], driver_line=job_line(pick[0])))
    pick = [r for r in recs if r["job"]["kind"] == "S" and r["job"]["arch"] == "riscv" and r["job"]["enc"]]
    if pick:
        ctx.sample(dict(kind="transform_job", record=pick[0]))

    # ---------------- (G) call plans of the buffering protocol
    nsim = 1000 if ctx.quick else 8000
    s = tlc.run("GenSimple", workers=1, timeout=1200, simulate=nsim, depth=60, seed=ctx.seed, env={"SEED": str(ctx.seed)})
    import re
    mm = re.search(r"The number of states generated: (\d+)", s.out)
    if mm:
        s.states = s.distinct = int(mm.group(1))
    ctx.add_tlc("GenSimple(simulate %d)" % nsim, s, exhaustive=False)
    if s.violation:
        ctx.violation("model:simple:" + s.violation, s.out[-4000:], dict(kind="tlc_counterexample"))
    plans = {}
    for p in records_from_tlc(s.out):
        plans[json.dumps(p, sort_keys=True)] = p
    plans = list(plans.values())
    ctx.log("GenSimple:", s.summary(), "distinct plans:", len(plans))
    if len(plans) < 100:
        raise MachineryError("GenSimple emitted only %d plans\n%s" % (len(plans), s.out[-2000:]))
    plines = [plan_line(p) for p in plans]
    info2 = run_driver(ctx, plines, lambda i: (plans[i]["arch"], plans[i]), "plans")
    for p in plans:
        ctx.case(key=plan_line(p))
    ctx.add_traces(len(plans))
    mid = [p for p in plans if 4 <= len(p["calls"]) <= 8]
    if mid:
        ctx.sample(dict(kind="call_plan", plan=mid[0], driver_line=plan_line(mid[0])))
    # ---------------- (V) files written by other versions
    validate_files(ctx)
    for i in (info1, info2):
        if i:
            i.pop("_mismatch_lines", None); i.pop("_files", None)
    if info2 and info2.get("drift"):
        ctx.notes.append("%d call plans: the real coder consumed/produced different amounts per call than SimpleCoder.tla predicts "
                         "while the bytes were right (allowed by the property; the model of simple_code() has drifted)" % info2["drift"])
    ctx.extra["driver"] = dict(transforms=info1, plans=info2)
    ctx.extra["released_library"] = sysinfo
    ctx.extra["conversion_rate"] = {a: [round(changed_fraction(recs, a, True), 2), round(changed_fraction(recs, a, False), 2)] for a in ARCHS}
    ctx.assumptions += ["the file format delegates the BCJ algorithms to the reference implementation: Bcj.tla restates them (pinned at "
                        "xz 5.8.1) and is the oracle for stability; inputs are sampled from opcode-pattern classes, not exhausted",
                        "the lone filter is followed by a pass-through coder (chain terminator or copy coder); other next coders are "
                        "covered through the public [filter, LZMA2] chains only via the one-shot buffer API"]
    return ctx.finish(rule="evaluations = TLC jobs (transform samples, one-shot, init validation, delta) each replayed under ~2x(n+10) "
                      "slicings + TLC-simulated call plans replayed call by call; distinct by job / plan text",
                      trusted=["TLC", "gcc ASan/UBSan", "C driver c15_drv.c", "LZMA2 coder of liblzma for the public-chain observation"])
