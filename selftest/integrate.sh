#!/bin/sh
# usage: selftest/integrate.sh CNN  -> runs the quick check on two seeds and every committed mutant; prints a summary
P=$1
for s in 1 2; do
  t0=$(date +%s); VERIF_SEED=$s ./check $P --tier quick > /var/tmp/integ_$P.$s.log 2>&1; rc=$?; t1=$(date +%s)
  echo "seed=$s rc=$rc wall=$((t1-t0))s viol=$(grep -c '^VIOLATION' /var/tmp/integ_$P.$s.log) known=$(grep -c '^KNOWN-FINDING' /var/tmp/integ_$P.$s.log)"
  [ $rc -ne 0 ] && tail -5 /var/tmp/integ_$P.$s.log | cut -c1-400
done
[ -d selftest/mutants/$P ] && selftest/run_mutants.sh $P
