#!/bin/sh
# usage: with_mutant.sh <patch.diff | -e 'sed-expr' file> -- <command...>
# Applies a change to a scratch worktree of /repo (outside /repo and /verif), runs the command with
# VERIF_REPO/VERIF_BUILD pointing at it, removes the worktree and its build output.
set -u
W=$(mktemp -d /var/tmp/xzmut.XXXXXX)
git -C /repo worktree add --detach -f "$W/repo" HEAD >/dev/null 2>&1 || { echo "worktree failed"; exit 9; }
if [ "$1" = "-e" ]; then
    sed -i "$2" "$W/repo/$3" || exit 9; shift 3
else
    P=$(readlink -f "$1")
    git -C "$W/repo" apply "$P" || { echo "patch failed"; git -C /repo worktree remove --force "$W/repo"; rm -rf "$W"; exit 9; }; shift
fi
[ "$1" = "--" ] && shift
git -C "$W/repo" diff --stat | tail -1
VERIF_REPO="$W/repo" VERIF_BUILD="$W/build" VERIF_EVIDENCE_DIR="$W/evidence" VERIF_REPLAY_DIR="${VERIF_REPLAY_DIR:-/verif/replays}" "$@"
rc=$?
git -C /repo worktree remove --force "$W/repo"; rm -rf "$W"
exit $rc
