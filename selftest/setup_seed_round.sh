#!/bin/sh
# usage: selftest/setup_seed_round.sh CNN ROUND   -> /var/tmp/seed<ROUND>_CNN/{repo,property.txt,out,already.txt}
P=$1; R=$2; D=/var/tmp/seed${R}_$P
mkdir -p $D/out
git -C /repo worktree add --detach -f $D/repo HEAD >/dev/null 2>&1
python3 - "$P" "$D" <<'PY'
import json, sys, glob
P, D = sys.argv[1], sys.argv[2]
for l in open('/verif/properties.jsonl'):
    p = json.loads(l)
    if p['id'] == P:
        open(D + '/property.txt', 'w').write("%s: %s\n\n%s\n\nQuantifier: %s\n" % (P, p['title'], p['statement'], p['quantifier']['text']))
        anchors = p.get('anchors', {}).get('files', [])
        open(D + '/anchors.txt', 'w').write(", ".join(anchors))
already = []
for m in sorted(glob.glob('/verif/seeded/%s-*/meta.json' % P)):
    try: already.append(json.load(open(m)).get('summary', '')[:260].replace("\n", " "))
    except Exception: pass
open(D + '/already.txt', 'w').write("\n".join("(%s) %s" % (chr(97 + i), a) for i, a in enumerate(already)))
PY
echo $D; cat $D/anchors.txt; echo; wc -c $D/already.txt
