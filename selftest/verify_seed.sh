#!/bin/sh
# usage: selftest/verify_seed.sh <dir with patch.diff + demo.c|demo.sh>
# Confirms independently: HEAD builds + 19 tests pass + demo passes; with the patch: builds + tests pass + demo fails.
D=$(readlink -f "$1")
W=$(mktemp -d /var/tmp/xzseed.XXXXXX)
git -C /repo worktree add --detach -f "$W/repo" HEAD >/dev/null 2>&1 || exit 9
R="$W/repo"
build() { cmake -G Ninja -S "$R" -B "$R/_b" -DCMAKE_BUILD_TYPE=RelWithDebInfo >/dev/null 2>&1 && cmake --build "$R/_b" >/dev/null 2>&1; }
tests() { ctest --test-dir "$R/_b" -j8 --timeout 900 2>&1 | grep -E 'tests passed|tests failed' ; }
demo() {
  if [ -f "$D/demo.c" ]; then
    cc -O1 -I"$R/src/liblzma/api" "$D"/demo.c "$R/_b/liblzma.a" -lpthread -o "$W/demo" 2>&1 | tail -3 || return 99
    (cd "$W" && timeout 300 ./demo >"$W/demo.out" 2>&1); rc=$?
  elif [ -f "$D/demo.sh" ]; then
    # demo scripts take the worktree, the build directory or the xz binary as their argument: use the first form
    # that works on HEAD for the patched run too
    if [ -z "$DEMOARG" ]; then
      for a in "$R/_b" "$R" "$R/_b/xz"; do
        (cd "$W" && WORKTREE="$R" BUILD="$R/_b" timeout 300 sh "$D/demo.sh" "$a" >"$W/demo.out" 2>&1); rc=$?
        if [ $rc = 0 ]; then DEMOARG=$a; break; fi
      done
    else
      (cd "$W" && WORKTREE="$R" BUILD="$R/_b" timeout 900 sh "$D/demo.sh" "$DEMOARG" >"$W/demo.out" 2>&1); rc=$?
    fi
  else echo "no demo"; rc=98; fi
  tail -2 "$W/demo.out" | cut -c1-200; return $rc
}
build || { echo "HEAD build failed"; }
echo "HEAD: $(tests)"; demo; echo "HEAD demo rc=$?"
git -C "$R" apply "$D/patch.diff" || { echo "patch does not apply"; }
git -C "$R" diff --stat | tail -1
build || echo "PATCHED build failed"
echo "PATCHED: $(tests)"; demo; echo "PATCHED demo rc=$?"
git -C /repo worktree remove --force "$R"; rm -rf "$W"
