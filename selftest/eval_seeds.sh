#!/bin/sh
# usage: selftest/eval_seeds.sh CNN [srcdir [tag]]
#   default srcdir /var/tmp/seed_CNN/out (expects {1,2,3}); with tag the copies are seeded/CNN-<tag>-n
P=$1; SRC=${2:-/var/tmp/seed_$P/out}; TAG=${3:+$3-}
for n in 1 2 3; do
  S=$SRC/$n; [ -f $S/patch.diff ] || continue
  T=seeded/$P-$TAG$n
  mkdir -p $T; cp -r $S/* $T/
  echo "=== $T verify"; selftest/verify_seed.sh $T 2>&1 | grep -E 'HEAD:|PATCHED:|demo rc|failed|not apply' | cut -c1-160
  echo "=== $T check"; selftest/with_mutant.sh $T/patch.diff -- ./check $P --tier quick 2>&1 | grep -E 'violation:|^VIOLATION|done:|MACHINERY|BUILD-ERROR' | cut -c1-220 | sort | uniq -c | sort -rn | head -4
done
