#!/bin/sh
# usage: selftest/eval_seeds.sh CNN  (expects /var/tmp/seed_CNN/out/{1,2,3})
P=$1
for n in 1 2 3; do
  S=/var/tmp/seed_$P/out/$n; [ -f $S/patch.diff ] || continue
  mkdir -p seeded/$P-$n; cp -r $S/* seeded/$P-$n/
  echo "=== $P-$n verify"; selftest/verify_seed.sh seeded/$P-$n 2>&1 | grep -E 'HEAD:|PATCHED:|demo rc|failed|not apply' | cut -c1-160
  echo "=== $P-$n check"; selftest/with_mutant.sh seeded/$P-$n/patch.diff -- ./check $P --tier quick 2>&1 | grep -E 'violation:|^VIOLATION|done:|MACHINERY|BUILD-ERROR' | cut -c1-220 | sort | uniq -c | sort -rn | head -4
done
