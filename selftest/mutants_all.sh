#!/bin/sh
# usage: selftest/mutants_all.sh [parallel] -> selftest/MUTANTS.tsv (property, mutant, result, violations, first key)
J=${1:-4}
cd /verif
ls selftest/mutants/C*/*.diff | while read f; do echo "$(echo $f | cut -d/ -f3) $f"; done > /var/tmp/mut_jobs.txt
: > /var/tmp/MUTANTS.tmp
xargs -P "$J" -L 1 sh -c '
  P=$0; f=$1
  out=$(selftest/with_mutant.sh $f -- ./check $P --tier quick 2>&1)
  n=$(echo "$out" | grep -c "^VIOLATION")
  if echo "$out" | grep -q "patch failed"; then r=NOAPPLY; elif [ "$n" -gt 0 ]; then r=CAUGHT; else r=MISSED; fi
  k=$(echo "$out" | grep -m1 "violation:" | sed "s/.*violation: //" | cut -d" " -f1 | cut -c1-90)
  printf "%s\t%s\t%s\t%s\t%s\n" "$P" "$(basename $f .diff)" "$r" "$n" "$k" >> /var/tmp/MUTANTS.tmp
' < /var/tmp/mut_jobs.txt
sort /var/tmp/MUTANTS.tmp > selftest/MUTANTS.tsv
cut -f3 selftest/MUTANTS.tsv | sort | uniq -c; grep -v CAUGHT selftest/MUTANTS.tsv
