#!/bin/sh
# re-run the check against every seeded defect of a property: selftest/seed_status.sh CNN
P=$1
for d in seeded/$P-*; do
  out=$(selftest/with_mutant.sh $d/patch.diff -- ./check $P --tier quick 2>&1)
  if echo "$out" | grep -q '^VIOLATION'; then echo "CAUGHT $(basename $d) ($(echo "$out" | grep -c '^VIOLATION') violations; first key: $(echo "$out" | grep -m1 'violation:' | sed 's/.*violation: //' | cut -c1-80))"; else echo "MISSED $(basename $d): $(echo "$out" | tail -1 | cut -c1-160)"; fi
done
