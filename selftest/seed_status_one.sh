#!/bin/sh
# usage: selftest/seed_status_one.sh <seed dir name> <CNN> [seed]  -> replaces that line of seeded/STATUS.tsv
cd /verif
d=$1; P=$2; S=${3:-1}
if ! git -C /repo apply --check /verif/seeded/$d/patch.diff 2>/dev/null; then r=NOAPPLY; n=0; k="patch no longer applies to /repo HEAD"
else
  out=$(selftest/with_mutant.sh seeded/$d/patch.diff -- ./check $P --tier quick --seed $S 2>&1)
  n=$(echo "$out" | grep -c "^VIOLATION")
  if [ "$n" -gt 0 ]; then r=CAUGHT; else r=MISSED; fi
  k=$(echo "$out" | grep -m1 "violation:" | sed "s/.*violation: //" | cut -d" " -f1 | cut -c1-90)
fi
grep -v "^$d	$P	" seeded/STATUS.tsv > /var/tmp/STATUS.one.$$; printf '%s\t%s\t%s\t%s\t%s\n' "$d" "$P" "$r" "$n" "$k" >> /var/tmp/STATUS.one.$$
sort /var/tmp/STATUS.one.$$ > seeded/STATUS.tsv; rm -f /var/tmp/STATUS.one.$$
grep "^$d	$P	" seeded/STATUS.tsv
