#!/usr/bin/env python3
"""Reads seeded/STATUS.tsv (selftest/seed_status_all.sh), writes the result into every seeded/*/meta.json
(field lead_result) and replaces the table between the SEEDS markers of DESIGN.md."""
import json, os, re, collections
HERE = os.path.dirname(os.path.dirname(os.path.abspath(__file__)))
rows = collections.defaultdict(list)
for line in open(os.path.join(HERE, "seeded", "STATUS.tsv")):
    f = line.rstrip("\n").split("\t")
    if len(f) >= 5:
        rows[f[0]].append(dict(check=f[1], result=f[2], violations=int(f[3]), first_key=f[4]))
out = ["| seeded change | what it breaks (author's summary, shortened) | judged by | result | first violation key |", "|---|---|---|---|---|"]
tot = caught = 0
for d in sorted(rows):
    mp = os.path.join(HERE, "seeded", d, "meta.json")
    meta = json.load(open(mp)) if os.path.exists(mp) else {}
    meta["lead_result"] = rows[d]
    meta["lead_ran"] = "selftest/verify_seed.sh seeded/%s (HEAD: 19/19 tests + demo passes; patched: 19/19 tests + demo fails), then selftest/with_mutant.sh seeded/%s/patch.diff -- ./check <property> --tier quick in a scratch worktree of /repo" % (d, d)
    json.dump(meta, open(mp, "w"), indent=1)
    summ = re.sub(r"\s+", " ", str(meta.get("summary", "")))[:150].replace("|", "/")
    for r in rows[d]:
        tot += 1; caught += r["result"] == "CAUGHT"
        out.append("| `%s` | %s | %s | %s (%d) | `%s` |" % (d, summ, r["check"], r["result"], r["violations"], r["first_key"][:70]))
out.append("")
out.append("%d judgements, %d CAUGHT." % (tot, caught))
p = os.path.join(HERE, "DESIGN.md"); s = open(p).read()
a, b = "<!-- SEEDS-BEGIN -->", "<!-- SEEDS-END -->"
assert a in s and b in s
s = s[:s.index(a) + len(a)] + "\n" + "\n".join(out) + "\n" + s[s.index(b):]
open(p, "w").write(s)
print("%d judgements, %d caught" % (tot, caught))
