#!/usr/bin/env python3
"""Replaces the table between the MUTANTS markers of DESIGN.md with selftest/MUTANTS.tsv (selftest/mutants_all.sh)."""
import os, collections
HERE = os.path.dirname(os.path.dirname(os.path.abspath(__file__)))
per = collections.defaultdict(list)
for line in open(os.path.join(HERE, "selftest", "MUTANTS.tsv")):
    f = line.rstrip("\n").split("\t")
    if len(f) >= 5:
        per[f[0]].append(f)
out = ["| check | mutants | caught | not caught | examples (mutant → first violation key) |", "|---|---|---|---|---|"]
tot = c = 0
for p in sorted(per):
    rows = per[p]; ok = [r for r in rows if r[2] == "CAUGHT"]; bad = [r for r in rows if r[2] != "CAUGHT"]
    tot += len(rows); c += len(ok)
    ex = "; ".join("`%s` → `%s`" % (r[1], r[4][:48]) for r in ok[:3])
    out.append("| %s | %d | %d | %s | %s |" % (p, len(rows), len(ok), ", ".join("`%s` (%s)" % (r[1], r[2]) for r in bad) or "–", ex))
out += ["", "%d mutants, %d caught by the quick tier (full list: `selftest/MUTANTS.tsv`)." % (tot, c)]
p = os.path.join(HERE, "DESIGN.md"); s = open(p).read()
a, b = "<!-- MUTANTS-BEGIN -->", "<!-- MUTANTS-END -->"
assert a in s and b in s
s = s[:s.index(a) + len(a)] + "\n" + "\n".join(out) + "\n" + s[s.index(b):]
open(p, "w").write(s)
print(tot, c)
