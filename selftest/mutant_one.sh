#!/bin/sh
# usage: selftest/mutant_one.sh CNN mutant-name [seed] -> replaces that line of selftest/MUTANTS.tsv
cd /verif
P=$1; M=$2; S=${3:-1}; f=selftest/mutants/$P/$M.diff
out=$(selftest/with_mutant.sh $f -- ./check $P --tier quick --seed $S 2>&1)
n=$(echo "$out" | grep -c "^VIOLATION")
if echo "$out" | grep -q "patch failed"; then r=NOAPPLY; elif [ "$n" -gt 0 ]; then r=CAUGHT; else r=MISSED; fi
k=$(echo "$out" | grep -m1 "violation:" | sed "s/.*violation: //" | cut -d" " -f1 | cut -c1-90)
( flock 9; grep -v "^$P	$M	" selftest/MUTANTS.tsv > /var/tmp/MUT.one.$$; printf '%s\t%s\t%s\t%s\t%s\n' "$P" "$M" "$r" "$n" "$k" >> /var/tmp/MUT.one.$$; sort /var/tmp/MUT.one.$$ > selftest/MUTANTS.tsv; rm -f /var/tmp/MUT.one.$$ ) 9>/var/tmp/mut.lock
echo "$P $M $r $n $k $(echo "$out" | grep -E "MACHINERY|BUILD-ERROR" | head -1 | cut -c1-150)"
