#!/bin/sh
# usage: selftest/seed_status_all.sh [parallel]  -> seeded/STATUS.tsv (seed, check, result, violations, first key)
# Every seeded change is applied to a scratch worktree of /repo and judged by the quick tier of its property's check;
# seeds listed in seeded/ALSO (lines "seed CNN") are judged by that other check too.
J=${1:-4}
cd /verif
{ for d in $(ls seeded | grep -E '^C[0-9][0-9]-'); do echo "$d $(echo $d | cut -c1-3)"; done; [ -f seeded/ALSO ] && cat seeded/ALSO; } > /var/tmp/seed_jobs.txt
: > /var/tmp/STATUS.tmp
xargs -P "$J" -L 1 sh -c '
  d=$0; P=$1
  out=$(selftest/with_mutant.sh seeded/$d/patch.diff -- ./check $P --tier quick 2>&1)
  n=$(echo "$out" | grep -c "^VIOLATION")
  if [ "$n" -gt 0 ]; then r=CAUGHT; else r=MISSED; fi
  k=$(echo "$out" | grep -m1 "violation:" | sed "s/.*violation: //" | cut -d" " -f1 | cut -c1-90)
  printf "%s\t%s\t%s\t%s\t%s\n" "$d" "$P" "$r" "$n" "$k" >> /var/tmp/STATUS.tmp
' < /var/tmp/seed_jobs.txt
sort /var/tmp/STATUS.tmp > seeded/STATUS.tsv
grep -c CAUGHT seeded/STATUS.tsv; grep MISSED seeded/STATUS.tsv
