#!/bin/sh
# usage: selftest/run_mutants.sh CNN [tier]   -> one line per mutant: CAUGHT / MISSED
P=$1; T=${2:-quick}
for d in selftest/mutants/$P/*.diff; do
  out=$(selftest/with_mutant.sh "$d" -- ./check $P --tier $T 2>&1)
  if echo "$out" | grep -q '^VIOLATION'; then k=$(ls -t replays/$P-* 2>/dev/null | head -1); echo "CAUGHT $(basename $d) $(echo "$out" | grep -c '^VIOLATION') violations"; 
  else echo "MISSED $(basename $d): $(echo "$out" | tail -2 | tr '\n' ' ' | cut -c1-300)"; fi
done
