"""Batched trace validation: many recorded executions (each starting with a Reset-like event) are
concatenated into one ndjson file and validated by one TLC run.  On rejection the offending execution is
identified from the search depth (longest matched prefix), reported, removed, and the rest re-validated."""
import json, os
from . import tlc
from .ctx import MachineryError

import re
def _maxl(r):
    """Longest matched prefix reported by a trace spec with silent steps: <<"MAXL", l>> (l = next line, 1-based)."""
    m = re.search(r'<<"MAXL", (\d+)>>', r.out)
    if not m:
        raise MachineryError("trace spec did not report MAXL:\n" + r.out[-2000:])
    return int(m.group(1))

def validate(ctx, module, histories, keyfn, cfg=None, max_rounds=6, timeout=900, deque=False, name=None, env=None,
             prelude=None, maxl=False):
    """histories: list of (label, [events]).  keyfn(label, event, idx) -> finding key.
    prelude: events prepended to every file (e.g. a Config line).
    Returns number of rejected histories."""
    name = name or module
    rejected = 0
    hs = list(histories)
    rounds = 0
    while hs and rounds < max_rounds:
        rounds += 1
        events = list(prelude or [])
        starts = []
        for label, evs in hs:
            starts.append(len(events))
            events.extend(evs)
        path = os.path.join(ctx.workdir, "%s.%d.ndjson" % (name, rounds))
        with open(path, "w") as f:
            for ev in events:
                f.write(json.dumps(ev) + "\n")
        ok, depth, r = tlc.validate_trace(module, path, cfg=cfg, timeout=timeout, deque=deque, env=env)
        ctx.add_tlc("%s#%d" % (name, rounds), r)
        if r.timeout:
            raise MachineryError("trace validation %s timed out" % name)
        if ok:
            ctx.add_traces(len(hs))
            break
        if maxl:
            depth = _maxl(r)
        bad = min(max(depth - 1, 0), len(events) - 1)
        hi = max(i for i, st in enumerate(starts) if st <= bad) if starts and bad >= starts[0] else 0
        st = starts[hi]
        label, evs = hs[hi]
        idx = bad - st
        e = evs[idx] if 0 <= idx < len(evs) else {}
        # confirm on its own (a rejection is reported only if it repeats in isolation)
        p1 = os.path.join(ctx.workdir, "%s.single.ndjson" % name)
        with open(p1, "w") as f:
            for ev in list(prelude or []) + evs:
                f.write(json.dumps(ev) + "\n")
        ok1, depth1, r1 = tlc.validate_trace(module, p1, cfg=cfg, timeout=timeout, deque=deque, env=env)
        if r1.error:
            raise MachineryError(r1.error)
        if maxl and not ok1:
            depth1 = _maxl(r1)
        if not ok1:
            rejected += 1
            idx1 = min(max(depth1 - 1 - len(prelude or []), 0), len(evs) - 1)
            e = evs[idx1]
            ctx.violation(keyfn(label, e, idx1),
                          "recorded execution is not a behaviour of %s: rejected at event %d: %s" % (module, idx1, json.dumps(e)[:1500]),
                          dict(kind="trace", module=module, label=label, rejected_at=idx1, events=evs[:idx1 + 3]))
        else:
            raise MachineryError("trace %s rejected in batch but accepted alone (batching artefact) label=%s" % (name, label))
        ctx.add_traces(hi)
        hs = hs[hi + 1:]
    return rejected
