"""Thin wrapper around TLC: run under timeout, private metadir, parse statistics and coverage."""
import os, re, subprocess, tempfile, shutil, time, json

VERIF = os.path.dirname(os.path.dirname(os.path.abspath(__file__)))
SPEC = os.path.join(VERIF, "spec")
JAR = "/opt/veriftools/tla/tla2tools.jar"
CM = None

def _classpath():
    global CM
    if CM is None:
        # the `tlc` wrapper on PATH knows the CommunityModules jar; recover it
        cp = [JAR]
        d = os.path.dirname(JAR)
        for fn in sorted(os.listdir(d)):
            if fn.endswith(".jar") and fn != os.path.basename(JAR):
                cp.append(os.path.join(d, fn))
        CM = ":".join(cp)
    return CM

class TlcResult:
    def __init__(self):
        self.rc = None; self.out = ""; self.states = 0; self.distinct = 0; self.depth = 0
        self.violation = None   # name of violated invariant/property, or "deadlock"
        self.error = None       # spec/evaluation error text (machinery failure)
        self.coverage = {}      # action -> (taken, generated)
        self.wall = 0.0
        self.timeout = False
        self.post_ok = None
    def ok(self):
        return self.rc == 0 and not self.violation and not self.error
    def summary(self):
        return dict(rc=self.rc, generated=self.states, distinct=self.distinct, depth=self.depth,
                    violation=self.violation, error=self.error, wall_s=round(self.wall, 2), timeout=self.timeout)

def run(module, cfg=None, workers=8, timeout=600, simulate=None, depth=None, seed=None, env=None,
        coverage=False, deque=False, xmx="8g", cwd=None, extra=(), deadlock=None, dump=None):
    """module: file name inside spec/ (or absolute). cfg: cfg file (same dir). Returns TlcResult."""
    cwd = cwd or SPEC
    mod = module if module.endswith(".tla") else module + ".tla"
    cfg = cfg or (os.path.splitext(mod)[0] + ".cfg")
    meta = tempfile.mkdtemp(prefix="tlcmeta.", dir=os.environ.get("VERIF_TMP", "/var/tmp"))
    jopts = ["-XX:+UseParallelGC", "-Xmx" + xmx, "-Xss16m"]
    if deque:
        jopts.append("-Dtlc2.tool.queue.IStateQueue=StateDeque")
    cmd = ["timeout", "-k", "5", str(timeout), "java"] + jopts + ["-cp", _classpath(), "tlc2.TLC",
           "-workers", str(workers), "-metadir", meta, "-config", cfg, "-noGenerateSpecTE"]
    if simulate:
        cmd += ["-simulate", "num=%d" % simulate]
        if depth:
            cmd += ["-depth", str(depth)]
    if seed is not None:
        cmd += ["-seed", str(seed)]
    if coverage:
        cmd += ["-coverage", "1"]
    if deadlock is True:
        pass
    elif deadlock is False:
        cmd += ["-deadlock"]
    if dump:
        cmd += ["-dump", "dot,actionlabels", dump]
    cmd += list(extra) + [mod]
    e = dict(os.environ)
    e.pop("JAVA_TOOL_OPTIONS", None)
    if env:
        e.update(env)
    r = TlcResult()
    t = time.time()
    p = subprocess.run(cmd, cwd=cwd, env=e, stdout=subprocess.PIPE, stderr=subprocess.STDOUT, text=True, errors="replace")
    r.wall = time.time() - t
    shutil.rmtree(meta, ignore_errors=True)
    r.rc = p.returncode
    r.out = p.stdout
    if p.returncode in (124, 137):
        r.timeout = True
    parse(r)
    return r

def parse(r):
    out = r.out
    m = None
    for m in re.finditer(r"(\d+) states generated, (\d+) distinct states found", out):
        pass
    if m:
        r.states = int(m.group(1)); r.distinct = int(m.group(2))
    if not r.states:
        # -simulate mode: "Progress: N states checked, M traces generated" / "The number of states generated: N"
        ms = None
        for ms in re.finditer(r"(?:Progress: |The number of states generated: )(\d+)", out):
            pass
        if ms:
            r.states = int(ms.group(1)); r.distinct = r.distinct or 0
    m = re.search(r"The depth of the complete state graph search is (\d+)", out)
    if m:
        r.depth = int(m.group(1))
    m = re.search(r"Invariant (\S+) is violated", out)
    if m:
        r.violation = m.group(1)
    if "Deadlock reached" in out:
        r.violation = "deadlock"
    m = re.search(r"Temporal properties were violated", out)
    if m:
        r.violation = "temporal"
        r.error = None
    m = re.search(r"Action property (\S+) is violated", out)
    if m:
        r.violation = m.group(1)
    if re.search(r"Error: Postcondition .* is false", out):
        r.post_ok = False
        r.violation = r.violation or "postcondition"
    m = re.search(r"Error: (?!The behavior up to|Invariant|Deadlock|Temporal|Action property|Postcondition|The following behavior constitutes)(.*)", out)
    if m and not r.violation:
        r.error = m.group(1).strip()[:500]
    if "Parsing or semantic analysis failed" in out or "Fatal error" in out:
        r.error = (r.error or "") + " parse failure"
    if r.rc not in (0,) and not r.violation and not r.error and not r.timeout:
        r.error = "tlc exit code %s" % r.rc
    # coverage lines: <Action line ..>: taken:generated
    for m in re.finditer(r"^<(\w+) line \d+, col \d+ to line \d+, col \d+ of module (\w+)>: (\d+):(\d+)", out, re.M):
        a = m.group(1)
        tk, gn = int(m.group(3)), int(m.group(4))
        old = r.coverage.get(a, (0, 0))
        r.coverage[a] = (old[0] + tk, old[1] + gn)

def trace_states(out):
    """Parse a TLC counterexample into a list of dict var->string."""
    states = []
    cur = None
    for line in out.splitlines():
        m = re.match(r"State (\d+): (.*)", line)
        if m:
            cur = {"_action": m.group(2)}
            states.append(cur)
            continue
        if cur is not None:
            m = re.match(r"/\\ (\w+) = (.*)", line)
            if m:
                cur[m.group(1)] = m.group(2)
                last = m.group(1)
            elif line.strip() == "":
                cur = None
            elif 'last' in dir() and cur is not None and line.startswith(" "):
                cur[last] += " " + line.strip()
    return states

def sany(module, cwd=None):
    p = subprocess.run(["tla-sany", module], cwd=cwd or SPEC, stdout=subprocess.PIPE, stderr=subprocess.STDOUT, text=True)
    ok = p.returncode == 0 and "error" not in p.stdout.lower().replace("errors: 0", "")
    return ok, p.stdout

def validate_trace(trace_module, trace_file, cfg=None, timeout=300, deque=False, env=None, xmx="4g"):
    """Trace validation run: single worker, TRACE env var, deadlock off. Returns (accepted, depth, result)."""
    e = {"TRACE": trace_file}
    if env:
        e.update(env)
    r = run(trace_module, cfg=cfg, workers=1, timeout=timeout, env=e, deque=deque, xmx=xmx, deadlock=False)
    accepted = (r.rc == 0 and not r.violation and not r.error)
    return accepted, r.depth, r
