"""Per-run context: evidence accounting, violation reporting, known findings."""
import json, os, sys, time, fnmatch, hashlib, random

VERIF = os.path.dirname(os.path.dirname(os.path.abspath(__file__)))

class MachineryError(Exception):
    """The checking machinery itself failed (spec error, build error of a driver...). Never a VIOLATION."""

class Ctx:
    def __init__(self, pid, tier, seed, replay=None):
        self.pid = pid; self.tier = tier; self.seed = seed; self.replay = replay
        self.t0 = time.time()
        self.states = 0; self.transitions = 0; self.traces = 0
        self.evaluations = 0; self.nontrivial = set(); self.nontrivial_n = 0
        self.samples = []; self.violations = []; self.known_hits = []
        self.tlc_runs = []; self.notes = []; self.assumptions = []
        self.exhaustive = []
        self.vacuous = []
        self.rng = random.Random(seed)
        self.extra = {}
        self.workdir = os.path.join(os.environ.get("VERIF_TMP", "/var/tmp"), "xzverif.%s.%d" % (pid, os.getpid()))
        os.makedirs(self.workdir, exist_ok=True)
        self.replaydir = os.environ.get("VERIF_REPLAY_DIR", os.path.join(VERIF, "replays"))
        self.evidencedir = os.environ.get("VERIF_EVIDENCE_DIR", os.path.join(VERIF, "evidence"))
        fp = os.path.join(VERIF, "known_findings.json")
        self.findings = json.load(open(fp)).get("findings", []) if os.path.exists(fp) else []

    @property
    def quick(self):
        return self.tier == "quick"

    def log(self, *a):
        print("[%s %6.1fs]" % (self.pid, time.time() - self.t0), *a, flush=True)

    # ---- evidence accounting
    def add_tlc(self, name, r, exhaustive=None, expect_violation=False):
        """Record a TLC model-checking run. Raises MachineryError on spec errors."""
        self.tlc_runs.append(dict(name=name, **r.summary()))
        self.states += r.distinct
        self.transitions += r.states
        if exhaustive is not None:
            self.exhaustive.append((name, bool(exhaustive and not r.timeout)))
        if r.error:
            raise MachineryError("TLC run %s failed: %s\n%s" % (name, r.error, r.out[-3000:]))
        if r.timeout:
            self.notes.append("TLC run %s hit its time limit (partial exploration)" % name)
        zero = [a for a, (tk, gn) in r.coverage.items() if tk == 0 and gn == 0]
        if zero:
            self.vacuous.append({name: zero})

    def add_traces(self, n=1):
        self.traces += n

    def case(self, key=None, nontrivial=True):
        """Count one executed case; `key` makes it distinct."""
        self.evaluations += 1
        if nontrivial:
            if key is None:
                self.nontrivial_n += 1
            else:
                self.nontrivial.add(hashlib.md5(repr(key).encode()).digest()[:8])

    def sample(self, obj, limit=6):
        if len(self.samples) < limit:
            self.samples.append(obj)

    # ---- violations
    def violation(self, key, detail, replay_obj=None):
        """key: short stable string identifying *what* fails (matched against known_findings.json)."""
        for f in self.findings:
            if f.get("property") == self.pid and f.get("status", "known") == "known" and fnmatch.fnmatch(key, f["key"]):
                if f["key"] not in [k["key"] for k in self.known_hits]:
                    self.known_hits.append(f)
                return False
        os.makedirs(self.replaydir, exist_ok=True)
        n = len(self.violations)
        tag = hashlib.md5((key + str(detail)).encode()).hexdigest()[:8]
        path = os.path.join(self.replaydir, "%s-%s-%d-%s.json" % (self.pid, self.tier, n, tag))
        with open(path, "w") as f:
            json.dump(dict(property=self.pid, key=key, detail=detail, replay=replay_obj, seed=self.seed), f, indent=1, default=str)
        self.violations.append(dict(key=key, detail=str(detail)[:2000], replay=path))
        self.log("violation:", key, str(detail)[:600])
        return True

    def finish(self, level="model_checking", rule="", trusted=None):
        import shutil
        wall = time.time() - self.t0
        cov = dict(states=int(self.states), transitions=int(self.transitions),
                   traces_validated_against_impl=int(self.traces),
                   samples=self.samples or ["(none)"],
                   evaluations=int(self.evaluations),
                   distinct_nontrivial=int(len(self.nontrivial) + self.nontrivial_n),
                   rule=rule, tlc_runs=self.tlc_runs,
                   exhaustive=bool(self.exhaustive) and all(x for _, x in self.exhaustive),
                   exhaustive_runs=[dict(run=n, exhaustive=x) for n, x in self.exhaustive],
                   vacuous_actions=self.vacuous, notes=self.notes,
                   known_findings_hit=[f["key"] for f in self.known_hits])
        if trusted:
            cov["trusted_base"] = trusted
        cov.update(self.extra)
        ev = dict(property_id=self.pid, tier=self.tier, seed=int(self.seed), level=level, coverage=cov,
                  assumptions=self.assumptions, wall_s=round(wall, 2), violations=len(self.violations))
        os.makedirs(self.evidencedir, exist_ok=True)
        tmp = os.path.join(self.evidencedir, ".%s.json.tmp" % self.pid)
        with open(tmp, "w") as f:
            json.dump(ev, f, indent=1, default=str)
        os.replace(tmp, os.path.join(self.evidencedir, "%s.json" % self.pid))
        shutil.rmtree(self.workdir, ignore_errors=True)
        for f in self.known_hits:
            print("KNOWN-FINDING: property=%s %s" % (self.pid, f.get("what", f["key"])), flush=True)
        for v in self.violations[:20]:
            print("VIOLATION property=%s replay=%s" % (self.pid, v["replay"]), flush=True)
        self.log("done: states=%d transitions=%d traces=%d evaluations=%d violations=%d wall=%.1fs" % (
            self.states, self.transitions, self.traces, self.evaluations, len(self.violations), wall))
        return 1 if self.violations else 0
