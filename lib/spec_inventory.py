#!/usr/bin/env python3
"""Prints a Markdown inventory of spec/: module, lines, first header comment line, configurations, used by checks."""
import glob, os, re
HERE = os.path.dirname(os.path.dirname(os.path.abspath(__file__)))
checks = {os.path.basename(f)[:-3].upper(): open(f).read() for f in glob.glob(os.path.join(HERE, "checks", "c[0-9][0-9]*.py"))}
helpers = "".join(open(f).read() for f in glob.glob(os.path.join(HERE, "harness", "**", "*.py"), recursive=True))
rows = []
for f in sorted(glob.glob(os.path.join(HERE, "spec", "*.tla"))):
    name = os.path.basename(f)[:-4]
    text = open(f).read()
    m = re.search(r"\(\*\s*(.*?)\s*\*\)", text, re.S)
    first = re.sub(r"\s*\*\)\s*\(\*\s*", " ", m.group(1)).split(". ")[0][:150].replace("\n", " ") if m else ""
    first = re.sub(r"\s+", " ", first)
    cfgs = [os.path.basename(c)[:-4] for c in glob.glob(os.path.join(HERE, "spec", "*.cfg"))
            if re.search(r"^%s(_|$)" % re.escape(name), os.path.basename(c)[:-4])]
    used = sorted(k[:3] for k, v in checks.items() if re.search(r"\b%s\b" % re.escape(name), v))
    if not used and re.search(r"\b%s\b" % re.escape(name), helpers):
        used = ["(harness)"]
    ext = re.search(r"EXTENDS\s+([^\n]+)", text)
    rows.append((name, len(text.splitlines()), first, len(cfgs), ",".join(dict.fromkeys(used)), ext.group(1).strip()[:60] if ext else ""))
print("| module | lines | what it is | cfgs | used by | EXTENDS |")
print("|---|---|---|---|---|---|")
for r in rows:
    print("| `%s` | %d | %s | %d | %s | %s |" % r)
print("\n%d modules, %d lines, %d configurations" % (len(rows), sum(r[1] for r in rows), len(glob.glob(os.path.join(HERE, "spec", "*.cfg")))))
