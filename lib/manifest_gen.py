#!/usr/bin/env python3
"""Regenerates MANIFEST.json from the table below (single source of truth)."""
import json, os
V = os.path.dirname(os.path.dirname(os.path.abspath(__file__)))
ALL = ["C%02d" % i for i in range(1, 21)]
# pid -> (technique, level text, level_note, design_ref)
CLAIMED = {
 "C11": ("TLA+ model of lzma_code (LzmaCode.tla) checked against a separate contract module by TLC; every model "
         "transition replayed into the real lzma_code with a mock coder; recorded call histories of all public coders "
         "validated by a TLA+ trace specification",
         "Exhaustive TLC check (all call sequences within MaxIn=MaxOut=2, all 13+1 inner return codes, all supported-action "
         "sets) that the transcription of lzma_code satisfies the separately written contract; the transcription is bound to "
         "the code by replaying every one of its ~110k transitions (incl. re-initialisation compositions) against the real "
         "function and by validating recorded histories of the 19 public constructors: random call sequences incl. illegal ones, "
         "handle re-initialisation chains (every decoder/encoder pair; the same constructor with another memory limit; the "
         "informational functions must answer as on a fresh handle), and file-info decoder chunkings around its first seek.",
         "Trusted: TLC, the ctypes/C drivers, ASan/UBSan for memory outside the buffers (guard zones checked explicitly). "
         "Inner coders are abstract (any result); amounts above the model constants are covered by trace validation only.",
         "§4 C11"),
 "C07": ("TLA+ model of stream_decoder_mt.c/outqueue.c (MtDecoder.tla, one action per critical section) model-checked by TLC "
         "against a sequential-equivalence contract; executions of the real threaded decoder recorded through guarded hooks "
         "and validated by the TLA+ trace specification TraceMtDecoder",
         "TLC explores every interleaving of main thread, 2 workers and an arbitrary application (slicing, output space, early "
         "lzma_end, re-initialisation, lzma_memlimit_set) for <= 3 Blocks in 30 configurations (valid, corrupt, bad header, bad "
         "index, truncated, direct mode, fail-fast, timeout, spurious wake-ups, tight memlimit_threading, memlimit_stop refusal "
         "and restart, LZMA_TELL_* notifications, concatenated Streams with Stream Padding, liveness under weak fairness; thorough: "
         "also random behaviours with 3 workers) and checks output-prefix, terminal equivalence with the sequential decoder, "
         "no use after free, queue order, no premature BUF_ERROR and (Spurious=FALSE) deadlock freedom / no lost wake-up. The "
         "model is bound to the code by trace validation of every critical section of real runs under TSan with schedule "
         "perturbation (each event = one model action with arguments bound) plus byte comparison with lzma_stream_decoder; one failing allocation at every ordinal of slicing runs (MEM_ERROR after a "
         "correct prefix or unchanged behaviour; the failure paths are model actions and the runs are trace-validated).",
         "Trusted: TLC, TSan (only executed interleavings), the Lipton-reduction argument that critical sections are atomic "
         "(lock discipline observed on traces), hooks (add-only, guarded), mt_drv.c. Cached-memory eviction order is not in the model "
         "(C09 covers the limit protocol).",
         "§4 C07"),
 "C08": ("TLA+ model of stream_encoder_mt.c/outqueue.c (MtEncoder.tla) model-checked by TLC against an ordering / flush / "
         "progress / liveness contract; executions of the real threaded encoder recorded through guarded hooks and validated "
         "by the TLA+ trace specification TraceMtEncoder",
         "TLC explores every interleaving of main thread, <= 2 workers and an arbitrary application (RUN / FULL_FLUSH / "
         "FULL_BARRIER / FINISH, slicing, output space, lzma_get_progress, lzma_filters_update, early lzma_end, re-initialisation "
         "with the same / another block_size / another thread count) in 14-19 configurations (worker failure, main-thread allocation "
         "failure, timeout, spurious wake-ups, 1 thread, block_size 1 and 2, liveness under weak fairness; two variants of the "
         "released 5.8.1 behaviour must violate NoLostWorker / InBufFits) and checks ordered output, Blocks partitioning the input only "
         "at block_size / requested offsets, flush / barrier / finish completion conditions, truthful monotone progress, no "
         "premature BUF_ERROR, deadlock freedom. Bound to the code by trace validation of real runs under TSan with schedule "
         "perturbation (incl. the incompressible-data fallback reached with 24 MiB random Blocks, and the failure paths of runs with "
         "one failing allocation at every ordinal), and by decoding / boundary / determinism / Block Header chain checks of the "
         "produced Streams.",
         "Trusted: TLC, TSan (only executed interleavings), atomic critical sections, hooks, mt_drv.c.",
         "§4 C08"),
 "C20": ("TLA+ transcriptions of xzgrep.in / xzdiff.in (XzGrep.tla, XzDiff.tla: option scanner, per-file step, status fold, labelling) "
         "model-checked by TLC against contract modules; TLC-generated plans (options x patterns x file states x hostile name classes) "
         "replayed into the real scripts and compared with the model's prediction + real grep/diff/cmp on the decompressed data",
         "TLC checks the scripts' control logic (declarative getopt, exit-status fold incl. SIGPIPE tolerance and decompressor failure, "
         "label iff last of -h/-H else >1 file, -l/-L, operand classification of xzdiff) for all file-state vectors of length <= 3 and "
         "all option words within the bounds; ~400 (quick) / ~8000 (thorough) TLC-simulated invocations of the real scripts with 20 hostile "
         "name classes and both labelling methods must give exactly the predicted stdout / status / untouched directory.",
         "Trusted: TLC, system grep/diff/cmp as the oracle for line content, the driver. Shell quoting / eval / sed semantics are observed on "
         "the hostile classes, not modelled (stated in evidence); xzless/xzmore are not exercised.",
         "§4 C20"),
 "C09": ("TLA+ models of the memory-limit protocols (MemLimit.tla: single-threaded init-point restart, threaded decoder threading/stop limits, "
         "memconfig) and of xz's coder_set_compression_settings (MemAdjust.tla) checked by TLC; recorded allocator traces of real decoders "
         "validated by TraceMemLimit; TLC-generated (limit x threads x preset x flags) plans replayed with the real xz",
         "TLC checks: held memory <= max(limit, BASE) + allowance, usage reported at a stop = amount needed, raise-to-reported resumes, "
         "set is sound, threaded usage <= threading limit and always <= stop limit; 5 broken protocol variants violate the contract. "
         "Bound to the code by a counting allocator (every alloc/free logged) on files with dictionary sizes 4 KiB..1.5 GiB and limits M-1/M/M+1, "
         "raise-and-resume, estimate >= peak comparisons, and 161 (quick) / 2600 xz runs whose settings/messages/exit status must equal the model's.",
         "Trusted: TLC, the counting allocator (mmap-backed for large blocks), liblzma's estimate functions as inputs of MemAdjust. "
         "xz's real peak RSS is not measured; lzma_index_memusage is documented approximate and only recorded.",
         "§4 C09"),
 "C10": ("TLA+ ownership/ledger model of lzma_stream / lzma_next_coder (Lifecycle.tla: strm_init, next_coder_init, next_strm_init, next_end, "
         "lzma_end, caller-owned objects) checked by TLC; TLC-generated API scenarios replayed with every single allocation failing; "
         "recorded alloc/free/return traces validated by TraceLifecycle",
         "TLC checks 11 invariants (no bad free, failure reported by the failing call (or later for threaded coders), failed init leaves "
         "nothing allocated, nothing live after End, handle reusable, caller objects unchanged after failure, no coder driven by another "
         "kind's functions) over all op histories <= 3 (quick) / 4 calls with interleaved micro-ops; 6 broken mechanisms violate them. "
         "~375 / 8662 TLC-generated scenarios over 19 constructors + 26 object/one-shot functions are run fault-free and with EVERY "
         "allocation ordinal failing (4.4k / 162k executions under ASan, in subprocesses), traces validated.",
         "Trusted: TLC, ASan, the counting allocator driver. Allocation-failure paths of code not reached by the scenarios are not covered.",
         "§4 C10"),
 "C12": ("TLA+ model of the encoder pipeline's flush/update handling (XzStreamEnc.tla: stream_encoder, block_encoder, lz_encoder fill_window, "
         "lzma2_encoder sequences, simple_coder, delta, filters_update; LzmaCode instanced) checked by TLC against a decoder-monitor contract; "
         "TLC-generated histories replayed with real data, decoding the output at every completed flush; recorded runs validated by TraceXzStreamEnc",
         "TLC checks over all application histories <= 3-5 operations (Run/SyncFlush/FullFlush/FullBarrier/Finish/Update x grants) that a "
         "completed flush makes decodable = accepted input, full flush/barrier close a non-empty Block and never create an empty one, the "
         "only refusal is OPTIONS_ERROR for sync flush on BCJ/LZMA1 chains, update rules; 9 deliberately wrong variants violate it. "
         "664 / 8000 generated histories x encoders x chains are executed; at every flush the output so far is decoded by liblzma and by "
         "the independent glue decoder; return codes, accepted bytes and final Block list must equal the model's.",
         "Trusted: TLC, harness/glue, the ctypes driver. Data is abstracted to 'at least one byte per pipeline stage'; one mutant "
         "(flush ignoring read-ahead exactly at a chunk size limit) is known to be missed.",
         "§4 C12"),
 "C14": ("Definitional CRC32 / CRC64 / SHA-256 written in TLA+ (Check.tla, 16-bit limbs) with the init/update/finish machine, sanity-checked "
         "by TLC; TLC computes expected values for generated byte strings which are replayed against every implementation variant",
         "TLC checks the split law, table = bit-serial definition and published vectors on the TLA+ definitions, then emits 6449 / 28204 "
         "(bytes, init, pieces, value) cases (every length 0..320/520, edge lengths x patterns, ~4 KiB) replayed at all 64 alignments against "
         "lzma_crc32/64 as dispatched, the generic slice-by-N functions, the CLMUL functions, the small variants, lzma_check_* and the Block "
         "Check field, in asan and no-CLMUL builds (4M / 15M calls).",
         "Trusted: TLC's evaluation of the definitions (zlib/hashlib only as a second opinion on them). Contents are sampled by class, not "
         "exhausted; ARM64/LoongArch/big-endian paths cannot be built here.",
         "§4 C14"),
 "C15": ("Reference BCJ (8 architectures) and delta transforms and the simple_code() buffering protocol written in TLA+ (Bcj.tla, Delta.tla, "
         "SimpleCoder.tla) model-checked by TLC (exact inverse, chunked = one-shot, finish flushes); TLC-computed expected bytes replayed "
         "against the real filters under many slicings",
         "TLC checks SimpleCoder composed with each transform under every call sequence (PrefixOfOneShot, EndIffComplete, HeldBackIsBounded, "
         "FinishFlushes, ExactInverse) and emits 1234 / 2854 (arch, offset, bytes, expected) jobs from opcode-pattern classes, replayed "
         "through the internal single-filter coders (whole, bytewise, every two-piece split, random: 93k runs quick), the public one-shot "
         "functions and [filter, LZMA2] chains; files written by other versions and the system's released liblzma agree.",
         "Trusted: TLC. There is no format document for the BCJ transforms independent of the source, so Bcj.tla restates xz 5.8.1 as the "
         "stability oracle (cross-checked with tests/files and liblzma 5.8.2).",
         "§4 C15"),
 "C16": ("TLA+ transcriptions of alone_decoder.c, lzip_decoder.c, auto_decoder.c, Stream Padding handling and the LZMA1 end rules "
         "(Alone/Lzip/Auto/XzPadding/Lzma1End.tla) checked by TLC against a declarative format contract; TLC-generated files serialised by "
         "the independent glue and replayed into the decoders and the tools under many slicings",
         "TLC checks MeetsContract / NeverUnspecified / StopsAtFirstStream (acceptance <=> declarative validity, Auto = Specific, exact stop "
         "position) over header-field families and every slicing in the core family; three variants reproducing the released 5.8.1 defects "
         "violate it. 12.6k / 23k plans (all props bytes, dictionary sizes, size classes x end marker, every .lz ds byte/version/footer "
         "fault, trailing data kinds, paddings 0..9, flag subsets) are replayed: 133k / 1.75M decoder runs + 1.4k / 4.6k CLI runs.",
         "Trusted: TLC, harness/glue. LZMA payloads and .xz bodies are abstract regions (total_in after an error inside a payload is not "
         "compared).",
         "§4 C16"),
 "C18": ("TLA+ models of xz's sparse-file / O_APPEND output logic (Sparse.tla) and of the tools' verdict-to-output mapping (CliDecode.tla) "
         "checked by TLC; strace-recorded write/lseek/fcntl sequences validated by TraceSparse; tool runs compared with an in-process "
         "library decode selected through the model",
         "TLC checks content = old ++ data, exact size, flags restored for all buffer sequences <= 4-5 x sink kinds x append/nonblock/"
         "--no-sparse. 280 / 2400 traced decompressions of model-shaped plaintexts (zero runs at every offset class of the 8 KiB buffer) "
         "into new file / pipe / > / >> / offsets, -T1/-T4, must be accepted and byte-identical to the library decode; 1050 / 4080 runs of "
         "xz -dc/-d/-t, xzdec, lzmadec on valid/corrupt/truncated/concatenated inputs must match the CliDecode row; CLI round trips.",
         "Trusted: TLC, strace, the single-threaded library decoder as oracle. --format=raw and --files0 are not in the decode table.",
         "§4 C18"),
 "C19": ("TLA+ transcriptions of suffix.c (Suffix.tla), of the open/refuse/copy-attributes/close sequence (Attrs.tla, one action per "
         "syscall) and of the exit status fold (ExitStatus.tla) checked by TLC; TLC-generated names and file scenarios replayed with the "
         "real xz under strace",
         "TLC checks round trip / skip rules / no '/' / non-empty base name for all names <= 4-6 over an 11-character alphabet x custom "
         "suffixes (documented exception as a named predicate), and 14 invariants of Attrs over the whole mode lattice 0..07777 x fchown "
         "outcomes (no overwrite, refusals, mode subset without 07000, owner/group/times, --keep). ~7k / 98k concretised names (spaces, "
         "newline, non-UTF-8, leading '-'), 335 / 1939 file scenarios (syscall sequence, lstat before/after) and 234 / 2178 status folds "
         "must equal TLC's predictions.",
         "Trusted: TLC, strace (EPERM injected for fchown/fchmod; some runs as 'nobody'). -S suffixes longer than the bound are handled "
         "by a named predicate, not enumerated.",
         "§4 C19"),
 "C13": ("List-of-records TLA+ model of lzma_index (Index.tla / IndexOps.tla / IndexBig.tla with exact 63-bit limb arithmetic) and a "
         "transcription of file_info_decode() (FileInfo.tla) checked by TLC against contract modules; TLC-generated op histories with "
         "predicted getters/iterations/locate results replayed into the real API; file-info decoder runs validated by TraceFileInfo",
         "TLC checks 9 index invariants (getters = list model, iteration visits each Stream/Block once in order in 4 modes, locate = unique "
         "non-empty Block, failed ops change nothing, limits) and for the file-info decoder: seek <= file size, position agreement, "
         "result = concatenation of per-Stream indexes, termination, for read sizes 1/7/40/whole/mixed incl. damaged files; each of 4 "
         "switchable bugs violates its invariant. 4.8k / 29.6k generated plans (random walks over limit-crossing value classes, BFS, every "
         "iterator transition, volume walks crossing 512 Records / 2^k Streams, half with allocation failures) are replayed comparing ALL "
         "getters, full iterations and locate at boundaries after every call; ~120 / 625 real multi-Stream files are decoded by the "
         "file-info decoder (every call validated), Blocks decoded at the offsets given, xz --list compared.",
         "Trusted: TLC, the ctypes drivers, the real encoder for test files. index_hash.c and AVL rotations are not modelled (rotations are "
         "exercised by volume replay only).",
         "§4 C13"),
 "C17": ("TLA+ model of xz's per-file life cycle as a sequence of system calls with failures, signals, SIGKILL and file swaps "
         "(XzFilePair.tla) checked by TLC against data-safety invariants; strace-recorded executions of the real xz under injected "
         "faults/signals/kills validated by TraceXzFilePair including the final file-system state",
         "TLC checks DataSafe (source absent => complete, closed, synced target) in every reachable state - which covers SIGKILL at any "
         "instant - plus FailureKeepsSource, FailureCleansUp, NoJunkLeft, ExitZeroMeansDone, KeepNeverRemoves, NoOverwrite, "
         "AbortDiesBySignal... for 96 option configurations with one fault + one signal (0.39M states; thorough 11.5M + two faults); 8 "
         "broken model copies each violate an invariant. 1196 / 6870 real xz runs (15 / 30 modes x every relevant syscall k x {error, "
         "EINTR, signal INT/TERM/HUP/PIPE, SIGKILL, short count, file swap}) are traced; each syscall is bound to one action with its "
         "arguments, and the content-checked final FS state must be the model's.",
         "Trusted: TLC, strace injection, the LD_PRELOAD shim for short counts. Durability is fsync ordering, not power loss; stdin input, "
         "poll/EAGAIN and --files0 are not driven.",
         "§4 C17"),
 "C03": ("TLA+ operational model of the .xz decoder at field level (XzStreamDec.tla over Lzma2.tla / Lz.tla) checked by TLC against a "
         "declarative validity + meaning definition written from the format document (XzFormat.tla); TLC-generated abstract files "
         "(valid incl. features the encoder never emits, and one-rule violations) serialised by the independent glue and replayed into "
         "the real decoders",
         "TLC checks AcceptIffValid / MeaningExact (+6 invariants) over abstract files (6 check classes, sizes present/absent x true/false, "
         "header padding, 1-4 filter chains, empty Blocks, 2 Streams, ~45 single-rule violations, all 32 flag sets: 55k / 7.5M states), "
         "the LZMA2 control-byte machine against L2Valid for all chunk sequences <= 4-5, and the circular LZ window against the "
         "infinite-history definition (374k / 12.2M states); broken copies violate. 4.5k / 49.6k plans are replayed through "
         "lzma_stream_decoder (one-shot, bytewise), lzma_stream_buffer_decode, lzma_stream_decoder_mt, lzma_block_decoder, "
         "lzma_raw_decoder; all tests/files/*.xz are decoded and compared (verdict AND bytes) with glue and, lifted field by field, "
         "with the TLA+ model.",
         "Trusted: TLC, harness/glue (closure-tested both ways). Inside .xz files LZMA2 variety comes from a 14-entry catalogue; IA64 / "
         "RISC-V filters appear only in the chain rules.",
         "§4 C03"),
 "C05": ("The decoder models of C03 composed with a fault chosen in Init (XzFault.tla, LzFault.tla: flip / CRC-fixed overwrite / insert / "
         "delete / truncate) checked by TLC for 'never success with different data'; every bit, offset and truncation length of the "
         "designated fields replayed against the real decoders and tools",
         "TLC checks NeverWrongSuccess, DamageOutsidePayloadDetected, TruncatedNeverComplete over field x fault kind for <= 2 Streams x "
         "<= 2 Blocks and for .lz/.lzma (5 + 3 broken copies violate; named exclusions: unverifiable check, cut at a Stream boundary, "
         "benign CRC-consistent rewrites, .lz loose trailing data). 43k / 379k concrete damaged files (every bit, byte inserted/deleted "
         "at every offset, every truncation, random multi-byte damage) through buffer_decode, lzma_code, mt, lzip, alone, auto decoders "
         "+ 3.3k / 11.5k runs of xz -dc, xzdec, lzmadec: the observed (status, same data?) must be in the model's admissible set.",
         "Trusted: TLC, harness/glue (classifies payload damage). .lzma has no integrity check: flips are only checked against broad sets.",
         "§4 C05"),
 "C06": ("TLA+ model of the resumable-coder calling convention (SliceCoder.tla / Slicing.tla composed with LzmaCode.tla) checked by TLC "
         "for slice independence over every split; TLC-generated slicing plans mapped onto real field maps and replayed on all coders; "
         "recorded runs validated by TraceSlicing",
         "TLC checks SliceIndependent (terminal <<output, status, total_in>> = one-shot observation; BCJ-rejected exception), TotalsAgree, "
         "NoInternal for .xz-like, LZMA1 (incl. the recomputed eopm locals), .lz and BCJ field coders under all Feed/OutSpace "
         "interleavings (25k-97k states each); the released-5.8.1 variant and a strict-BCJ variant must (and do) yield counterexamples. "
         "2040 TLC plans (windows at field boundaries -1/0/+1, empty calls, 5 output modes) + every two-piece split, 1-byte in/out, "
         "random lists on 17 decoders and 7 encoders over valid, damaged, truncated inputs: 20k / 390k runs compared with one-shot; "
         "determinism groups (threads 1..8 x timeout x slicing x filter text form) must give equal digests.",
         "Trusted: TLC, harness/glue for inputs. Four by-design total_in dependencies are listed as known findings.",
         "§4 C06"),
 "C04": ("Starvation / documented-codes model (Starve.tla over Slicing) checked by TLC incl. a liveness property; TLC-enumerated field "
         "grammars for the stateless parsers; all executions observed under ASan+UBSan with exact heap windows, watchdog and allocator ledger",
         "Decided by the spec: every entry point returns only documented codes (no 101/102) and a caller that stops supplying input or "
         "output gets BUF_ERROR after a bounded number of calls (StarveLive under weak fairness; a lazy variant violates it); recorded "
         "traces end with starving calls and are validated. Observed (not proved): 6.7k / 343k decoder runs and 3.5k+ parser calls from "
         "TLC-enumerated grammars (VLIs of 1..10 bytes, reserved bits, property sizes, filter strings) x memory limits x slicings run "
         "under ASan+UBSan with asserts, exact-size heap windows, a watchdog and a counting allocator (leaks).",
         "Memory safety is OBSERVED on specification-generated inputs, not proved: no coverage-guided fuzzing is done (DESIGN 5).",
         "§4 C04"),
 "C01": ("TLA+ LZ symbol semantics and LZMA2 chunk rules (EncLz.tla, EncLzma2.tla) model-checked by TLC (circular window = infinite history, "
         "aggregate judge sound w.r.t. byte-exact judge); a TLC-generated pairwise-plus-corners covering array over the encoder option "
         "lattice (EncoderConfig.tla) drives the real encoders; their output, tokenised by the independent glue, is validated by TLA+ trace "
         "specifications and decoded by two independent decoders",
         "TLC checks the LZ/LZMA2 semantics (62k / 2.4M and 57k / 530k states; a broken ring-buffer variant violates WindowEquiv) and "
         "emits 180 / ~3000 configuration plans over 19 dimensions (13 entry points, presets, lc/lp/pb, 5 match finders, modes, nice_len, "
         "depth, dictionary sizes, preset dictionary, checks, chains, block size, threads, flush, slicing, size-limited MicroLZMA). "
         "1088 / 6579 (plan x input) cases are encoded by real liblzma, decoded by liblzma and tokenised by the glue; TraceEncLz / "
         "TraceEncLzma2 expand inputs <= 400 bytes byte-exactly inside TLC and judge per-chunk aggregates otherwise; every case is re-run "
         "with the match-finder normalisation bias (hook) and must give identical bytes.",
         "Trusted: TLC, harness/glue range decoder (closure-tested), the guarded mf-offset hook. IA64 / RISC-V BCJ chains and inputs >= 2^31 "
         "are not covered; the range coder's probability arithmetic is judged only through the two decoders.",
         "§4 C01"),
 "C02": ("Field-level .xz judge written as a TLA+ trace specification (EncXzFile.tla) over the independent glue parser's field events, plus a "
         "transcription of the bound functions (Bound.tla) model-checked by TLC; real encoder output of the C01 covering array and "
         "single-call encodes at bound(n) are validated",
         "TraceEncXzFile checks every stored size, padding, CRC32, Check, Index record, Backward Size, flags, filter flags, declared "
         "dictionary >= longest distance and the .lzma header of ~600 / 5511 real encoder outputs (19k / 384k field events); "
         "TraceEncXzFileNeg must reject 15 glue-built single-fault files exactly at the faulty field. MCBound checks BoundSuffices / "
         "NeverOverruns / BoundDominates over 144k parameter tuples (a floor-instead-of-ceil variant violates them); 400 / 864 real "
         "lzma_{block,stream,easy}_buffer_encode calls at bound(n) -1/0/+4 with incompressible data are validated by TraceBound.",
         "Trusted: TLC, harness/glue parser and CRC/SHA-256 implementations. string_conversion.c is not exercised here (C06 covers the "
         "text form).",
         "§4 C02"),
}
NA_REASON = "check not built yet in this round (planned: see DESIGN.md §4); no claim is made"
READY_FILE = os.path.join(V, "lib", "ready.txt")   # ids whose checks have been integrated (green + mutants confirmed)
def main():
    ready = set(open(READY_FILE).read().split()) if os.path.exists(READY_FILE) else set(CLAIMED)
    checks = []
    for pid in ALL:
        if pid not in CLAIMED or pid not in ready:
            continue
        tech, text, note, ref = CLAIMED[pid]
        checks.append(dict(property_id=pid, quick_cmd="./check %s --tier quick" % pid,
                           thorough_cmd="./check %s --tier thorough" % pid,
                           evidence_file="evidence/%s.json" % pid,
                           replay_cmd_template="./check %s --replay {path}" % pid,
                           engine="tlc+conformance",
                           level_claimed=dict(category="model_checking", text=text, design_ref=ref),
                           level_note=note, technique=tech))
    hooks_commits = []
    hp = os.path.join(V, "hooks_commits.txt")
    if os.path.exists(hp):
        hooks_commits = [l.split()[0] for l in open(hp) if l.strip()]
    m = dict(version=1,
             setup_cmd="python3 lib/build.py asan plain cli",
             hooks=dict(guard="TUKAANI_PROJECT_XZ_VERIF",
                        enable="lib/build.py compiles /repo's working tree directly with -DTUKAANI_PROJECT_XZ_VERIF (no -DNDEBUG)",
                        baseline_off_cmd="cmake -G Ninja -S /repo -B /repo/_build && cmake --build /repo/_build && ctest --test-dir /repo/_build -j8 --timeout 900",
                        source_commits=hooks_commits, add_only=True),
             engines=[dict(name="tlc+conformance", path="check", serves_properties=sorted(set(CLAIMED) & ready),
                           kind_free_text="TLA+ specifications (spec/) model-checked with TLC; plans generated by TLC replayed into "
                           "liblzma/xz built from the working tree; recorded traces validated against Trace*.tla")],
             checks=checks,
             notes="See DESIGN.md. Exit codes: 0 held, 1 VIOLATION, 3 machinery/build failure (not a verdict).",
             not_applicable=[dict(property_id=p, reason=NA_REASON) for p in ALL if p not in CLAIMED or p not in ready])
    json.dump(m, open(os.path.join(V, "MANIFEST.json"), "w"), indent=1)
if __name__ == "__main__":
    main()
