#!/usr/bin/env python3
"""Regenerates MANIFEST.json from the table below (single source of truth)."""
import json, os
V = os.path.dirname(os.path.dirname(os.path.abspath(__file__)))
ALL = ["C%02d" % i for i in range(1, 21)]
# pid -> (technique, level text, level_note, design_ref)
CLAIMED = {
 "C11": ("TLA+ model of lzma_code (LzmaCode.tla) checked against a separate contract module by TLC; every model "
         "transition replayed into the real lzma_code with a mock coder; recorded call histories of all public coders "
         "validated by a TLA+ trace specification",
         "Exhaustive TLC check (all call sequences within MaxIn=MaxOut=2, all 13+1 inner return codes, all supported-action "
         "sets) that the transcription of lzma_code satisfies the separately written contract; the transcription is bound to "
         "the code by replaying every one of its ~90k transitions against the real function and by validating recorded "
         "histories of the 19 public constructors.",
         "Trusted: TLC, the ctypes/C drivers, ASan/UBSan for memory outside the buffers (guard zones checked explicitly). "
         "Inner coders are abstract (any result); amounts above the model constants are covered by trace validation only.",
         "§4 C11"),
 "C07": ("TLA+ model of stream_decoder_mt.c/outqueue.c (MtDecoder.tla, one action per critical section) model-checked by TLC "
         "against a sequential-equivalence contract; executions of the real threaded decoder recorded through guarded hooks "
         "and validated by the TLA+ trace specification TraceMtDecoder",
         "TLC explores every interleaving of main thread, 2 workers and an arbitrary application (slicing, output space, early "
         "lzma_end) for <= 3 Blocks in 16 configurations (valid, corrupt, bad header, bad index, truncated, direct mode, fail-fast, "
         "timeout, spurious wake-ups, tight memory) and checks output-prefix, terminal equivalence with the sequential decoder, "
         "no use after free, queue order, no premature BUF_ERROR and (Spurious=FALSE) deadlock freedom / no lost wake-up. The "
         "model is bound to the code by trace validation of every critical section of real runs under TSan with schedule "
         "perturbation (each event = one model action with arguments bound) plus byte comparison with lzma_stream_decoder.",
         "Trusted: TLC, TSan (only executed interleavings), the Lipton-reduction argument that critical sections are atomic "
         "(lock discipline observed on traces), hooks (add-only, guarded), mt_drv.c. Concatenated Streams, memlimit_stop restart "
         "and cached-memory eviction are not in the model (C09 covers the limits).",
         "§4 C07"),
 "C08": ("TLA+ model of stream_encoder_mt.c/outqueue.c (MtEncoder.tla) model-checked by TLC against an ordering / flush / "
         "progress / liveness contract; executions of the real threaded encoder recorded through guarded hooks and validated "
         "by the TLA+ trace specification TraceMtEncoder",
         "TLC explores every interleaving of main thread, <= 2 workers and an arbitrary application (RUN / FULL_FLUSH / "
         "FULL_BARRIER / FINISH, slicing, output space, lzma_get_progress, early lzma_end) in 8 configurations (worker failure, "
         "timeout, spurious wake-ups, 1 thread, block_size 1 and 2) and checks ordered output, Blocks partitioning the input only "
         "at block_size / requested offsets, flush / barrier / finish completion conditions, truthful monotone progress, no "
         "premature BUF_ERROR, deadlock freedom. Bound to the code by trace validation of real runs under TSan with schedule "
         "perturbation, and by decoding / boundary / determinism checks of the produced Streams.",
         "Trusted: TLC, TSan (only executed interleavings), atomic critical sections, hooks, mt_drv.c. The incompressible-data "
         "fallback path and threads_stop(wait) at re-initialisation are model-only / not modelled respectively.",
         "§4 C08"),
 "C20": ("TLA+ transcriptions of xzgrep.in / xzdiff.in (XzGrep.tla, XzDiff.tla: option scanner, per-file step, status fold, labelling) "
         "model-checked by TLC against contract modules; TLC-generated plans (options x patterns x file states x hostile name classes) "
         "replayed into the real scripts and compared with the model's prediction + real grep/diff/cmp on the decompressed data",
         "TLC checks the scripts' control logic (declarative getopt, exit-status fold incl. SIGPIPE tolerance and decompressor failure, "
         "label iff last of -h/-H else >1 file, -l/-L, operand classification of xzdiff) for all file-state vectors of length <= 3 and "
         "all option words within the bounds; ~400 (quick) / ~8000 (thorough) TLC-simulated invocations of the real scripts with 20 hostile "
         "name classes and both labelling methods must give exactly the predicted stdout / status / untouched directory.",
         "Trusted: TLC, system grep/diff/cmp as the oracle for line content, the driver. Shell quoting / eval / sed semantics are observed on "
         "the hostile classes, not modelled (stated in evidence); xzless/xzmore are not exercised.",
         "§4 C20"),
}
NA_REASON = "check not built yet in this round (planned: see DESIGN.md §4); no claim is made"
def main():
    checks = []
    for pid in ALL:
        if pid not in CLAIMED:
            continue
        tech, text, note, ref = CLAIMED[pid]
        checks.append(dict(property_id=pid, quick_cmd="./check %s --tier quick" % pid,
                           thorough_cmd="./check %s --tier thorough" % pid,
                           evidence_file="evidence/%s.json" % pid,
                           replay_cmd_template="./check %s --replay {path}" % pid,
                           engine="tlc+conformance",
                           level_claimed=dict(category="model_checking", text=text, design_ref=ref),
                           level_note=note, technique=tech))
    hooks_commits = []
    hp = os.path.join(V, "hooks_commits.txt")
    if os.path.exists(hp):
        hooks_commits = [l.split()[0] for l in open(hp) if l.strip()]
    m = dict(version=1,
             setup_cmd="python3 lib/build.py asan plain cli",
             hooks=dict(guard="TUKAANI_PROJECT_XZ_VERIF",
                        enable="lib/build.py compiles /repo's working tree directly with -DTUKAANI_PROJECT_XZ_VERIF (no -DNDEBUG)",
                        baseline_off_cmd="cmake -G Ninja -S /repo -B /repo/_build && cmake --build /repo/_build && ctest --test-dir /repo/_build -j8 --timeout 900",
                        source_commits=hooks_commits, add_only=True),
             engines=[dict(name="tlc+conformance", path="check", serves_properties=sorted(CLAIMED),
                           kind_free_text="TLA+ specifications (spec/) model-checked with TLC; plans generated by TLC replayed into "
                           "liblzma/xz built from the working tree; recorded traces validated against Trace*.tla")],
             checks=checks,
             notes="See DESIGN.md. Exit codes: 0 held, 1 VIOLATION, 3 machinery/build failure (not a verdict).",
             not_applicable=[dict(property_id=p, reason=NA_REASON) for p in ALL if p not in CLAIMED])
    json.dump(m, open(os.path.join(V, "MANIFEST.json"), "w"), indent=1)
if __name__ == "__main__":
    main()
