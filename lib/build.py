"""Build liblzma / xz tools from the *current working tree* of the repository.

Every check calls `lib(variant)` / `cli()`.  A build is keyed by a content hash
of every file under <repo>/src, <repo>/lib and the flags, so an edit of the
tree always triggers a rebuild and an unchanged tree reuses the objects.
Nothing is taken from /repo/_build.
"""
import hashlib, os, subprocess, sys, fcntl, shutil, concurrent.futures, re

VERIF = os.path.dirname(os.path.dirname(os.path.abspath(__file__)))
REPO = os.environ.get("VERIF_REPO", "/repo")
BUILD = os.environ.get("VERIF_BUILD", os.path.join(VERIF, "build"))
GUARD = "TUKAANI_PROJECT_XZ_VERIF"
JOBS = int(os.environ.get("VERIF_JOBS", "16"))

COMMON_DEFS = """-DHAVE_CHECK_CRC32 -DHAVE_CHECK_CRC64 -DHAVE_CHECK_SHA256 -DHAVE_CLOCK_GETTIME
-DHAVE_CLOCK_MONOTONIC -DHAVE_CPUID_H -DHAVE_DECODERS -DHAVE_DECODER_ARM -DHAVE_DECODER_ARM64
-DHAVE_DECODER_ARMTHUMB -DHAVE_DECODER_DELTA -DHAVE_DECODER_IA64 -DHAVE_DECODER_LZMA1 -DHAVE_DECODER_LZMA2
-DHAVE_DECODER_POWERPC -DHAVE_DECODER_RISCV -DHAVE_DECODER_SPARC -DHAVE_DECODER_X86 -DHAVE_ENCODERS
-DHAVE_ENCODER_ARM -DHAVE_ENCODER_ARM64 -DHAVE_ENCODER_ARMTHUMB -DHAVE_ENCODER_DELTA -DHAVE_ENCODER_IA64
-DHAVE_ENCODER_LZMA1 -DHAVE_ENCODER_LZMA2 -DHAVE_ENCODER_POWERPC -DHAVE_ENCODER_RISCV -DHAVE_ENCODER_SPARC
-DHAVE_ENCODER_X86 -DHAVE_INTTYPES_H -DHAVE_LZIP_DECODER -DHAVE_MF_BT2 -DHAVE_MF_BT3 -DHAVE_MF_BT4
-DHAVE_MF_HC3 -DHAVE_MF_HC4 -DHAVE_PTHREAD_CONDATTR_SETCLOCK -DHAVE_STDBOOL_H -DHAVE_STDINT_H
-DHAVE__BOOL -DHAVE___BUILTIN_ASSUME_ALIGNED -DHAVE___BUILTIN_BSWAPXX -DMYTHREAD_POSIX
-DPACKAGE_BUGREPORT="xz@tukaani.org" -DPACKAGE_NAME="XZ_Utils" -DPACKAGE_URL="https://tukaani.org/xz/"
-DTUKLIB_FAST_UNALIGNED_ACCESS -D_GNU_SOURCE""".split()

def _q(defs):
    # args go to the compiler without a shell; "XZ_Utils" stands for "XZ Utils" (split() above)
    return [d.replace("XZ_Utils", "XZ Utils") for d in defs]

LIB_DEFS = _q(COMMON_DEFS) + """-DHAVE_FUNC_ATTRIBUTE_CONSTRUCTOR -DHAVE_IMMINTRIN_H -DHAVE_USABLE_CLMUL
-DHAVE_VISIBILITY=0 -DHAVE__MM_MOVEMASK_EPI8 -DTUKLIB_CPUCORES_SCHED_GETAFFINITY -DTUKLIB_PHYSMEM_SYSCONF
-DTUKLIB_SYMBOL_PREFIX=lzma_""".split()

LIB_INCS = ["api", "common", "check", "lz", "rangecoder", "lzma", "delta", "simple"]

VARIANTS = {
    # name: (compiler, cflags, ldflags)
    "asan": ("cc", ["-O1", "-g", "-fsanitize=address,undefined", "-fno-sanitize-recover=undefined",
                    "-fno-omit-frame-pointer"], ["-fsanitize=address,undefined"]),
    "plain": ("cc", ["-O2", "-g"], []),
    "tsan": ("cc", ["-O1", "-g", "-fsanitize=thread"], ["-fsanitize=thread"]),
    "noclmul": ("cc", ["-O2", "-g"], []),
}

def lib_sources():
    with open(os.path.join(VERIF, "lib", "liblzma_sources.txt")) as f:
        return [l.strip() for l in f if l.strip()]

def tree_hash(subdirs=("src", "lib")):
    h = hashlib.sha256()
    for sd in subdirs:
        base = os.path.join(REPO, sd)
        for root, dirs, files in os.walk(base):
            dirs.sort()
            for fn in sorted(files):
                if not fn.endswith((".c", ".h", ".in", ".sh")):
                    continue
                p = os.path.join(root, fn)
                h.update(os.path.relpath(p, REPO).encode())
                try:
                    with open(p, "rb") as f:
                        h.update(hashlib.sha256(f.read()).digest())
                except OSError:
                    pass
    return h.hexdigest()

def _run(cmd, **kw):
    r = subprocess.run(cmd, stdout=subprocess.PIPE, stderr=subprocess.STDOUT, text=True, **kw)
    return r.returncode, r.stdout

def _compile_many(jobs):
    """jobs: list of argv. Returns (ok, log)."""
    log = []
    ok = True
    with concurrent.futures.ThreadPoolExecutor(JOBS) as ex:
        for rc, out in ex.map(_run, jobs):
            if rc != 0:
                ok = False
                log.append(out)
    return ok, "\n".join(log)

class BuildError(Exception):
    pass

def _locked(dirpath):
    os.makedirs(dirpath, exist_ok=True)
    f = open(os.path.join(dirpath, ".lock"), "w")
    fcntl.flock(f, fcntl.LOCK_EX)
    return f

def lib(variant="asan", extra_defs=()):
    """Build liblzma as shared object + static archive. Returns dict(so=, a=, dir=, cflags=, ldflags=, incs=)."""
    cc, cflags, ldflags = VARIANTS[variant]
    d = os.path.join(BUILD, "lib-" + variant)
    lock = _locked(d)
    try:
        defs = list(LIB_DEFS) + ["-D" + GUARD] + list(extra_defs)
        if variant == "noclmul":
            defs = [x for x in defs if x != "-DHAVE_USABLE_CLMUL"]
        incs = ["-I%s/src/liblzma/%s" % (REPO, i) for i in LIB_INCS] + ["-I%s/src/common" % REPO]
        stamp = hashlib.sha256((tree_hash(("src",)) + " ".join(cflags + defs)).encode()).hexdigest()
        sp = os.path.join(d, "stamp")
        info = dict(so=os.path.join(d, "liblzma_verif.so"), a=os.path.join(d, "liblzma_verif.a"), dir=d,
                    cflags=cflags, ldflags=ldflags, incs=incs, defs=defs, cc=cc, variant=variant)
        if os.path.exists(sp) and open(sp).read() == stamp and os.path.exists(info["so"]):
            return info
        for fn in os.listdir(d):
            if fn.endswith((".o", ".so", ".a")) or fn == "stamp":
                os.unlink(os.path.join(d, fn))
        jobs, objs = [], []
        for s in lib_sources():
            o = os.path.join(d, s.replace("/", "_") + ".o")
            objs.append(o)
            jobs.append([cc, "-std=gnu11", "-w", "-fPIC", "-pthread"] + cflags + defs + incs +
                        ["-c", os.path.join(REPO, s), "-o", o])
        ok, log = _compile_many(jobs)
        if not ok:
            raise BuildError("liblzma (%s) failed to compile:\n%s" % (variant, log[-4000:]))
        rc, out = _run([cc, "-shared", "-pthread", "-o", info["so"]] + objs + ldflags)
        if rc:
            raise BuildError(out)
        rc, out = _run(["ar", "rcs", info["a"]] + objs)
        if rc:
            raise BuildError(out)
        open(sp, "w").write(stamp)
        return info
    finally:
        lock.close()

XZ_SRCS = """src/common/tuklib_mbstr_nonprint.c src/common/tuklib_exit.c src/common/tuklib_mbstr_fw.c
src/common/tuklib_mbstr_width.c src/common/tuklib_mbstr_wrap.c src/common/tuklib_open_stdxxx.c
src/common/tuklib_progname.c src/xz/args.c src/xz/coder.c src/xz/file_io.c src/xz/hardware.c src/xz/main.c
src/xz/message.c src/xz/mytime.c src/xz/options.c src/xz/sandbox.c src/xz/signals.c src/xz/suffix.c
src/xz/util.c src/xz/list.c""".split()
XZDEC_SRCS = "src/common/tuklib_mbstr_nonprint.c src/common/tuklib_exit.c src/common/tuklib_progname.c src/xzdec/xzdec.c".split()
LZMAINFO_SRCS = """src/common/tuklib_mbstr_nonprint.c src/common/tuklib_mbstr_width.c src/common/tuklib_mbstr_wrap.c
src/common/tuklib_exit.c src/common/tuklib_progname.c src/lzmainfo/lzmainfo.c""".split()
CLI_DEFS = _q(COMMON_DEFS) + """-DHAVE_FUTIMENS -DHAVE_MBRTOWC -DHAVE_POSIX_FADVISE
-DHAVE_PROGRAM_INVOCATION_NAME -DHAVE_STRUCT_STAT_ST_ATIM_TV_NSEC -DHAVE_VASPRINTF -DHAVE_WCWIDTH
-DASSUME_RAM=128 -DPACKAGE="xz" -DLOCALEDIR="/usr/local/share/locale" """.split()

def cli(variant="plain", landlock=False):
    """Build xz, xzdec, lzmadec, lzmainfo and the scripts. Returns dict(bindir=...)."""
    L = lib(variant)
    cc, cflags, ldflags = VARIANTS[variant]
    d = os.path.join(BUILD, "cli-" + variant)
    lock = _locked(d)
    try:
        defs = list(CLI_DEFS) + ["-D" + GUARD]
        if landlock:
            defs.append("-DHAVE_LINUX_LANDLOCK")
        stamp = hashlib.sha256((tree_hash() + " ".join(cflags + defs)).encode()).hexdigest()
        sp = os.path.join(d, "stamp")
        bindir = os.path.join(d, "bin")
        info = dict(bindir=bindir, xz=os.path.join(bindir, "xz"), xzdec=os.path.join(bindir, "xzdec"),
                    lzmadec=os.path.join(bindir, "lzmadec"), lzmainfo=os.path.join(bindir, "lzmainfo"), lib=L)
        if os.path.exists(sp) and open(sp).read() == stamp and os.path.exists(info["xz"]):
            return info
        shutil.rmtree(bindir, ignore_errors=True)
        os.makedirs(bindir)
        incs = ["-I%s/src/common" % REPO, "-I%s/src/liblzma/api" % REPO, "-I%s/lib" % REPO]
        jobs = []
        targets = {"xz": (XZ_SRCS, []), "xzdec": (XZDEC_SRCS, []), "lzmadec": (XZDEC_SRCS, ["-DLZMADEC"]),
                   "lzmainfo": (LZMAINFO_SRCS, [])}
        objs = {}
        for t, (srcs, xd) in targets.items():
            objs[t] = []
            for s in srcs:
                o = os.path.join(d, t + "__" + s.replace("/", "_") + ".o")
                objs[t].append(o)
                jobs.append([cc, "-std=gnu11", "-w", "-pthread"] + cflags + defs + xd + incs +
                            ["-c", os.path.join(REPO, s), "-o", o])
        ok, log = _compile_many(jobs)
        if not ok:
            raise BuildError("cli failed to compile:\n" + log[-4000:])
        for t in targets:
            rc, out = _run([cc, "-pthread", "-o", os.path.join(bindir, t)] + objs[t] + [L["a"]] + ldflags)
            if rc:
                raise BuildError(out)
        for link, tgt in (("unxz", "xz"), ("xzcat", "xz"), ("lzma", "xz"), ("unlzma", "xz"), ("lzcat", "xz")):
            os.symlink(tgt, os.path.join(bindir, link))
        subst = {"POSIX_SHELL": "/bin/sh", "enable_path_for_scripts": "", "xz": "xz",
                 "PACKAGE_NAME": "XZ Utils", "PACKAGE_VERSION": "verif", "VERSION": "verif",
                 "PACKAGE_BUGREPORT": "xz@tukaani.org", "PACKAGE_URL": "https://tukaani.org/xz/"}
        for s in ("xzdiff", "xzgrep", "xzmore", "xzless"):
            src = os.path.join(REPO, "src", "scripts", s + ".in")
            if not os.path.exists(src):
                continue
            txt = open(src, encoding="latin-1").read()
            txt = re.sub(r"@(\w+)@", lambda m: subst.get(m.group(1), m.group(0)), txt)
            p = os.path.join(bindir, s)
            open(p, "w", encoding="latin-1").write(txt)
            os.chmod(p, 0o755)
        for link, tgt in (("xzcmp", "xzdiff"), ("xzegrep", "xzgrep"), ("xzfgrep", "xzgrep"),
                          ("lzdiff", "xzdiff"), ("lzcmp", "xzdiff"), ("lzgrep", "xzgrep"),
                          ("lzegrep", "xzgrep"), ("lzfgrep", "xzgrep")):
            os.symlink(tgt, os.path.join(bindir, link))
        open(sp, "w").write(stamp)
        return info
    finally:
        lock.close()

def cprog(name, sources, variant="asan", extra_cflags=(), extra_ld=(), internal=True):
    """Compile a small C driver against the static verif liblzma of `variant`.
    `sources` are absolute paths. Returns path of the executable (rebuilt when lib or sources change)."""
    L = lib(variant)
    d = os.path.join(BUILD, "prog-" + variant)
    lock = _locked(d)
    try:
        exe = os.path.join(d, name)
        h = hashlib.sha256()
        h.update(open(os.path.join(L["dir"], "stamp")).read().encode())
        for s in sources:
            h.update(open(s, "rb").read())
        h.update(" ".join(list(extra_cflags) + list(extra_ld)).encode())
        stamp = h.hexdigest()
        sp = exe + ".stamp"
        if os.path.exists(sp) and open(sp).read() == stamp and os.path.exists(exe):
            return exe
        cmd = [L["cc"], "-std=gnu11", "-w", "-pthread"] + L["cflags"] + (L["defs"] + L["incs"] if internal else
              ["-I%s/src/liblzma/api" % REPO]) + list(extra_cflags) + ["-o", exe] + list(sources) + [L["a"]] + \
              L["ldflags"] + list(extra_ld)
        rc, out = _run(cmd)
        if rc:
            raise BuildError("driver %s failed to compile:\n%s" % (name, out[-4000:]))
        open(sp, "w").write(stamp)
        return exe
    finally:
        lock.close()

def asan_env(env=None):
    e = dict(env or os.environ)
    p = subprocess.run(["cc", "-print-file-name=libasan.so"], stdout=subprocess.PIPE, text=True).stdout.strip()
    u = subprocess.run(["cc", "-print-file-name=libubsan.so"], stdout=subprocess.PIPE, text=True).stdout.strip()
    e["LD_PRELOAD"] = p + ":" + u
    e["ASAN_OPTIONS"] = "detect_leaks=0:abort_on_error=1:allocator_may_return_null=1"
    e["UBSAN_OPTIONS"] = "halt_on_error=1:print_stacktrace=1"
    return e

if __name__ == "__main__":
    import time
    t = time.time()
    for v in sys.argv[1:] or ["asan"]:
        if v == "cli":
            print(cli())
        else:
            print(lib(v)["so"])
    print("%.1fs" % (time.time() - t))
