"""C19, files: scenarios (file kind x mode bits x flags x injected fchown/fchmod outcomes) are predicted by
the Attrs model (GenAttrs) and executed with the real xz under strace.  Compared: the system calls on the
source / target with their arguments, exit status, stderr use, and lstat of source and target afterwards."""
import os, re, json, stat, shutil, subprocess, threading, time, itertools
from . import c1819_lib as U
from lib.ctx import MachineryError

SRC_UID, SRC_GID = 1234, 2345
NOBODY = 65534
_LOCK = threading.Lock()
_SEEN = set()
ATIME_NS, MTIME_NS = 1300000000111222333, 1200000000444555666
OLD_MTIME_NS = 1100000000000000007
PLAIN = b"attrs payload\n" * 40
# how the (decompressed) data ends: in data, in all-zero 8 KiB blocks after data, or nothing but such blocks
PLAINS = {"data": PLAIN, "hole": (b"\x01attrs block \xff" * 600)[:8192] + bytes(16384), "allhole": bytes(16384)}
OLD = b"OLD TARGET CONTENT\n"

def make_scenarios(rng, rounds, mode_pool):
    """Full product of the structural dimensions, the remaining ones drawn per scenario."""
    sc = []
    kinds = [("reg", 1), ("reg", 2), ("lnk_reg", 1), ("lnk_reg", 2), ("lnk_dangling", 1), ("fifo", 1), ("dir", 1), ("missing", 1)]
    for rnd in range(rounds):
        for (kind, nlink), keep, force, stdout, opmode, dstk in itertools.product(
                kinds, (False, True), (False, True), (False, True), ("compress", "decompress"), ("none", "reg", "dir")):
            if stdout and dstk != "none" and rng.random() < 0.7:
                continue
            m = rng.choice(mode_pool) if rng.random() < 0.6 else rng.randrange(4096)
            if rng.random() < 0.45:
                m &= 0o777
            sc.append(dict(id=len(sc), opmode=opmode, keep=keep, force=force, stdout=stdout,
                           nowarn=rng.random() < 0.3, quiet=rng.choice([0, 0, 0, 1, 2]),
                           kind=kind, smode=m, nlink=nlink, uidSame=rng.random() < 0.4, gidSame=rng.random() < 0.35,
                           dstKind=dstk, nameOK=rng.random() < 0.85,
                           payloadOK=(rng.random() < 0.85), ownOK=rng.random() < 0.75, grpOK=rng.random() < 0.5,
                           chmodOK=rng.random() < 0.85, root=True))
        # the setuid / setgid / sticky classes, each alone and combined: refused in the strict configuration,
        # accepted (and dropped from the target) with --keep / --force
        for special in range(1, 8):
            for keep, force in ((False, False), (True, False), (False, True)):
                opmode = rng.choice(["compress", "decompress"])
                sc.append(dict(id=len(sc), opmode=opmode, keep=keep, force=force, stdout=False,
                               nowarn=rng.random() < 0.3, quiet=0, kind="reg", smode=(special << 9) | rng.randrange(512), nlink=1,
                               uidSame=rng.random() < 0.5, gidSame=rng.random() < 0.5, dstKind="none", nameOK=True, payloadOK=True,
                               ownOK=True, grpOK=rng.random() < 0.5, chmodOK=True, root=True))
        # unprivileged runs (xz as nobody): fchown() to a foreign owner / group fails by itself, the owner failure
        # is silent (warn_fchown is false), the group failure warns and restricts the mode
        for us, gs in ((True, True), (False, False), (True, False)):
            for keep, force in ((False, False), (True, False), (False, True)):
                sc.append(dict(id=len(sc), opmode=rng.choice(["compress", "decompress"]), keep=keep, force=force, stdout=False,
                               nowarn=rng.random() < 0.3, quiet=0, kind="reg", smode=rng.choice([0o644, 0o664, 0o755, 0o647, 0o674, 0o657]),
                               nlink=1, uidSame=us, gidSame=gs, dstKind="none", nameOK=True, payloadOK=True,
                               ownOK=us, grpOK=gs, chmodOK=True, root=False))
    for x in sc:
        x.update(invocation(x, rng))
    # every program name x every option source (-S and -k given there; decoys elsewhere), on a plain regular file
    for rnd in range(rounds):
        for prog in ("xz", "unxz", "xzcat", "lzma", "unlzma", "lzcat"):
            for place in ("dflt", "xzopt", "cmd"):
                x = dict(id=len(sc), opmode="compress" if prog in ("xz", "lzma") else "decompress", keep=rng.random() < 0.5, force=False,
                         stdout=prog in CATS, nowarn=False, quiet=0, kind="reg", smode=rng.choice([0o644, 0o600, 0o755]), nlink=1,
                         uidSame=True, gidSame=True, dstKind="none", nameOK=True, payloadOK=True, ownOK=True, grpOK=True, chmodOK=True, root=True)
                x.update(invocation(x, rng, prog=prog, place=place))
                sc.append(x)
        plain_reg = dict(force=False, stdout=False, nowarn=False, quiet=0, kind="reg", nlink=1, uidSame=True, gidSame=True, dstKind="none",
                         payloadOK=True, ownOK=True, grpOK=True, chmodOK=True, root=True)
        # how the data ends x --no-sparse x operation: a hole pending at the end must not cost the target its timestamps
        for tail in ("hole", "allhole", "data"):
            for ns in (False, True):
                for opmode in ("decompress", "compress"):
                    x = dict(plain_reg, id=len(sc), opmode=opmode, keep=rng.random() < 0.5, smode=rng.choice([0o644, 0o600]), nameOK=True,
                             tail=tail, nosparse=ns, via="cmd", stem="f")
                    x.update(invocation(x, rng, prog="xz"))
                    sc.append(x)
        # where the name comes from x names that look special: "-" is standard input only as a command-line operand
        for via in ("cmd", "files", "files0", "files_stdin"):
            for stem in ("-", "--", "-k", "f"):
                for opmode, ok in (("compress", True), ("decompress", True), ("decompress", False)):
                    x = dict(plain_reg, id=len(sc), opmode=opmode, keep=rng.random() < 0.3, smode=0o644, nameOK=ok, via=via, stem=stem, tail="data")
                    x.update(invocation(x, rng, prog="xz"))
                    sc.append(x)
    return sc

CATS = ("xzcat", "lzcat")
DEFAULT_DECOMPRESS = ("unxz", "xzcat", "unlzma", "lzcat")
SUFFIXES = [".foo", "x", "-s", ".b"]

def invocation(sc, rng, prog=None, place=None):
    """Turn the wanted flags of a scenario into the way xz is invoked: program name (xz, unxz, xzcat, lzma, unlzma,
    lzcat), and option tokens spread over XZ_DEFAULTS, XZ_OPT and the command line, with overridden decoys.
    The effective options are computed by spec/Args.tla, not here."""
    comp = sc["opmode"] == "compress"
    cands = ["xz"]
    if not comp and sc["stdout"]:
        cands += ["xzcat", "lzcat"]
    if not comp:
        cands += ["unxz", "unlzma"]
    if comp:
        cands += ["lzma"]
    prog = prog or (rng.choice(cands[1:]) if rng.random() < 0.4 else "xz")
    toks = []
    default_comp = prog not in DEFAULT_DECOMPRESS
    if comp != default_comp or rng.random() < 0.4:
        toks.append({"o": "z" if comp else "d"})
    if sc["keep"]: toks.append({"o": "k"})
    if sc["force"]: toks.append({"o": "f"})
    if sc["stdout"] and (prog not in CATS or rng.random() < 0.2): toks.append({"o": "c"})
    if sc["nowarn"]: toks.append({"o": "Q"})
    if sc.get("nosparse"): toks.append({"o": "n"})
    toks += [{"o": "q"}] * sc["quiet"]
    fmt = "lzma" if prog in ("lzma", "unlzma", "lzcat") else "auto"
    if rng.random() < 0.25:
        fmt = rng.choice(["xz", "lzma"]); toks.append({"o": "F", "v": fmt})
    custom = None
    if place or rng.random() < 0.35:
        custom = rng.choice(SUFFIXES); toks.append({"o": "S", "v": list(custom)})
    src = {"dflt": [], "xzopt": [], "cmd": []}
    where = {}
    for t in toks:
        w = place if (place and t["o"] in ("S", "k")) else rng.choice(["cmd", "cmd", "cmd", "xzopt", "dflt"])
        src[w].append(t); where[t["o"]] = w
    order = ["dflt", "xzopt", "cmd"]
    # decoys in an earlier source: the opposite mode, another suffix, another format
    for o, mk in (("z", lambda: {"o": "d" if comp else "z"}), ("d", lambda: {"o": "d" if comp else "z"}),
                  ("S", lambda: {"o": "S", "v": list(rng.choice([x for x in SUFFIXES if x != custom]))}),
                  ("F", lambda: {"o": "F", "v": "xz" if fmt == "lzma" else "lzma"})):
        if o in where and order.index(where[o]) > 0 and rng.random() < 0.5:
            src[rng.choice(order[:order.index(where[o])])].insert(0, mk())
    # source name aiming at the wanted "has a usable target name"
    nat = ".lzma" if fmt == "lzma" else ".xz"
    if comp:
        name = "f" if sc["nameOK"] else "f" + (custom if custom and rng.random() < 0.5 else nat)
    else:
        name = ("f" + (custom if custom and rng.random() < 0.5 else rng.choice([nat, ".txz", ".lz"]))) if sc["nameOK"] else rng.choice(["f", "f.bar"])
    # where the name comes from, and names that look like options / like "standard input"
    via = sc.get("via") or rng.choice(["cmd"] * 7 + ["files", "files0", "files_stdin"])
    stem = sc.get("stem") or (rng.choice(["-", "--", "-k", "-S"]) if rng.random() < 0.12 else "f")
    if stem != "f":
        name = stem + name[1:]
    return dict(prog=prog, dflt=src["dflt"], xzopt=src["xzopt"], cmd=src["cmd"], srcName=list(name), via=via,
                tail=sc.get("tail") or rng.choice(["data", "data", "hole", "hole", "allhole"]))

def tok_args(toks):
    out = []
    for t in toks:
        if t["o"] == "S":
            out.append("--suffix=" + "".join(t["v"]))
        elif t["o"] == "F":
            out.append("--format=" + t["v"])
        elif t["o"] == "n":
            out.append("--no-sparse")
        else:
            out.append("-" + t["o"])
    return out

LINE = re.compile(rb'^(\d+)\s+(\w+)\((.*)\)\s+= (-?\d+|\?)(.*)$')

def parse_strace(path, src, dst):
    """-> list of abstract calls on src / dst and attribute calls on the target descriptor."""
    calls = []
    dfd = None
    grp = []               # consecutive write / lseek calls on the target descriptor
    def flush():
        if not grp:
            return
        g = list(grp); del grp[:]
        fin = len(g) >= 2 and g[-2][0] == "l" and g[-1] == ("w", 1)       # lseek(SEEK_CUR) + one byte: the pending hole
        if fin:
            g = g[:-2]
        if g:
            calls.append(dict(call="data_dst"))
        if fin:
            calls.append(dict(call="finish_sparse"))
    qs, qd = b'"' + src + b'"', b'"' + dst + b'"'
    for raw in open(path, "rb").read().split(b"\n"):
        m = LINE.match(raw)
        if not m:
            continue
        name, args, ret = m.group(2).decode(), m.group(3), m.group(4)
        ok = ret not in (b"-1", b"?")
        if name in ("write", "lseek"):
            a0 = args.split(b",")[0].strip()
            if dfd is not None and a0 == dfd and ok:
                grp.append(("w", int(ret)) if name == "write" else ("l", int(ret)))
            continue
        before = len(calls)
        if name in ("openat", "open"):
            if qs in args and b"O_RDONLY" in args and b"O_DIRECTORY" not in args:
                calls.append(dict(call="open_src", nofollow=b"O_NOFOLLOW" in args))
            elif qd in args and b"O_CREAT" in args:
                mm = re.search(rb", (0[0-7]+)$", args)
                calls.append(dict(call="create_dst", excl=b"O_EXCL" in args, mode=int(mm.group(1), 8) if mm else -1))
                if ok:
                    dfd = ret
        elif name in ("unlink", "unlinkat"):
            if qd in args:
                calls.append(dict(call="unlink_dst"))
            elif qs in args:
                calls.append(dict(call="unlink_src"))
        elif name in ("newfstatat", "lstat", "stat"):
            if qs in args and not args.startswith(b"AT_FDCWD, \"\"") and b"AT_EMPTY_PATH" not in args:
                follow = not (name == "lstat" or b"AT_SYMLINK_NOFOLLOW" in args)
                calls.append(dict(call="stat_src", follow=follow))
        elif name == "fchown":
            a = [x.strip() for x in args.split(b",")]
            if a[1] != b"-1" and a[2] == b"-1":
                calls.append(dict(call="fchown", what="uid", val=int(a[1]), fd=a[0]))
            elif a[1] == b"-1" and a[2] != b"-1":
                calls.append(dict(call="fchown", what="gid", val=int(a[2]), fd=a[0]))
            else:
                calls.append(dict(call="fchown", what="both", fd=a[0]))
        elif name == "fchmod":
            a = [x.strip() for x in args.split(b",")]
            calls.append(dict(call="fchmod", mode=int(a[1], 8), fd=a[0]))
        elif name == "utimensat":
            ts = re.findall(rb"tv_sec=(\d+), tv_nsec=(\d+)", args)
            calls.append(dict(call="utimens", fd=args.split(b",")[0].strip(),
                              times=[int(s) * 10**9 + int(n) for s, n in ts]))
        if len(calls) > before and grp:
            # a call of interest ends the run of data calls that preceded it
            new = calls[before:]; del calls[before:]
            flush(); calls.extend(new)
    flush()
    return calls, dfd

def _feed_fifo(path, data, proc):
    t0 = time.time()
    while time.time() - t0 < 5 and proc.poll() is None:
        try:
            fd = os.open(path, os.O_WRONLY | os.O_NONBLOCK)
        except OSError:
            time.sleep(0.002)
            continue
        try:
            os.set_blocking(fd, True)
            os.write(fd, data)
        except OSError:
            pass
        os.close(fd)
        return

def run_scenario(ctx, bins, sc, pred, payloads, idx):
    """bins: dict name -> path (xz and the names it is installed under); payloads: {"xz": .., "lzma": ..}"""
    d = os.path.join(ctx.workdir, "files", "s%d" % idx)
    os.makedirs(d)
    # the effective options are the model's (spec/Args.tla), the wanted ones were only hints for the generator
    eff = pred["eff"]
    sc = dict(sc, opmode=eff["mode"], keep=eff["keep"], force=eff["force"], stdout=eff["stdout"], nowarn=eff["nowarn"],
              quiet=eff["quiet"], nameOK=pred["nameOK"])
    stdin_src = pred["stdinSrc"]
    if stdin_src:
        sc["stdout"] = True
    comp = sc["opmode"] == "compress"
    plain = PLAINS[sc["tail"]]
    src = "".join(sc["srcName"])
    dst = "".join(pred["dstName"]) if pred["nameOK"] else src + (".xz" if comp else ".out")
    if comp:
        data = plain
    else:
        data = payloads[("lzma" if eff["fmt"] == "lzma" else "xz", sc["tail"])] if sc["payloadOK"] else b"this is not a compressed file at all\n" * 3
    sp, dp = os.path.join(d, src), os.path.join(d, dst)
    real = sp            # the inode that carries mode/owner/times
    kind = sc["kind"]
    def mkreg(p):
        with open(p, "wb") as f:
            f.write(data)
        if sc["nlink"] > 1:
            os.link(p, os.path.join(d, "other_link"))
    if kind == "reg":
        mkreg(sp)
    elif kind == "lnk_reg":
        real = os.path.join(d, "real_file")
        mkreg(real)
        os.symlink("real_file", sp)
    elif kind == "lnk_dangling":
        os.symlink("no_such_file", sp); real = None
    elif kind == "fifo":
        os.mkfifo(sp)
    elif kind == "dir":
        os.mkdir(sp)
    else:
        real = None
    # "me" is the user xz runs as: root, or nobody for the scenarios with root = FALSE (then a source that is
    # not ours belongs to root, so that fchown() fails on its own, without fault injection)
    nonroot = not sc["root"]
    me_u, me_g = (NOBODY, NOBODY) if nonroot else (0, 0)
    suid = me_u if sc["uidSame"] else (0 if nonroot else SRC_UID)
    sgid = me_g if sc["gidSame"] else (0 if nonroot else SRC_GID)
    if nonroot:
        os.chown(d, NOBODY, NOBODY)
    xz_run = bins[sc["prog"]]
    if real:
        os.chown(real, suid, sgid)
        os.chmod(real, sc["smode"])
        os.utime(real, ns=(ATIME_NS, MTIME_NS))
    if sc["dstKind"] == "reg":
        with open(dp, "wb") as f:
            f.write(OLD)
        os.chmod(dp, 0o640)
        os.utime(dp, ns=(OLD_MTIME_NS, OLD_MTIME_NS))
    elif sc["dstKind"] == "dir":
        os.mkdir(dp)
    before_src, before_real, before_dst = U.snap(sp), (U.snap(real) if real else None), U.snap(dp)
    argv = ["strace", "-f", "-qq", "-o", os.path.join(d, "strace.log"),
            "-s", "2", "-e", "trace=openat,open,unlink,unlinkat,fchown,fchmod,utimensat,newfstatat,lstat,stat,write,lseek"]
    # the first fchown sets the owner, the second (if the groups differ) the group
    if nonroot:
        pass                                  # the kernel refuses by itself
    elif not sc["ownOK"] and not sc["grpOK"]:
        argv += ["-e", "inject=fchown:error=EPERM:when=1..2"]
    elif not sc["ownOK"]:
        argv += ["-e", "inject=fchown:error=EPERM:when=1"]
    elif not sc["grpOK"]:
        argv += ["-e", "inject=fchown:error=EPERM:when=2"]
    if not sc["chmodOK"]:
        argv += ["-e", "inject=fchmod:error=EPERM:when=1"]
    via = sc["via"]
    stdin_data = None
    if via == "cmd":
        argv += [xz_run, "-0"] + tok_args(sc["cmd"]) + ["--", src]
        if stdin_src:
            stdin_data = data
    else:
        sep = b"\0" if via == "files0" else b"\n"
        lst = sep + src.encode() + sep + sep
        if via == "files_stdin":
            argv += [xz_run, "-0"] + tok_args(sc["cmd"]) + ["--files"]
            stdin_data = lst
        else:
            with open(os.path.join(d, "names.list"), "wb") as f:
                f.write(lst)
            argv += [xz_run, "-0"] + tok_args(sc["cmd"]) + ["--files0=names.list" if via == "files0" else "--files=names.list"]
    env = U.tool_env()
    if sc["dflt"]:
        env["XZ_DEFAULTS"] = " ".join(tok_args(sc["dflt"]))
    if sc["xzopt"]:
        env["XZ_OPT"] = "  ".join(tok_args(sc["xzopt"])) + " "
    old_umask = os.umask(0o022)
    try:
        def drop():
            os.setgroups([]); os.setgid(NOBODY); os.setuid(NOBODY)
        p = subprocess.Popen(argv, cwd=d, stdin=subprocess.PIPE if stdin_data is not None else subprocess.DEVNULL, stdout=subprocess.PIPE, stderr=subprocess.PIPE,
                             env=env, preexec_fn=drop if nonroot else None)
        th = None
        if kind == "fifo":
            th = threading.Thread(target=_feed_fifo, args=(sp, data, p)); th.start()
        try:
            out, err = p.communicate(input=stdin_data, timeout=30)
        except subprocess.TimeoutExpired:
            p.kill(); p.communicate()
            with _LOCK:
                ctx.violation("files:hang:%s:%s" % (sc["opmode"], kind), "xz did not terminate within 30 s; the model terminates: %s" % json.dumps(sc),
                              dict(kind="file_scenario", scenario=sc, predicted=pred))
            return
        if th:
            th.join()
    finally:
        os.umask(old_umask)
    calls, dfd = parse_strace(os.path.join(d, "strace.log"), src.encode(), dst.encode())
    label = "%s:%s%s%s%s%s%s" % (sc["opmode"], kind, ":k" if sc["keep"] else "", ":f" if sc["force"] else "", ":c" if sc["stdout"] else "",
                                 "" if sc["prog"] == "xz" else ":as_" + sc["prog"], ":env" if (sc["dflt"] or sc["xzopt"]) else "") \
        + ("" if via == "cmd" else ":" + via) + (":stdin" if stdin_src else "") + ("" if sc["tail"] == "data" else ":" + sc["tail"])
    def bad(what, detail):
        with _LOCK:
            if ("files:%s:%s" % (what, label)) in _SEEN:
                return
            _SEEN.add("files:%s:%s" % (what, label))
            ctx.violation("files:%s:%s" % (what, label), detail + " | scenario=%s | xz stderr=%r" % (json.dumps(sc), err[:300]),
                          dict(kind="file_scenario", scenario=sc, predicted=pred, observed_calls=calls, argv=argv[argv.index(xz_run):], env={k: env.get(k) for k in ("XZ_DEFAULTS", "XZ_OPT")}))
    # ---- system calls
    want = pred["sys"]
    got_cmp = []
    for c in calls:
        g = {k: v for k, v in c.items() if k not in ("fd", "val", "times")}
        if c["call"] == "utimens":
            g["times"] = "src" if c["times"] == [ATIME_NS, MTIME_NS] else "other:%r" % (c["times"],)
        got_cmp.append(g)
        if c["call"] in ("fchown", "fchmod", "utimens") and dfd is not None and c["fd"] != dfd:
            bad("attr_call_wrong_fd", "%s on fd %r, target is fd %r" % (c["call"], c["fd"], dfd))
        if c["call"] == "fchown" and c["what"] in ("uid", "gid") and c["val"] != (suid if c["what"] == "uid" else sgid):
            bad("fchown_value", "fchown %s=%d, source has %d" % (c["what"], c["val"], suid if c["what"] == "uid" else sgid))
    if got_cmp != want:
        # first difference names the failure
        k = 0
        while k < min(len(got_cmp), len(want)) and got_cmp[k] == want[k]:
            k += 1
        w = want[k] if k < len(want) else {"call": "end"}
        g = got_cmp[k] if k < len(got_cmp) else {"call": "end"}
        bad("syscalls:%s_vs_%s" % (w["call"], g["call"]), "model expects %s, xz did %s (position %d of %s)" %
            (json.dumps(w), json.dumps(g), k, json.dumps(got_cmp)))
    # ---- exit status / stderr
    if p.returncode != pred["exit"]:
        bad("exit_status", "exit %s, model %s (messages %s)" % (p.returncode, pred["exit"], json.dumps(pred["msgs"])))
    if bool(err.strip()) != pred["stderr"]:
        bad("stderr_use", "stderr %s, model says %s" % ("used" if err.strip() else "empty", pred["stderr"]))
    # ---- what is left on disk
    after_src = U.snap(sp)
    if pred["srcThere"]:
        a, b = dict(after_src or {}), dict(before_src or {})
        a.pop("atime_ns", None); b.pop("atime_ns", None)
        if kind == "fifo":      # feeding the FIFO updates its times
            a.pop("mtime_ns", None); b.pop("mtime_ns", None)
        if a != b:
            bad("source_touched", "source must be left untouched: before %r after %r" % (before_src, after_src))
        if real and real != sp:
            a, b = dict(U.snap(real) or {}), dict(before_real); a.pop("atime_ns", None); b.pop("atime_ns", None)
            if a != b:
                bad("source_touched", "symlink target changed: before %r after %r" % (before_real, U.snap(real)))
    elif after_src is not None:
        bad("source_not_removed", "model: source removed after success; it is still there")
    elif real and real != sp and U.snap(real) is None:
        bad("symlink_target_removed", "the file behind the symlink was removed")
    pd = pred["dst"]
    after_dst = U.snap(dp)
    if not pd["there"]:
        if after_dst is not None:
            bad("target_exists", "model: no target file; found %r" % after_dst)
    elif not pd["fresh"]:
        if after_dst != before_dst or (pd["kind"] == "reg" and open(dp, "rb").read() != OLD):
            bad("existing_target_touched", "existing target must stay as it was: before %r after %r" % (before_dst, after_dst))
    else:
        if after_dst is None or not stat.S_ISREG(after_dst["mode"]):
            bad("target_missing", "model: a fresh regular target exists; found %r" % after_dst)
        else:
            m = stat.S_IMODE(after_dst["mode"])
            if m != pd["mode"]:
                bad("target_mode", "target mode %04o, model %04o (source %04o)" % (m, pd["mode"], sc["smode"]))
            if m & ~(sc["smode"] & 0o777) and m != 0o600:
                bad("target_mode_broader", "target mode %04o broader than source %04o" % (m, sc["smode"]))
            eu, eg = (suid if pd["uid"] == "src" else me_u), (sgid if pd["gid"] == "src" else me_g)
            if (after_dst["uid"], after_dst["gid"]) != (eu, eg):
                bad("target_owner", "target uid:gid %d:%d, model %d:%d" % (after_dst["uid"], after_dst["gid"], eu, eg))
            if pd["times"] == "src" and (after_dst["atime_ns"], after_dst["mtime_ns"]) != (ATIME_NS, MTIME_NS):
                bad("target_times", "target times %d/%d, source %d/%d" % (after_dst["atime_ns"], after_dst["mtime_ns"], ATIME_NS, MTIME_NS))
            content = open(dp, "rb").read()
            if comp:
                ret, dec, _ = U.libdecode(content, "auto")
                if ret != "STREAM_END" or dec != plain:
                    bad("target_content", "compressed target does not decode to the source (%s)" % ret)
            elif content != plain:
                bad("target_content", "decompressed target differs from the plain text")
    others = sorted(x for x in os.listdir(d) if x not in (src, dst, "strace.log", "other_link", "real_file", "names.list"))
    if others:
        bad("stray_files", "unexpected files created: %r" % others)
    # stdout carries the data exactly when the model reaches coding with --stdout
    coded = sc["stdout"] and pred["exit"] != 1 and not any(m["sev"] == "warn" and m["why"] not in ("owner", "group", "perms") for m in pred["msgs"])
    if sc["stdout"]:
        if coded:
            if comp:
                ret, dec, _ = U.libdecode(out, "auto")
                okc = ret == "STREAM_END" and dec == data
            else:
                okc = out == (plain if sc["payloadOK"] else data)
            if not okc:
                bad("stdout_content", "--stdout output is not the expected data (%d bytes)" % len(out))
        elif out:
            bad("stdout_content", "nothing should be written to stdout, got %d bytes" % len(out))
    elif out:
        bad("stdout_content", "output on stdout without --stdout (%d bytes)" % len(out))
    shutil.rmtree(d, ignore_errors=True)
