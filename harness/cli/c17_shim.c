/* C17 LD_PRELOAD shim: perturbations strace cannot produce faithfully.
 *
 *   C17_SHIM="short:<fn>:<trigger>:<k>"            fn in {read,write}: the k-th call of fn on the descriptor that
 *                                                  refers to <trigger> really transfers fewer bytes (a true short count)
 *   C17_SHIM="replace:<fn>:<trigger>:<k>:<victim>" fn in {read,write,close,fsync,lstat}: right before the k-th
 *                                                  call of fn on <trigger> "somebody else" renames <victim> to
 *                                                  <victim>.moved and puts a different file under the name
 * Paths are absolute.  Everything is done with real system calls, so strace records it.
 */
#define _GNU_SOURCE
#include <dlfcn.h>
#include <fcntl.h>
#include <stdio.h>
#include <stdlib.h>
#include <string.h>
#include <unistd.h>
#include <sys/stat.h>
#include <sys/syscall.h>

static int inited, mode_short, mode_replace, target_k, seen, fired;
static char fn[16], trigger[512], victim[512];

static void init(void)
{
	if (inited)
		return;
	inited = 1;
	const char *s = getenv("C17_SHIM");
	if (s == NULL)
		return;
	char op[16];
	int n = sscanf(s, "%15[^:]:%15[^:]:%511[^:]:%d:%511[^:]", op, fn, trigger, &target_k, victim);
	if (n >= 4 && strcmp(op, "short") == 0)
		mode_short = 1;
	else if (n == 5 && strcmp(op, "replace") == 0)
		mode_replace = 1;
}

static int fd_is_trigger(int fd)
{
	char link[64], buf[600];
	snprintf(link, sizeof(link), "/proc/self/fd/%d", fd);
	ssize_t n = readlink(link, buf, sizeof(buf) - 1);
	if (n <= 0)
		return 0;
	buf[n] = '\0';
	return strcmp(buf, trigger) == 0;
}

static int path_is_trigger(const char *p)
{
	char buf[4096];
	if (p[0] == '/')
		return strcmp(p, trigger) == 0;
	if (getcwd(buf, sizeof(buf) - 600) == NULL)
		return 0;
	strcat(buf, "/");
	strncat(buf, p, 590);
	return strcmp(buf, trigger) == 0;
}

static void do_replace(void)
{
	char a[600], b[600];
	snprintf(a, sizeof(a), "%s.new", victim);
	snprintf(b, sizeof(b), "%s.moved", victim);
	int fd = (int)syscall(SYS_openat, AT_FDCWD, a, O_WRONLY | O_CREAT | O_TRUNC, 0644);
	if (fd >= 0) {
		(void)!syscall(SYS_write, fd, "SOMEBODY ELSE'S FILE\n", 21);
		syscall(SYS_close, fd);
	}
	syscall(SYS_rename, victim, b);
	syscall(SYS_rename, a, victim);
}

/* returns 1 if this call is the selected one */
static int hit(const char *name, int is_trigger)
{
	init();
	if (fired || !(mode_short || mode_replace) || strcmp(name, fn) != 0 || !is_trigger)
		return 0;
	if (++seen != target_k)
		return 0;
	fired = 1;
	if (mode_replace)
		do_replace();
	return 1;
}

#define ACTIVE(name) (init(), (mode_short || mode_replace) && !fired && strcmp(name, fn) == 0)

/* tell the trace parser how much the caller really asked for: a recognisable no-op call */
static void announce(size_t n)
{
	syscall(SYS_lseek, -17, (long)n, 0);
}

ssize_t read(int fd, void *buf, size_t n)
{
	if (ACTIVE("read") && hit("read", fd_is_trigger(fd)) && mode_short && n > 1) {
		announce(n);
		n = n / 2 > 100 ? 100 : n / 2;
	}
	return syscall(SYS_read, fd, buf, n);
}

ssize_t write(int fd, const void *buf, size_t n)
{
	if (ACTIVE("write") && hit("write", fd_is_trigger(fd)) && mode_short && n > 1) {
		announce(n);
		n = n / 2;
	}
	return syscall(SYS_write, fd, buf, n);
}

int close(int fd)
{
	if (ACTIVE("close"))
		hit("close", fd_is_trigger(fd));
	return (int)syscall(SYS_close, fd);
}

int fsync(int fd)
{
	if (ACTIVE("fsync"))
		hit("fsync", fd_is_trigger(fd));
	return (int)syscall(SYS_fsync, fd);
}

int lstat(const char *path, struct stat *st)
{
	if (ACTIVE("lstat"))
		hit("lstat", path_is_trigger(path));
	return (int)syscall(SYS_newfstatat, AT_FDCWD, path, st, AT_SYMLINK_NOFOLLOW);
}
