"""C18, decoding side: every input (valid / corrupt / truncated / concatenated .xz .lzma .lz) goes through
xz -dc, xz -d, xz -t, xzdec and lzmadec; what the tools deliver is compared with the prediction of
spec/CliDecode.tla for the verdict that the in-process library decode (same decoder, same flags) gives."""
import os, glob, json, shutil, subprocess, ctypes as C
from . import c1819_lib as U
from lib.ctx import MachineryError

def sniff(head, fmt):
    """xz's own format detection (coder.c is_format_xz / is_format_lzip / is_format_lzma) for --format=fmt."""
    m = U.lz()
    is_xz = head[:6] == b"\xfd7zXZ\x00"
    is_lzip = head[:4] == b"LZIP"
    def is_lzma():
        if len(head) < 13:
            return False
        flt = m.Filter(); flt.id = m.FILTER_LZMA1; flt.options = None
        buf = (C.c_ubyte * 5)(*head[:5])
        if m.L().lzma_properties_decode(C.byref(flt), None, buf, 5) != m.OK:
            return False
        opt = C.cast(flt.options, C.POINTER(m.OptLzma)).contents
        ds = opt.dict_size
        C.CDLL(None).free(C.c_void_p(flt.options))
        if ds != 0xFFFFFFFF:
            d = (ds - 1) & 0xFFFFFFFF
            d |= d >> 2; d |= d >> 3; d |= d >> 4; d |= d >> 8; d |= d >> 16
            d = (d + 1) & 0xFFFFFFFF
            if d != ds or ds == 0:
                return False
        us = int.from_bytes(head[5:13], "little")
        if us != 0xFFFFFFFFFFFFFFFF and us > (1 << 38):
            return False
        return True
    if fmt == "auto":
        return "xz" if is_xz else "lzip" if is_lzip else "lzma" if is_lzma() else "none"
    if fmt == "xz":
        return "xz" if is_xz else "none"
    if fmt == "lzip":
        return "lzip" if is_lzip else "none"
    if fmt == "lzma":
        return "lzma" if is_lzma() else "none"
    raise ValueError(fmt)

def lib_verdict(data, decoder, flags, out_cap=1 << 24):
    """Drive a liblzma decoder the way the tools do (whole input, LZMA_FINISH at the end, continue after
    LZMA_UNSUPPORTED_CHECK).  -> dict(final=END|ERR, ret=name, unsup=n, out=bytes, trailing=bool)"""
    m = U.lz()
    c = m.Coder()
    if decoder == "stream":
        r = c.init("lzma_stream_decoder", m.UINT64_MAX, flags)
    elif decoder == "alone":
        r = c.init("lzma_alone_decoder", m.UINT64_MAX)
    elif decoder == "lzip":
        r = c.init("lzma_lzip_decoder", m.UINT64_MAX, flags)
    else:
        raise ValueError(decoder)
    if r != m.OK:
        raise MachineryError("decoder init: %s" % m.retname(r))
    ib = m.Buf(len(data), data); ob = m.Buf(out_cap)
    s = c.strm
    s.next_in = ib.addr; s.avail_in = len(data); s.next_out = ob.addr; s.avail_out = out_cap
    unsup = 0
    concatenated = bool(flags & m.CONCATENATED) and decoder != "alone"
    ret = m.OK
    for _ in range(100000):
        ret = c.code_raw(m.FINISH if (concatenated or True) else m.RUN)
        if ret == m.UNSUPPORTED_CHECK:
            unsup += 1
            continue
        if ret != m.OK:
            break
        if s.avail_out == 0:
            raise MachineryError("library oracle: output larger than %d" % out_cap)
    out = ob.data(out_cap - s.avail_out)
    trailing = s.avail_in > 0
    if not (ib.guards_ok() and ob.guards_ok()):
        raise MachineryError("guard bytes damaged in library decode")
    c.end()
    return dict(final="END" if ret == m.STREAM_END else "ERR", ret=m.retname(ret), unsup=unsup, out=out, trailing=trailing)

def oracle(tool, data, fmt, opt):
    """-> (lib record for CliDecode, decoded bytes, ret name)"""
    m = U.lz()
    if tool == "xzdec":
        v = lib_verdict(data, "stream", m.CONCATENATED)
        det = "xz"
    elif tool == "lzmadec":
        v = lib_verdict(data, "alone", 0)
        det = "lzma"
    else:
        det = sniff(data[:8192], fmt)
        if det == "none":
            return dict(det="none", final="ERR", unsup=0, trailing=False), b"", "FORMAT_ERROR(cli)"
        flags = (m.IGNORE_CHECK if opt.get("ignoreCheck") else m.TELL_UNSUPPORTED_CHECK) | (0 if opt["singleStream"] else m.CONCATENATED)
        v = lib_verdict(data, {"xz": "stream", "lzma": "alone", "lzip": "lzip"}[det], flags)
    return dict(det=det, final=v["final"], unsup=min(v["unsup"], 2), trailing=v["trailing"]), v["out"], v["ret"]

def table_from_plans(plans):
    t = {}
    for p in plans:
        o, l = p["opt"], p["lib"]
        t[(p["tool"], o["singleStream"], o["force"], o["nowarn"], o["quiet"], l["det"], l["final"], l["unsup"], l["trailing"])] = p["r"]
    return t

def predict(table, tool, opt, lib):
    return table[(tool, opt["singleStream"], opt["force"], opt["nowarn"], opt["quiet"], lib["det"], lib["final"], lib["unsup"], lib["trailing"])]

def corpus(ctx, xz, quick):
    """-> list of (name, bytes)"""
    rng = ctx.rng
    repo = os.environ.get("VERIF_REPO", "/repo")
    items = []
    for p in sorted(glob.glob(os.path.join(repo, "tests/files/*"))):
        if p.endswith((".xz", ".lzma", ".lz")) and os.path.getsize(p) < (1 << 20):
            items.append((os.path.basename(p), open(p, "rb").read()))
    # encoder output of the current tree, with truncations / bit flips / concatenations
    plains = [b"", b"a", bytes(20000), bytes(rng.getrandbits(8) for _ in range(3000)) * 9,
              (b"The quick brown fox. " * 1500) + bytes(9000) + b"tail"]
    encs = []
    for i, pl in enumerate(plains):
        for args, ext in ((["-F", "xz", "-1", "--block-size=16384", "-T2"], ".xz"), (["-F", "lzma", "-1"], ".lzma"),
                          (["-F", "xz", "-0", "-C", "sha256", "-T1"], ".xz")):
            r = U.run([xz, "-c"] + args, input=pl)
            if r.returncode != 0:
                raise MachineryError("cannot encode corpus item: %r" % r.stderr)
            encs.append(("enc%d%s" % (i, ext), r.stdout))
    items += encs
    n_mut = 40 if quick else 400
    for k in range(n_mut):
        name, data = rng.choice(encs + items[:80])
        if len(data) < 2:
            continue
        kind = rng.choice(["trunc", "flip", "flip", "cat", "garbage", "pad", "zeroext"])
        ext = os.path.splitext(name)[1]
        if kind == "trunc":
            d = data[:rng.randrange(len(data))]
        elif kind == "flip":
            pos = rng.randrange(len(data)); d = bytearray(data); d[pos] ^= 1 << rng.randrange(8); d = bytes(d)
        elif kind == "cat":
            o = rng.choice(encs)[1]; d = data + o
        elif kind == "garbage":
            d = data + bytes(rng.getrandbits(8) for _ in range(rng.choice([1, 3, 4, 5, 12, 100])))
        elif kind == "pad":
            d = data + bytes(rng.choice([1, 4, 8, 12, 4096]))
        else:
            d = data + bytes(3) + data
        items.append(("mut%d_%s_%s%s" % (k, kind, name.replace(".", "_"), ext), d))
    return items

TOOLS = ["xz_dc", "xz_d", "xz_t", "xzdec", "lzmadec"]

def run_input(ctx, bins, table, wd, idx, name, data, viol, variants):
    """All tools on one input. variants: list of (tool, opt, fmt, threads)."""
    xz = bins["xz"]
    for tool, opt, fmt, threads in variants:
        lib, decoded, retname = oracle(tool, data, fmt, opt)
        pred = predict(table, tool, {**opt, "force": opt["force"]}, lib)
        d = os.path.join(wd, "i%d" % idx)
        shutil.rmtree(d, ignore_errors=True); os.makedirs(d)
        ext = os.path.splitext(name)[1]
        src = os.path.join(d, "f" + ext)
        with open(src, "wb") as f:
            f.write(data)
        xa = ["-T%d" % threads] + (["-F", fmt] if fmt != "auto" else []) + (["--single-stream"] if opt["singleStream"] else []) \
            + (["--ignore-check"] if opt.get("ignoreCheck") else []) + (["-f"] if opt["force"] else []) \
            + (["-Q"] if opt["nowarn"] else []) + ["-q"] * opt["quiet"]
        if tool == "xz_dc":
            argv = [xz, "-dc"] + xa + ["f" + ext]
        elif tool == "xz_d":
            argv = [xz, "-d"] + xa + ["f" + ext]
        elif tool == "xz_t":
            argv = [xz, "-t"] + xa + ["f" + ext]
        elif tool == "xzdec":
            argv = [bins["xzdec"], "f" + ext]
        else:
            argv = [bins["lzmadec"], "f" + ext]
        r = U.run(argv, cwd=d)
        label = "%s:%s" % (tool, "T%d" % threads if tool.startswith("xz_") else "-")
        cls = "%s:%s%s%s" % (lib["det"], lib["final"], ":unsup" if lib["unsup"] else "", ":trailing" if lib["trailing"] else "")
        ctx.case(key=("decode", tool, json.dumps(opt, sort_keys=True), fmt, threads, name, len(data)))
        rep = dict(kind="decode_case", input=name, size=len(data), tool=tool, opt=opt, fmt=fmt, threads=threads, lib=lib,
                   lib_ret=retname, predicted=pred, argv=argv[1:], hexdata=data[:4096].hex())
        if r.returncode != pred["exit"]:
            viol("decode:exit_status:%s:%s" % (label, cls), "%s on %s: exit %d, model %d (library: %s, %d bytes decoded); stderr=%r" %
                 (tool, name, r.returncode, pred["exit"], retname, len(decoded), r.stderr[:200]), rep)
        want_out = decoded if pred["stdout"] == "decoded" else data if pred["stdout"] == "input" else b""
        if r.stdout != want_out:
            k = next((i for i in range(min(len(r.stdout), len(want_out))) if r.stdout[i] != want_out[i]), min(len(r.stdout), len(want_out)))
            viol("decode:stdout:%s:%s" % (label, cls), "%s on %s: stdout has %d bytes, library decoded %d before %s; first difference at %d" %
                 (tool, name, len(r.stdout), len(want_out), retname, k), rep)
        if tool.startswith("xz_") and bool(r.stderr.strip()) != pred["stderr"]:
            viol("decode:stderr:%s:%s" % (label, cls), "%s on %s: stderr %r, model says used=%s" % (tool, name, r.stderr[:200], pred["stderr"]), rep)
        left = sorted(os.listdir(d))
        if tool == "xz_d":
            # the target name: f (or f.tar); when the suffix is unknown nothing can be created
            want_left = (["f"] if pred["srcRemoved"] else ["f", "f" + ext]) if pred["file"] else ["f" + ext]
            if left != want_left:
                viol("decode:target_file:%s:%s" % (label, cls), "xz -d on %s: directory %r, model %r (library: %s)" % (name, left, want_left, retname), rep)
            elif pred["file"] and open(os.path.join(d, "f"), "rb").read() != decoded:
                viol("decode:target_content:%s:%s" % (label, cls), "xz -d on %s: target differs from the library decode" % name, rep)
        elif left != ["f" + ext]:
            viol("decode:stray_file:%s" % label, "%s on %s left %r" % (tool, name, left), rep)
        shutil.rmtree(d, ignore_errors=True)
