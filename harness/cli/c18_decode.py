"""C18, decoding side: every input (valid / corrupt / truncated / concatenated .xz .lzma .lz) goes through
xz -dc, xz -d, xz -t, xzdec and lzmadec; what the tools deliver is compared with the prediction of
spec/CliDecode.tla for the verdict that the in-process library decode (same decoder, same flags) gives."""
import os, glob, json, shutil, subprocess, ctypes as C
from . import c1819_lib as U
from lib.ctx import MachineryError

def sniff(head, fmt):
    """xz's own format detection (coder.c is_format_xz / is_format_lzip / is_format_lzma) for --format=fmt."""
    m = U.lz()
    is_xz = head[:6] == b"\xfd7zXZ\x00"
    is_lzip = head[:4] == b"LZIP"
    def is_lzma():
        if len(head) < 13:
            return False
        flt = m.Filter(); flt.id = m.FILTER_LZMA1; flt.options = None
        buf = (C.c_ubyte * 5)(*head[:5])
        if m.L().lzma_properties_decode(C.byref(flt), None, buf, 5) != m.OK:
            return False
        opt = C.cast(flt.options, C.POINTER(m.OptLzma)).contents
        ds = opt.dict_size
        C.CDLL(None).free(C.c_void_p(flt.options))
        if ds != 0xFFFFFFFF:
            d = (ds - 1) & 0xFFFFFFFF
            d |= d >> 2; d |= d >> 3; d |= d >> 4; d |= d >> 8; d |= d >> 16
            d = (d + 1) & 0xFFFFFFFF
            if d != ds or ds == 0:
                return False
        us = int.from_bytes(head[5:13], "little")
        if us != 0xFFFFFFFFFFFFFFFF and us >= (1 << 38):
            return False
        return True
    if fmt == "auto":
        return "xz" if is_xz else "lzip" if is_lzip else "lzma" if is_lzma() else "none"
    if fmt == "xz":
        return "xz" if is_xz else "none"
    if fmt == "lzip":
        return "lzip" if is_lzip else "none"
    if fmt == "lzma":
        return "lzma" if is_lzma() else "none"
    raise ValueError(fmt)

def _raw_filters():
    m = U.lz()
    opts = m.lzma_opts(preset=0)
    return m.make_filters([(m.FILTER_LZMA2, opts)])

def lib_verdict(data, decoder, flags, out_cap=1 << 22, memlimit=None):
    """Drive a liblzma decoder the way the tools do (whole input, LZMA_FINISH, continue after
    LZMA_UNSUPPORTED_CHECK).  -> dict(final, ret, unsupFirst, unsupLater, out, trailing, consumed)"""
    m = U.lz()
    c = m.Coder()
    keep = None
    ml = m.UINT64_MAX if memlimit is None else memlimit
    if decoder == "stream":
        r = c.init("lzma_stream_decoder", ml, flags)
    elif decoder == "alone":
        r = c.init("lzma_alone_decoder", ml)
    elif decoder == "lzip":
        r = c.init("lzma_lzip_decoder", ml, flags)
    elif decoder == "raw":
        keep = _raw_filters()
        r = c.init("lzma_raw_decoder", keep)
    else:
        raise ValueError(decoder)
    if r != m.OK:
        raise MachineryError("decoder init: %s" % m.retname(r))
    ib = m.Buf(len(data), data); ob = m.Buf(out_cap)
    s = c.strm
    s.next_in = ib.addr; s.avail_in = len(data); s.next_out = ob.addr; s.avail_out = out_cap
    uf = ul = 0
    ret = m.OK
    for _ in range(100000):
        ret = c.code_raw(m.FINISH)
        if ret == m.UNSUPPORTED_CHECK:
            if s.total_out == 0:
                uf += 1          # before any output: what coder_init() sees while decoding the first headers
            else:
                ul += 1
            continue
        if ret != m.OK:
            break
        if s.avail_out == 0:
            raise MachineryError("library oracle: output larger than %d" % out_cap)
    out = ob.data(out_cap - s.avail_out)
    consumed = len(data) - s.avail_in
    if not (ib.guards_ok() and ob.guards_ok()):
        raise MachineryError("guard bytes damaged in library decode")
    c.end()
    return dict(final="END" if ret == m.STREAM_END else "ERR", ret=m.retname(ret), unsupFirst=min(uf, 1),
                unsupLater=min(ul + max(0, uf - 1), 2), out=out, trailing=consumed < len(data), consumed=consumed)

_CACHE = {}
DET_BY_MODEL = {}       # item index -> "lzma" | "none" as predicted by spec/LzmaSniff.tla
MEMLIMIT = 64 << 20

def header_items(ctx, xz, plans, quick):
    """.lzma files for the header cases of MCLzmaSniff: (name, bytes, fmt, meta).  The body is a real LZMA1 stream
    encoded with the lc/lp/pb of the properties byte when that is valid."""
    rng = ctx.rng
    seen = set(); cases = []
    for p in plans:
        k = json.dumps(p, sort_keys=True)
        if k not in seen:
            seen.add(k); cases.append(p)
    def val32(d): return d["hi"] * 65536 + d["lo"]
    def is_key(p):        # 2^n and 2^n + 2^(n-1): always replayed
        v = val32(p["dict"])
        if p["usize"] != [65535] * 4 or p["len"] != 13 or v in (0, 0xFFFFFFFF, 0xFFFFFFFE):
            return True                       # the boundary cases of size, length and dictionary size
        if p["props"] != 93:
            return p["props"] in (0, 4, 5, 36, 37, 44, 45, 224, 225, 255)
        return v & (v - 1) == 0 or (v % 3 == 0 and (v // 3) & (v // 3 - 1) == 0)
    if quick:
        keyc = [p for p in cases if is_key(p)]
        rest = [p for p in cases if not is_key(p)]
        rng.shuffle(rest)
        cases = keyc + rest[:120]
    bodies = {}
    plain = b"header domain payload \x00\x01\x02 " * 25
    def body(props):
        if props not in bodies:
            pb, r = divmod(props, 45); lp, lc = divmod(r, 9)
            if props <= 224 and lc + lp <= 4:
                enc = U.run([xz, "-c", "-F", "lzma", "--lzma1=preset=0,lc=%d,lp=%d,pb=%d" % (lc, lp, pb)], input=plain)
                if enc.returncode != 0:
                    raise MachineryError("cannot encode with lc=%d lp=%d pb=%d: %r" % (lc, lp, pb, enc.stderr))
                bodies[props] = enc.stdout[13:]
            else:
                bodies[props] = body(93)
        return bodies[props]
    items = []
    for n, p in enumerate(cases):
        us = b"".join(int(x).to_bytes(2, "little") for x in reversed(p["usize"]))
        if p["usize"] == [0, 0, 0, 700]:
            us = len(plain).to_bytes(8, "little")          # "known size": the real one
        hdr = bytes([p["props"]]) + val32(p["dict"]).to_bytes(4, "little") + us
        data = (hdr + body(p["props"]))[:p["len"]] if p["len"] < 13 else hdr + body(p["props"])
        items.append(("hdr%d_p%d_d%08x.lzma" % (n, p["props"], val32(p["dict"])), data, "auto",
                      dict(sniff=p["sniff"], dict=val32(p["dict"]))))
    return items

def oracle(tool, data, fmt, opt, key=None):
    """-> (lib record for CliDecode, decoded bytes, ret name)"""
    m = U.lz()
    ck = (key, tool if tool in ("xzdec", "lzmadec") else "xz", fmt, bool(opt.get("ignoreCheck")), opt["singleStream"], opt.get("memlimit"))
    if key is not None and ck in _CACHE:
        return _CACHE[ck]
    if tool == "xzdec":
        v = lib_verdict(data, "stream", m.CONCATENATED); det = "xz"
    elif tool == "lzmadec":
        v = lib_verdict(data, "alone", 0); det = "lzma"
    else:
        det = "raw" if fmt == "raw" else sniff(data[:8192], fmt)
        if key in DET_BY_MODEL and fmt in ("auto", "lzma"):
            # header cases of MCLzmaSniff: the recognition is the TLA+ model's; the mirror above must agree
            if DET_BY_MODEL[key] != det:
                raise MachineryError("harness mirror of is_format_lzma disagrees with spec/LzmaSniff.tla on %r" % data[:13].hex())
            det = DET_BY_MODEL[key]
        if det == "none":
            res = (dict(det="none", final="ERR", unsupFirst=0, unsupLater=0, trailing=False, atBoundary=False), b"", "FORMAT_ERROR(cli)")
            if key is not None:
                _CACHE[ck] = res
            return res
        flags = (m.IGNORE_CHECK if opt.get("ignoreCheck") else m.TELL_UNSUPPORTED_CHECK) | (0 if opt["singleStream"] else m.CONCATENATED)
        v = lib_verdict(data, {"xz": "stream", "lzma": "alone", "lzip": "lzip", "raw": "raw"}[det], flags, memlimit=opt.get("memlimit"))
    res = (dict(det=det, final=v["final"], unsupFirst=v["unsupFirst"], unsupLater=v["unsupLater"], trailing=v["trailing"],
                atBoundary=(v["consumed"] % 8192 == 0)), v["out"], v["ret"])
    if key is not None:
        _CACHE[ck] = res
    return res

# ------------------------------------------------------------------ inputs
def _crc32(b):
    import zlib
    return zlib.crc32(b).to_bytes(4, "little")

def patch_check_id(stream, cid):
    """Rewrite the Check ID in Stream Header and Footer of a single .xz Stream whose check has the same size
    (CRC32 -> reserved ID 2 or 3: four bytes)."""
    s = bytearray(stream)
    s[7] = cid; s[8:12] = _crc32(bytes(s[6:8]))
    s[-3] = cid; s[-12:-8] = _crc32(bytes(s[-8:-2]))
    return bytes(s)

def tuned(xz, args, rng, target, step=1):
    """Incompressible plaintext whose encoding with `xz args` is exactly `target` bytes."""
    pool = bytes(rng.getrandbits(8) for _ in range(target + 64))
    n = target - 64
    seen = set()
    for _ in range(400):
        r = U.run([xz, "-c"] + args, input=pool[:n])
        if r.returncode != 0:
            raise MachineryError("tuned(): %r" % r.stderr)
        d = len(r.stdout) - target
        if d == 0:
            return pool[:n], r.stdout
        if n in seen:
            n += 1 if d < 0 else -1
            if n in seen:
                pool = bytes(rng.getrandbits(8) for _ in range(target + 64)); seen = set(); n = target - 64
            continue
        seen.add(n)
        n -= d
        n = max(1, min(len(pool), n))
    raise MachineryError("could not tune a payload to %d bytes for %s" % (target, args))

def directed(ctx, xz, quick):
    """Inputs constructed for the model's target classes. -> list of (name, bytes, fmt)"""
    rng = ctx.rng
    items = []
    # --- .lzma and raw: stream end on / off the input-buffer boundary, with / without bytes after it
    for fmt, args, ext in (("auto", ["-F", "lzma", "-0"], ".lzma"), ("raw", ["-F", "raw", "--lzma2=preset=0"], ".raw")):
        for k in ([1] if quick else [1, 2, 3]):
            _, enc = tuned(xz, args, rng, 8192 * k)
            items.append(("aligned%d%s" % (k, ext), enc, fmt))
            for g in ([b"GARBAGE"] if quick else [b"G", b"GARBAGE", bytes(1), bytes(8192), enc]):
                items.append(("aligned%d_trail%d%s" % (k, len(g), ext), enc + g, fmt))
        pl = bytes(rng.getrandbits(8) for _ in range(rng.choice([3000, 9000])))
        enc = U.run([xz, "-c"] + args, input=pl).stdout
        if len(enc) % 8192 == 0:
            enc = U.run([xz, "-c"] + args, input=pl + b"x").stdout
        items.append(("unaligned" + ext, enc, fmt))
        items.append(("unaligned_trail" + ext, enc + b"GARBAGE", fmt))
    # --- concatenated .xz with per-Stream check classes
    def stream(cls, i):
        text = (b"stream %d of class %s\n" % (i, cls.encode())) * (3 + i)
        if cls == "none":
            return U.run([xz, "-c", "-0", "-C", "none"], input=text).stdout
        st = U.run([xz, "-c", "-0", "-C", "crc32"], input=text).stdout
        return patch_check_id(st, rng.choice([2, 3])) if cls == "unsup" else st
    import itertools
    seqs = [q for n in (1, 2, 3) for q in itertools.product(("ok", "none", "unsup"), repeat=n)]
    need = [("ok",), ("ok", "unsup"), ("ok", "unsup", "unsup"), ("unsup",), ("unsup", "unsup"), ("unsup", "unsup", "unsup"),
            ("none", "ok", "unsup"), ("unsup", "ok")]
    if quick:
        rest = [q for q in seqs if q not in need]; rng.shuffle(rest)
        seqs = need + rest[:4]
    for q in seqs:
        data = b"".join(stream(c, i) for i, c in enumerate(q))
        items.append(("cat_" + "_".join(q) + ".xz", data, "auto"))
        if q in need or not quick:
            # Stream Padding up to the buffer boundary: the decoder consumes exactly 8192 bytes
            items.append(("cat_" + "_".join(q) + "_pad8192.xz", data + bytes(8192 - len(data)), "auto"))
    return items

def corpus(ctx, xz, quick):
    """-> list of (name, bytes, fmt)"""
    rng = ctx.rng
    repo = os.environ.get("VERIF_REPO", "/repo")
    items = []
    for p in sorted(glob.glob(os.path.join(repo, "tests/files/*"))):
        if p.endswith((".xz", ".lzma", ".lz")) and os.path.getsize(p) < (1 << 20):
            items.append((os.path.basename(p), open(p, "rb").read()))
    plains = [b"", b"a", bytes(20000), bytes(rng.getrandbits(8) for _ in range(3000)) * 9,
              (b"The quick brown fox. " * 1500) + bytes(9000) + b"tail"]
    encs = []
    for i, pl in enumerate(plains):
        for args, ext in ((["-F", "xz", "-1", "--block-size=16384", "-T2"], ".xz"), (["-F", "lzma", "-1"], ".lzma"),
                          (["-F", "xz", "-0", "-C", "sha256", "-T1"], ".xz")):
            r = U.run([xz, "-c"] + args, input=pl)
            if r.returncode != 0:
                raise MachineryError("cannot encode corpus item: %r" % r.stderr)
            encs.append(("enc%d%s" % (i, ext), r.stdout))
    items += encs
    n_mut = 40 if quick else 400
    for k in range(n_mut):
        name, data = rng.choice(encs + items[:80])
        if len(data) < 2:
            continue
        kind = rng.choice(["trunc", "flip", "flip", "cat", "garbage", "pad", "zeroext"])
        ext = os.path.splitext(name)[1]
        if kind == "trunc":
            d = data[:rng.randrange(len(data))]
        elif kind == "flip":
            pos = rng.randrange(len(data)); d = bytearray(data); d[pos] ^= 1 << rng.randrange(8); d = bytes(d)
        elif kind == "cat":
            o = rng.choice(encs)[1]; d = data + o
        elif kind == "garbage":
            d = data + bytes(rng.getrandbits(8) for _ in range(rng.choice([1, 3, 4, 5, 12, 100])))
        elif kind == "pad":
            d = data + bytes(rng.choice([1, 4, 8, 12, 4096]))
        else:
            d = data + bytes(3) + data
        items.append(("mut%d_%s_%s%s" % (k, kind, name.replace(".", "_"), ext), d))
    return [(n, d, "auto") for n, d in items]

TOOLS = ["xz_dc", "xz_d", "xz_t", "xzdec", "lzmadec"]
SRCS = ["file", "stdin_file", "stdin_pipe"]

def make_case(cid, idx, name, data, tool, src, opt, fmt, threads):
    lib, decoded, retname = oracle(tool, data, fmt, opt, key=idx)
    mopt = dict(singleStream=opt["singleStream"], force=opt["force"], nowarn=opt["nowarn"], quiet=opt["quiet"])
    return dict(id=cid, idx=idx, name=name, tool=tool, src=src, opt=opt, mopt=mopt, fmt=fmt, threads=threads, lib=lib,
                decoded=decoded, retname=retname)

def input_class(idx, data, fmt):
    """Class of the input as xz sees it (its own flags): what the Targets of GenCliDecode are stated over."""
    lib, _, _ = oracle("xz_dc", data, fmt, dict(singleStream=False, force=False, nowarn=False, quiet=0), key=idx)
    return lib

def run_case(ctx, bins, wd, case, data, pred, viol):
    xz = bins["xz"]
    tool, src, opt, fmt, threads, name = case["tool"], case["src"], case["opt"], case["fmt"], case["threads"], case["name"]
    lib, decoded, retname = case["lib"], case["decoded"], case["retname"]
    d = os.path.join(wd, "i%d" % case["id"])
    shutil.rmtree(d, ignore_errors=True); os.makedirs(d)
    ext = os.path.splitext(name)[1]
    fn = "f" + ext
    with open(os.path.join(d, fn), "wb") as f:
        f.write(data)
    xa = ["-T%d" % threads] + (["-F", fmt, "--lzma2=preset=0", "-S", ".raw"] if fmt == "raw" else ["-F", fmt] if fmt != "auto" else []) \
        + (["--single-stream"] if opt["singleStream"] else []) \
        + (["--memlimit-decompress=%d" % opt["memlimit"]] if opt.get("memlimit") else []) \
        + (["--ignore-check"] if opt.get("ignoreCheck") else []) + (["-f"] if opt["force"] else []) \
        + (["-Q"] if opt["nowarn"] else []) + ["-q"] * opt["quiet"]
    argv = {"xz_dc": [xz, "-dc"] + xa, "xz_d": [xz, "-d"] + xa, "xz_t": [xz, "-t"] + xa,
            "xzdec": [bins["xzdec"]], "lzmadec": [bins["lzmadec"]]}[tool]
    if src == "file":
        r = U.run(argv + [fn], cwd=d, stdin=subprocess.DEVNULL)
    elif src == "stdin_file":
        with open(os.path.join(d, fn), "rb") as fh:
            r = U.run(argv, cwd=d, stdin=fh)
    else:
        r = U.run(argv, cwd=d, input=data)
    label = "%s:%s:%s" % (tool, "T%d" % threads if tool.startswith("xz_") else "-", src)
    cls = "%s:%s%s%s%s%s" % (lib["det"], lib["final"], ":unsup1st" if lib["unsupFirst"] else "", ":unsupLater" if lib["unsupLater"] else "",
                             ":trailing" if lib["trailing"] else "", ":aligned" if lib["atBoundary"] and lib["trailing"] else "")
    ctx.case(key=("decode", tool, src, json.dumps(opt, sort_keys=True), fmt, threads, name, len(data)))
    rep = dict(kind="decode_case", input=name, size=len(data), tool=tool, src=src, opt=opt, fmt=fmt, threads=threads, lib=lib,
               lib_ret=retname, predicted=pred, argv=argv[1:], hexdata=data[:2048].hex())
    if r.returncode != pred["exit"]:
        viol("decode:exit_status:%s:%s" % (label, cls), "%s (%s) on %s: exit %d, model %d (library: %s, %d bytes decoded); stderr=%r" %
             (tool, src, name, r.returncode, pred["exit"], retname, len(decoded), r.stderr[:200]), rep)
    want_out = decoded if pred["stdout"] == "decoded" else data if pred["stdout"] == "input" else b""
    if r.stdout != want_out:
        k = next((i for i in range(min(len(r.stdout), len(want_out))) if r.stdout[i] != want_out[i]), min(len(r.stdout), len(want_out)))
        viol("decode:stdout:%s:%s" % (label, cls), "%s (%s) on %s: stdout has %d bytes, library decoded %d before %s; first difference at %d" %
             (tool, src, name, len(r.stdout), len(want_out), retname, k), rep)
    if tool.startswith("xz_") and bool(r.stderr.strip()) != pred["stderr"]:
        viol("decode:stderr:%s:%s" % (label, cls), "%s (%s) on %s: stderr %r, model says used=%s" % (tool, src, name, r.stderr[:200], pred["stderr"]), rep)
    left = sorted(os.listdir(d))
    if tool == "xz_d" and src == "file":
        want_left = (["f"] if pred["srcRemoved"] else sorted(["f", fn])) if pred["file"] else [fn]
        if left != want_left:
            viol("decode:target_file:%s:%s" % (label, cls), "xz -d on %s: directory %r, model %r (library: %s)" % (name, left, want_left, retname), rep)
        elif pred["file"] and open(os.path.join(d, "f"), "rb").read() != decoded:
            viol("decode:target_content:%s:%s" % (label, cls), "xz -d on %s: target differs from the library decode" % name, rep)
    elif left != [fn]:
        viol("decode:stray_file:%s" % label, "%s on %s left %r" % (tool, name, left), rep)
    shutil.rmtree(d, ignore_errors=True)
