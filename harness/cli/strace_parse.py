"""Parse `strace -f -o FILE` output of one xz run into the events of spec/TraceXzFilePair.tla.

Only the main thread is followed.  Every system call that touches the source(s), the target(s), the
target directory, the --files list, stdout (with --stdout) or the process' signal state is mapped to
one event; calls that touch them in a way the model has no action for become `Unexpected` events
(which no action matches, so the trace is rejected).  Everything else (memory, threads, locale,
stderr messages, the self-pipe write of the signal handler) is dropped.
"""
import re

# signals_block()/signals_unblock(): SIG_BLOCK / SIG_UNBLOCK of a positive set that contains the termination
# signals (glibc itself only uses ~[...] or [] masks with SIG_BLOCK / SIG_SETMASK)
MASK = re.compile(r"^SIG_(BLOCK|UNBLOCK), \[([A-Z0-9_ ]+)\]")

def hooked(args):
    m = MASK.match(args)
    if m and ({"INT", "TERM", "HUP", "PIPE"} & set(m.group(2).split())):
        return m.group(1), m.group(2).split()
    return None
LINE = re.compile(r"^(\d+)\s+(.*)$")
CALL = re.compile(r"^(\w+)\((.*)\)\s+= (-?\d+|\?|0x[0-9a-f]+)(?: (E[A-Z0-9]+) \([^)]*\))?(?: \(.*\))?\s*$")
STR = re.compile(r'"((?:[^"\\]|\\.)*)"')


class Roles:
    """Which path plays which role.  Paths as xz is given them (relative to its cwd)."""
    def __init__(self, srcs, dsts, dirname, listfile=None, stdout=False, expect_out=None, expect_plain=None):
        self.srcs = list(srcs); self.dsts = list(dsts); self.dirname = dirname
        self.listfile = listfile; self.stdout = stdout
        self.expect_out = list(expect_out or [None] * len(self.srcs))   # expected size of each output
        # expected content of each output (bytes or None): a hole may only replace zeros of that content
        self.expect_plain = list(expect_plain or [None] * len(self.srcs))


def _merge(text):
    """Yield (pid, line) with <unfinished ...>/<... resumed> pairs joined; entry order kept."""
    pend = {}
    out = []
    for raw in text.splitlines():
        m = LINE.match(raw)
        if not m:
            continue
        pid, rest = int(m.group(1)), m.group(2)
        if rest.endswith("<unfinished ...>"):
            out.append([pid, None])
            pend[pid] = (len(out) - 1, rest[:-len("<unfinished ...>")].rstrip())
            continue
        m2 = re.match(r"^<\.\.\. (\w+) resumed>(.*)$", rest)
        if m2 and pid in pend:
            idx, head = pend.pop(pid)
            out[idx][1] = head + m2.group(2)
            continue
        out.append([pid, rest])
    for pid, (idx, head) in pend.items():       # never resumed (killed inside the call)
        out[idx][1] = head + ") = ?"
    return [(p, l) for p, l in out if l is not None]


def _res(ret, errno):
    if ret == "?":
        return None
    if errno is None:
        return "ok"
    return {"EINTR": "eintr", "ENOENT": "noent"}.get(errno, "err")


def parse(text, roles, sigsend=None, cwd=None):
    """sigsend: (syscall name, k, SIG) - a signal was injected at the k-th call of that name made by the
    main thread; a SigSend event is emitted right before it.
    Returns dict(events=[...], calls=[(name, k, event-or-None)...], injected=n, errors=[...])."""
    lines = _merge(text)
    if not lines:
        return dict(events=[], calls=[], injected=0, problems=["empty trace"])
    main = lines[0][0]
    ev = []; calls = []; problems = []
    count = {}
    fdrole = {}           # fd -> (role, f)
    started = False
    curf = 0
    pos = {}              # f -> bytes of output so far (target) ; "out" -> absolute stdout offset
    outbase = 0
    injected = 0
    pipe_fds = set()
    shim_req = None       # the LD_PRELOAD shim announced the count the caller really asked for
    nsrc = len(roles.srcs)

    def path_role(p):
        if p in roles.srcs:
            return ("src", roles.srcs.index(p) + 1)
        if p in roles.dsts and not roles.stdout:
            return ("dst", roles.dsts.index(p) + 1)
        if p == roles.dirname:
            return ("dir", 0)
        if roles.listfile and p == roles.listfile:
            return ("list", 0)
        for q in roles.srcs + roles.dsts:
            if p.startswith(q) and p[len(q):] in (".new", ".moved"):
                return ("env", (roles.srcs + roles.dsts).index(q))
        if p.startswith(roles.dirname + "/"):
            return ("unknown", 0)
        return (None, 0)

    def emit(e, **kw):
        d = {"e": e}; d.update(kw); ev.append(d); return d

    def full_after(f, to):
        exp = roles.expect_out[f - 1] if 1 <= f <= nsrc else None
        if exp is None:
            return False
        if to == "out":
            return pos.get("out", 0) - outbase == exp
        return pos.get(f, 0) == exp

    for pid, l in lines:
        if pid != main:
            continue
        if l.startswith("+++ "):
            m = re.match(r"\+\+\+ killed by (SIG\w+)", l)
            if m:
                s = m.group(1)[3:]
                emit("Killed") if s == "KILL" else emit("Died", sig=s)
            continue
        if l.startswith("--- "):
            m = re.match(r"--- SIG(\w+) \{.*si_code=(\w+)", l)
            if m and started and m.group(2) != "SI_TKILL":
                emit("SigHandler", sig=m.group(1))
            continue
        m = CALL.match(l)
        if not m:
            continue
        name, args, ret, errno = m.group(1), m.group(2), m.group(3), m.group(4)
        count[name] = count.get(name, 0) + 1
        k = count[name]
        if "(INJECTED)" in l:
            injected += 1
        res = _res(ret, errno)
        strs = STR.findall(args)
        if cwd:
            strs = [x[len(cwd) + 1:] if x.startswith(cwd + "/") else x for x in strs]
        a0 = args.split(",")[0].strip()
        fd = int(a0) if re.fullmatch(r"-?\d+", a0) else None
        n_before = len(ev)
        # ---- bookkeeping that is needed before the region of interest starts
        if name in ("pipe", "pipe2"):
            m2 = re.match(r"\[(\d+), (\d+)\]", args)
            if m2:
                pipe_fds.update((int(m2.group(1)), int(m2.group(2))))
        if name == "openat" and strs:
            role, f = path_role(strs[0])
            if role == "list" and res == "ok":
                fdrole[int(ret)] = ("list", 0)
        if not started:
            if (name == "rt_sigprocmask" and hooked(args)) or (name == "read" and fdrole.get(fd, ("", 0))[0] == "list"):
                started = True
            else:
                continue
        if sigsend and name == sigsend[0] and k == sigsend[1] and sigsend[2] != "KILL":
            emit("SigSend", sig=sigsend[2])
            n_before = len(ev)
        if res is None and name not in ("exit_group",):
            calls.append((name, k, None))
            continue                                        # killed on entry: not executed
        role, f = fdrole.get(fd, (None, 0)) if fd is not None else (None, 0)
        if fd == 1 and roles.stdout:
            role, f = "out", curf
        # ---- the calls
        if name == "rt_sigprocmask":
            h = hooked(args)
            if h:
                emit("Block" if h[0] == "BLOCK" else "Unblock", set=h[1])
        elif name == "openat" and strs:
            prole, pf = path_role(strs[0])
            if prole == "src":
                curf = pf
                emit("OpenSrc", f=pf, res=res, nofollow="O_NOFOLLOW" in args)
                if res == "ok":
                    fdrole[int(ret)] = ("src", pf)
            elif prole == "dir":
                emit("OpenDir", res=res, directory="O_DIRECTORY" in args)
                if res == "ok":
                    fdrole[int(ret)] = ("dir", 0)
            elif prole == "dst":
                emit("OpenDst", f=pf, res=res, excl=("O_EXCL" in args and "O_CREAT" in args), trunc="O_TRUNC" in args,
                     errno=errno or "")
                if res == "ok":
                    fdrole[int(ret)] = ("dst", pf); pos[pf] = 0
            elif prole == "unknown":
                emit("Unexpected", call=l[:120])
        elif name in ("newfstatat", "fstat", "lstat", "stat"):
            if "AT_EMPTY_PATH" in args or name == "fstat":
                if role == "src":
                    emit("FstatSrc", f=f, res=res)
                elif role in ("dst", "out"):
                    emit("FstatDst", f=f, to=role, res=res)
            elif strs:
                prole, pf = path_role(strs[0])
                nofollow = "AT_SYMLINK_NOFOLLOW" in args or name == "lstat"
                if prole == "src":
                    emit("StatSrc", f=pf, nofollow=nofollow, res=res)
                elif prole == "dst":
                    emit("StatDst", f=pf, nofollow=nofollow, res=res)
        elif name == "fadvise64":
            if role == "src":
                emit("Fadvise", f=f, res=res)
        elif name == "read":
            m2 = re.search(r", (\d+)\s*$", args)
            req = int(m2.group(1)) if m2 else -1
            if shim_req is not None:
                req, shim_req = shim_req, None
            n = int(ret) if res == "ok" else -1
            if role == "src":
                kk = res if res != "ok" else ("eof" if n == 0 else "full" if n == req else "short")
                emit("Read", f=f, k=kk, req=req, n=n)
            elif role == "list":
                emit("ListRead", k=(res if res != "ok" else "eof" if n == 0 else "data"), res=res)
            elif role in ("dst", "dir", "out"):
                emit("Unexpected", call=l[:120])
        elif name == "write":
            m2 = re.search(r", (\d+)\s*$", args)
            req = int(m2.group(1)) if m2 else -1
            if shim_req is not None:
                req, shim_req = shim_req, None
            n = int(ret) if res == "ok" else -1
            if role in ("dst", "out"):
                key = "out" if role == "out" else f
                if res == "ok":
                    pos[key] = pos.get(key, 0) + n
                kk = res if res != "ok" else ("all" if n == req else "short")
                emit("Write", f=f, to=role, k=kk, full=(kk == "all" and full_after(f, role)), req=req, n=n)
            elif role in ("src", "dir", "list"):
                emit("Unexpected", call=l[:120])
            # fd 2 (messages) and the self-pipe of the signal handler are not file-pair events
        elif name == "lseek":
            if fd == -17:
                shim_req = int(args.split(",")[1])
            elif role in ("dst", "out"):
                key = "out" if role == "out" else f
                before = pos.get(key, 0)
                try:
                    off = int(args.split(",")[1])
                except ValueError:
                    off = 0
                if res == "ok":
                    pos[key] = int(ret)
                # do the skipped bytes lie inside this file's content and are they zeros there?
                plain = roles.expect_plain[f - 1] if 1 <= f <= nsrc else None
                own = True
                if plain is not None and "SEEK_CUR" in args and off > 0:
                    a = before - (outbase if role == "out" else 0)
                    own = 0 <= a and a + off <= len(plain) and not any(plain[a:a + off])
                emit("Lseek", f=f, to=role, res=res, whence=("CUR" if "SEEK_CUR" in args else "OTHER"), off=off, own=own)
            elif role == "src":
                emit("Unexpected", call=l[:120])
        elif name == "fcntl":
            if fd == 1 and roles.stdout:
                emit("FcntlOut", cmd=("GETFL" if "F_GETFL" in args else "SETFL" if "F_SETFL" in args else "OTHER"), res=res)
        elif name == "fchown":
            if role == "dst":
                emit("Fchown", f=f, res=res)
        elif name == "fchmod":
            if role == "dst":
                emit("Fchmod", f=f, res=res)
        elif name in ("utimensat", "futimens"):
            if role == "dst":
                emit("Utimens", f=f, res=res)
        elif name in ("fsync", "fdatasync"):
            if role == "dst":
                emit("FsyncDst", f=f, res=res)
            elif role == "dir":
                emit("FsyncDir", res=res)
        elif name == "close":
            if role == "src":
                emit("CloseSrc", f=f, res=res); fdrole.pop(fd, None)
            elif role == "dst":
                emit("CloseDst", f=f, res=res); fdrole.pop(fd, None)
            elif role == "dir":
                emit("CloseDir", res=res); fdrole.pop(fd, None)
            elif role == "list":
                emit("ListClose", res=res); fdrole.pop(fd, None)
            elif fd == 1:
                emit("CloseStdout", res=res)
            elif fd == 2:
                emit("CloseStderr", res=res)
        elif name in ("unlink", "unlinkat") and strs:
            prole, pf = path_role(strs[0])
            if prole == "src":
                emit("UnlinkSrc", f=pf, res=res)
            elif prole == "dst":
                emit("UnlinkDst", f=pf, res=res)
            elif prole in ("dir", "list", "unknown"):
                emit("Unexpected", call=l[:120])
        elif name in ("rename", "renameat", "renameat2") and len(strs) >= 2:
            prole, pf = path_role(strs[0])
            if prole in ("src", "dst") and strs[1] == strs[0] + ".moved":
                emit("Env", what=prole, f=pf, res=res)        # the shim playing "somebody else"
            elif prole == "env":
                pass
            else:
                emit("Unexpected", call=l[:120])
        elif name == "rt_sigaction":
            m2 = re.match(r"SIG(\w+), \{sa_handler=SIG_DFL", args)
            if m2:
                emit("SigDfl", sig=m2.group(1))
        elif name in ("tgkill", "kill", "tkill"):
            m2 = re.search(r"SIG(\w+)\)?$", args)
            emit("Raise", sig=m2.group(1) if m2 else "?")
        elif name == "exit_group":
            emit("Exit", status=int(a0) if re.fullmatch(r"\d+", a0) else -1)
        elif name in ("ftruncate", "truncate", "pwrite64", "pread64", "dup", "dup2", "dup3", "link", "linkat",
                      "symlink", "symlinkat", "chmod", "fchmodat", "chown", "fchownat", "sendfile", "copy_file_range",
                      "fallocate", "mkdir", "rmdir"):
            if role in ("src", "dst", "dir") or any(path_role(s)[0] in ("src", "dst", "dir", "unknown") for s in strs):
                emit("Unexpected", call=l[:120])
        if roles.stdout and name == "openat" and strs and path_role(strs[0])[0] == "src":
            outbase = pos.get("out", outbase)
        calls.append((name, k, ev[n_before]["e"] if len(ev) > n_before else None))
    return dict(events=ev, calls=calls, injected=injected, problems=problems, main=main)
