"""C19, names: replay of the Suffix model's predictions (GenSuffix PLAN lines) into the real xz.

Every case is one file in its own directory, named after the abstract name with the abstract characters
turned into bytes ('o' = "any other byte": space, newline, non-UTF-8, quotes, upper case ...).  Cases
with the same (operation, format, custom suffix, byte mapping) share one xz invocation, whose exit status
is the fold of the per-file outcomes (0 if nothing was skipped, 2 if something was)."""
import os, json, shutil
from . import c1819_lib as U
from lib.ctx import MachineryError

OTHER = [b"o", b" ", b"\n", b"\xff", b"\xc3\xa9", b"\x80\x81", b"*", b"\\", b"'", b"\t", b"X", b"Z", b"A",
         b"\"", b"$(id)", b"\x01", b"\xe2\x80\xae", b"?", b"~", b"\x7f"]
DOTS = (b".", b"..")
PLAIN = b"C19 payload \x00\x01\xff line\n" * 5

def conc(seq, other):
    return b"".join(other if c == "o" else c.encode() for c in seq)

class Payloads:
    def __init__(self, xz, workdir):
        self.d = {}
        for fmt, args in (("xz", ["-F", "xz"]), ("lzma", ["-F", "lzma"]), ("raw", ["-F", "raw"])):
            r = U.run([xz, "-0", "-c"] + args, input=PLAIN)
            if r.returncode != 0:
                raise MachineryError("cannot build %s payload: %r" % (fmt, r.stderr))
            self.d[fmt] = (r.stdout, PLAIN)
        lzf = os.path.join(os.environ.get("VERIF_REPO", "/repo"), "tests/files/good-1-v1.lz")
        data = open(lzf, "rb").read()
        ret, out, _ = U.libdecode(data, "lzip")
        if ret != "STREAM_END":
            raise MachineryError("cannot decode the lzip sample with the library: %s" % ret)
        self.d["lzip"] = (data, out)

def cases_from_plan(p):
    """One PLAN line -> list of (op, fmt, expect_record, back_record)."""
    out = []
    for key, fmt in (("cx", "xz"), ("cl", "lzma"), ("cr", "raw")):
        out.append(("compress", fmt, p[key], p["b" + key[1]]))
    out.append(("decompress", "auto", p["da"], None))
    out.append(("decompress", "raw", p["dr"], None))
    return out

def interesting(p):
    return (p["exc"] or any(p[k]["kind"] == "skip" for k in ("cx", "cl", "cr"))
            or any(p[k]["kind"] == "name" for k in ("da", "dr")))

def usable_name(b):
    return b not in (b"", b".", b"..") and len(b) < 200

def run_name_cases(ctx, xz, pay, plans, budget):
    """plans: parsed PLAN lines.  Runs at most `budget` file cases.  Returns number executed."""
    rng = ctx.rng
    groups = {}
    n = 0
    for p in plans:
        other = rng.choice(OTHER) if ("o" in p["name"] or "o" in p["custom"]) else b"o"
        name = conc(p["name"], other)
        cust = conc(p["custom"], other)
        if not usable_name(name):
            continue
        for op, fmt, exp, back in cases_from_plan(p):
            if n >= budget:
                break
            if exp["kind"] == "fatal":
                key = ("fatal", op, fmt, cust)
                if key not in groups:
                    groups[key] = []
                if len(groups[key]) < 2:
                    groups[key].append((p, name, exp, back, other))
                    n += 1
                continue
            dash = name.startswith(b"-") and name != b"-" and rng.random() < 0.5
            gk = ("dash", op, fmt, cust, other, n) if dash else (op, op, fmt, cust, other)
            groups.setdefault(gk, []).append((p, name, exp, back, other))
            n += 1
    done = 0
    root = os.path.join(ctx.workdir, "names")
    for gi, (gk, items) in enumerate(groups.items()):
        for off in range(0, len(items), 150):
            done += _run_group(ctx, xz, pay, root, "g%d_%d" % (gi, off), gk, items[off:off + 150])
    return done

def _args(op, fmt, cust, decfmt=None):
    a = ["-z" if op == "compress" else "-d", "-0", "--no-sync"]
    if op == "compress" or fmt == "raw":
        a += ["-F", fmt]
    elif decfmt and decfmt != "auto":
        a += ["-F", decfmt]
    if cust:
        a += [b"--suffix=" + cust]
    return a

def _payload(pay, op, fmt, rng):
    if op == "compress":
        return PLAIN, None, None
    if fmt == "raw":
        return pay.d["raw"][0], pay.d["raw"][1], "raw"
    k = rng.choice(["xz", "lzma", "lzip"])
    return pay.d[k][0], pay.d[k][1], rng.choice(["auto", k])

def _same(a, b):
    """lstat snapshots equal except for the access time (reading the file may update it)."""
    if a is None or b is None:
        return a is b
    return {k: v for k, v in a.items() if k != "atime_ns"} == {k: v for k, v in b.items() if k != "atime_ns"}

_SEEN = set()

def _viol(ctx, key, detail, gk, item):
    if key in _SEEN:          # one report per failure mode
        return
    _SEEN.add(key)
    p, name, exp, back, other = item
    ctx.violation(key, detail, dict(kind="name_case", group=[str(x) for x in gk], plan=p, name=repr(name),
                                    other=repr(other)))

def _run_group(ctx, xz, pay, root, gname, gk, items):
    tag, op, fmt, cust, other = gk[0], gk[1], gk[2], gk[3], (gk[4] if len(gk) > 4 else b"o")
    gdir = os.path.join(root, gname)
    os.makedirs(gdir)
    data, plain, decfmt = _payload(pay, op, fmt, ctx.rng)
    if decfmt in ("xz", "lzma", "lzip", "auto") and op == "decompress" and fmt != "raw":
        pass
    paths = []
    before = []
    for i, it in enumerate(items):
        d = os.path.join(gdir, "d%d" % i)
        os.mkdir(d)
        fp = os.path.join(d.encode(), it[1])
        with open(fp, "wb") as f:
            f.write(data)
        os.utime(fp, ns=(1500000000123456789, 1400000000987654321))
        paths.append(b"d%d/" % i + it[1])
        before.append(U.snap(fp))
    # ---- fatal configurations: nothing may be touched, exit status 1
    if tag == "fatal":
        r = U.run([xz] + _args(op, fmt, cust) + ["--"] + paths, cwd=gdir)
        for i, it in enumerate(items):
            ctx.case(key=("fatal", op, fmt, cust, it[1]))
            left = os.listdir(os.path.join(gdir, "d%d" % i).encode())
            if r.returncode != 1 or left != [it[1]]:
                _viol(ctx, "names:fatal_config:%s:%s" % (op, fmt),
                      "xz %s -F %s -S %r must be refused (exit 1, nothing touched): exit=%s left=%r stderr=%r" %
                      (op, fmt, cust, r.returncode, left, r.stderr[:300]), gk, it)
        shutil.rmtree(gdir, ignore_errors=True)
        return len(items)
    if tag == "dash":
        # a name with a leading dash given as such (after --) from inside its directory
        r = U.run([xz] + _args(op, fmt, cust, decfmt) + ["--", items[0][1]], cwd=os.path.join(gdir, "d0"))
    else:
        r = U.run([xz] + _args(op, fmt, cust, decfmt) + ["--"] + paths, cwd=gdir)
    nskip = sum(1 for it in items if it[2]["kind"] == "skip")
    # a predicted target "." / ".." is the directory itself: creating it fails (error, source kept)
    ndot = sum(1 for it in items if it[2]["kind"] == "name" and conc(it[2]["name"], it[4]) in DOTS)
    expect_rc = 1 if ndot else 2 if nskip else 0
    if r.returncode != expect_rc:
        _viol(ctx, "names:exit_status:%s:%s" % (op, fmt),
              "xz %s -F %s -S %r over %d files (%d to be skipped): exit %s, model says %s; stderr=%r" %
              (op, fmt, cust, len(items), nskip, r.returncode, expect_rc, r.stderr[:600]), gk, items[0])
    errl = r.stderr.split(b"\n")
    second = []
    for i, it in enumerate(items):
        p, name, exp, back, oth = it
        ctx.case(key=(op, fmt, cust, name))
        d = os.path.join(gdir, "d%d" % i).encode()
        left = sorted(os.listdir(d))
        if exp["kind"] == "skip":
            fp = os.path.join(d, name)
            ok = left == [name] and _same(U.snap(fp), before[i]) and open(fp, "rb").read() == data
            if not ok:
                _viol(ctx, "names:skip_not_skipped:%s:%s:%s" % (op, fmt, exp["why"]),
                      "model: %r is skipped (%s) by %s -F %s -S %r and left untouched; directory now %r" %
                      (name, exp["why"], op, fmt, cust, left), gk, it)
            mine = [l for l in errl if (b"d%d/" % i) in l]
            if tag != "dash" and not any(b"skipping" in l for l in mine):
                _viol(ctx, "names:skip_without_warning:%s:%s" % (op, fmt),
                      "no 'skipping' warning for %r: %r" % (name, r.stderr[:400]), gk, it)
            if exp["why"] == "has_suffix" and tag != "dash":
                suf = conc(exp["suf"], oth)
                if suf.isascii() and suf.decode().isprintable() and not any((b"'" + suf + b"' suffix") in l for l in mine):
                    _viol(ctx, "names:skip_names_other_suffix:%s" % fmt,
                          "warning for %r should name suffix %r: %r" % (name, suf, mine), gk, it)
        else:
            want = conc(exp["name"], oth)
            if want in DOTS:
                fp = os.path.join(d, name)
                if not (left == [name] and _same(U.snap(fp), before[i])):
                    _viol(ctx, "names:dot_target:%s:%s" % (op, fmt), "target %r is the directory: source must stay; now %r" % (want, left), gk, it)
                continue
            if left != [want]:
                _viol(ctx, "names:target_name:%s:%s" % (op, fmt),
                      "model: %s -F %s -S %r of %r creates %r and removes the source; directory now %r; stderr=%r" %
                      (op, fmt, cust, name, want, left, r.stderr[:300]), gk, it)
                continue
            fp = os.path.join(d, want)
            if op == "decompress":
                if open(fp, "rb").read() != plain:
                    _viol(ctx, "names:content:decompress", "decompressed content differs for %r" % name, gk, it)
            elif fmt != "raw" and (i % 8 == 0):
                ret, out, _ = U.libdecode(open(fp, "rb").read(), "auto")
                if ret != "STREAM_END" or out != PLAIN:
                    _viol(ctx, "names:content:compress", "compressed file of %r does not decode (%s)" % (name, ret), gk, it)
            if back is not None and back["kind"] != "none":
                second.append((i, it, want))
    # ---- round trip: decompress what was created, with the same -S
    if second:
        bfmt = "raw" if fmt == "raw" else "auto"
        if tag == "dash":
            i, it, want = second[0]
            r2 = U.run([xz] + _args("decompress", bfmt, cust) + ["--", want], cwd=os.path.join(gdir, "d%d" % i))
        else:
            r2 = U.run([xz] + _args("decompress", bfmt, cust) + ["--"] + [b"d%d/" % i + w for i, it, w in second], cwd=gdir)
        nsk = sum(1 for i, it, w in second if it[3]["kind"] == "skip")
        nd2 = sum(1 for i, it, w in second if it[3]["kind"] == "name" and conc(it[3]["name"], it[4]) in DOTS)
        if r2.returncode != (1 if nd2 else 2 if nsk else 0):
            _viol(ctx, "names:exit_status:roundtrip:%s" % fmt, "round-trip decompress exit %s, model %s; stderr=%r" %
                  (r2.returncode, 2 if nsk else 0, r2.stderr[:400]), gk, second[0][1])
        for i, it, want in second:
            p, name, exp, back, oth = it
            ctx.case(key=("back", fmt, cust, name))
            d = os.path.join(gdir, "d%d" % i).encode()
            left = sorted(os.listdir(d))
            fin = want if back["kind"] == "skip" else conc(back["name"], oth)
            if fin in DOTS:
                fin = want
            if left != [fin]:
                _viol(ctx, "names:roundtrip:%s" % fmt,
                      "model: %r -> %r -> %r (-F %s -S %r, documented exception=%s); directory now %r" %
                      (name, want, fin, fmt, cust, p["exc"], left), gk, it)
            elif back["kind"] == "name" and fin != want and open(os.path.join(d, fin), "rb").read() != PLAIN:
                _viol(ctx, "names:content:roundtrip", "round trip of %r changed the content" % name, gk, it)
    shutil.rmtree(gdir, ignore_errors=True)
    return len(items) + len(second)
