"""C18, output side: plaintexts built from the Sparse model's buffer sequences (scaled to the real 8 KiB
unit) are compressed, then decompressed by the real xz into every kind of sink under strace.  The
write/lseek/fcntl calls on the output descriptor are validated against spec/TraceSparse.tla, the final bytes
and size are compared with the in-process library decode."""
import os, re, json, subprocess, fcntl, shutil
from . import c1819_lib as U
from lib import tlc
from lib.ctx import MachineryError

B = 8192
SPLITS = [1, 7, 8, 64, 4095, 4096, 4097, 8184, 8191]
SHORTS = [1, 7, 100, 4095, 4096, 8191]
OLD = b"OLD-CONTENT-" * 3            # 36 bytes of previous file content

def realise(bufs, rng):
    """model buffers (B = 2) -> plaintext bytes."""
    out = bytearray()
    def chunk(bit, n):
        if not bit:
            return bytes(n)
        b = bytearray(rng.getrandbits(8) | 1 for _ in range(n))
        return bytes(b)
    for b in bufs:
        if len(b) == 2:
            s = rng.choice(SPLITS)
            out += chunk(b[0], s) + chunk(b[1], B - s)
        elif len(b) == 1:
            out += chunk(b[0], rng.choice(SHORTS))
    return bytes(out)

def rechunk(data):
    return [[len(data[i:i + B]), not any(data[i:i + B])] for i in range(0, len(data), B)]

SINKS = ["newfile", "pipe", "trunc", "eof", "mid", "append", "append_mid", "beyond"]

LINE = re.compile(rb'^(\d+)\s+(\w+)\((.*?)\)\s+= (-?\d+|\?)(.*)$')

def parse(path, outfd_name=None):
    """strace log -> list of sys events on the output descriptor."""
    evs = []
    fd = b"1" if outfd_name is None else None
    pend = None
    for raw in open(path, "rb").read().split(b"\n"):
        m = LINE.match(raw)
        if not m:
            continue
        name, args, ret, tail = m.group(2).decode(), m.group(3), m.group(4), m.group(5)
        if name == "openat" and outfd_name is not None and (b'"' + outfd_name + b'"') in args and b"O_CREAT" in args:
            if ret not in (b"-1", b"?"):
                fd = ret
            continue
        if fd is None:
            continue
        a = [x.strip() for x in args.split(b",")]
        if a[0] != fd:
            continue
        if name == "write":
            if ret == b"-1":
                continue                      # EAGAIN on a full pipe: retried after poll()
            req = int(a[-1]); got = int(ret)
            if pend is not None:              # continuation of a partial write
                pend[1] -= got
                if pend[1] <= 0:
                    evs.append({"e": "sys", "call": "write", "len": pend[0]}); pend = None
            elif got < req:
                pend = [req, req - got]
            else:
                evs.append({"e": "sys", "call": "write", "len": req})
        elif name == "lseek":
            wh = a[2].decode().replace("SEEK_", "")
            evs.append({"e": "sys", "call": "lseek", "whence": wh, "arg": int(a[1]), "ret": int(ret)})
        elif name == "fcntl":
            if a[1] == b"F_GETFL":
                evs.append({"e": "sys", "call": "getfl", "append": b"O_APPEND" in tail, "nonblock": b"O_NONBLOCK" in tail})
            elif a[1] == b"F_SETFL":
                evs.append({"e": "sys", "call": "setfl", "append": b"O_APPEND" in args, "nonblock": b"O_NONBLOCK" in args})
    return evs

def expected_bytes(old, start, data):
    if not data:
        return old
    base = old + bytes(max(0, start - len(old)))
    return base[:start] + data + base[start + len(data):]

def run_case(ctx, xz, wd, idx, comp, plain, sink, threads, sparse, hists, viol):
    """One decompression into one sink.  Appends (label, events) to hists."""
    d = os.path.join(wd, "c%d" % idx)
    os.makedirs(d)
    src = os.path.join(d, "in.xz")
    with open(src, "wb") as f:
        f.write(comp)
    log = os.path.join(d, "st.log")
    base = ["strace", "-f", "-qq", "-s", "0", "-o", log, "-e", "trace=write,lseek,fcntl,openat", xz, "-T%d" % threads]
    if not sparse:
        base.append("--no-sparse")
    label = "%s:T%d:%s" % (sink, threads, "sparse" if sparse else "nosparse")
    cfg = dict(e="Reset", kind="stdout_reg", size=0, off=0, append=False, nonblock=False, sparse=sparse, decompress=True,
               bufs=rechunk(plain))
    got = None; st_size = None; end = None
    if sink == "newfile":
        cfg["kind"] = "newfile"
        r = subprocess.run(base + ["-dk", "in.xz"], cwd=d, stdin=subprocess.DEVNULL, stdout=subprocess.PIPE,
                           stderr=subprocess.PIPE, env=U.tool_env(), timeout=120)
        outp = os.path.join(d, "in")
        if os.path.exists(outp):
            got = open(outp, "rb").read(); st_size = os.stat(outp).st_size
        evs = parse(log, b"in")
        end = dict(e="End", size=st_size if st_size is not None else -1, off=0, append=False, nonblock=False,
                   success=r.returncode == 0)
        want = plain
    elif sink == "pipe":
        cfg["kind"] = "stdout_pipe"
        r = subprocess.run(base + ["-dc", "in.xz"], cwd=d, stdin=subprocess.DEVNULL, stdout=subprocess.PIPE,
                           stderr=subprocess.PIPE, env=U.tool_env(), timeout=120)
        got = r.stdout
        evs = parse(log)
        end = dict(e="End", size=0, off=0, append=False, nonblock=False, success=r.returncode == 0)
        want = plain
    else:
        outp = os.path.join(d, "out.bin")
        old = b"" if sink == "trunc" else OLD
        with open(outp, "wb") as f:
            f.write(old)
        flags = os.O_WRONLY | (os.O_APPEND if sink.startswith("append") else 0)
        fd = os.open(outp, flags)
        off = {"trunc": 0, "eof": len(old), "mid": 5, "append": 0, "append_mid": 7, "beyond": len(old) + 10000}[sink]
        os.lseek(fd, off, os.SEEK_SET)
        cfg.update(size=len(old), off=off, append=sink.startswith("append"))
        try:
            r = subprocess.run(base + ["-dc", "in.xz"], cwd=d, stdin=subprocess.DEVNULL, stdout=fd,
                               stderr=subprocess.PIPE, env=U.tool_env(), timeout=120)
            fl = fcntl.fcntl(fd, fcntl.F_GETFL)
            pos = os.lseek(fd, 0, os.SEEK_CUR)
        finally:
            os.close(fd)
        got = open(outp, "rb").read(); st_size = os.stat(outp).st_size
        evs = parse(log)
        end = dict(e="End", size=st_size, off=pos, append=bool(fl & os.O_APPEND), nonblock=bool(fl & os.O_NONBLOCK),
                   success=r.returncode == 0)
        start = len(old) if sink.startswith("append") else off
        want = expected_bytes(old, start, plain)
    ctx.case(key=("sparse", label, plain[:64], len(plain), idx))
    if r.returncode != 0:
        viol("sparse:exit_status:%s" % label, "xz -d of a valid file exits %d: %r" % (r.returncode, r.stderr[:300]), dict(sink=sink))
    if got != want:
        k = next((i for i in range(min(len(got or b""), len(want))) if got[i] != want[i]), min(len(got or b""), len(want)))
        viol("sparse:content:%s" % label, "output differs from old content + library decode: got %s bytes, want %d, first difference at %d"
             % (None if got is None else len(got), len(want), k), dict(sink=sink, bufs=cfg["bufs"], plain_len=len(plain)))
    if st_size is not None and st_size != len(want):
        viol("sparse:size:%s" % label, "st_size %d, expected %d" % (st_size, len(want)), dict(sink=sink, bufs=cfg["bufs"]))
    hists.append((label, [cfg] + evs + [end]))
    shutil.rmtree(d, ignore_errors=True)

def validate(ctx, hists, viol, name="TraceSparse"):
    """Batched validation with TraceSparse (accepted iff every event is consumed).  Returns #rejected."""
    rejected = 0
    hs = list(hists)
    rounds = 0
    while hs and rounds < 8:
        rounds += 1
        events = []; starts = []
        for label, evs in hs:
            starts.append(len(events)); events.extend(evs)
        path = os.path.join(ctx.workdir, "%s.%d.ndjson" % (name, rounds))
        with open(path, "w") as f:
            for ev in events:
                f.write(json.dumps(ev) + "\n")
        r = tlc.run("TraceSparse", workers=1, timeout=900, env={"TRACE": path}, deadlock=False)
        m = None
        for m in re.finditer(r'<<"MAXL", (\d+)>>', r.out):
            pass
        if m is None:
            raise MachineryError("TraceSparse did not report a position:\n" + r.out[-2000:])
        maxl = int(m.group(1))
        r.violation = None if maxl == len(events) + 1 else r.violation
        if maxl == len(events) + 1:
            r.error = None
            ctx.add_tlc("%s#%d" % (name, rounds), r)
            ctx.add_traces(len(hs))
            return rejected
        r.error = None; r.violation = None
        ctx.add_tlc("%s#%d" % (name, rounds), r)
        bad = min(maxl - 1, len(events) - 1)          # 0-based index of the first event not consumed
        hi = max(i for i, st in enumerate(starts) if st <= bad)
        label, evs = hs[hi]
        idx = bad - starts[hi]
        # confirm alone
        p1 = os.path.join(ctx.workdir, "%s.single.ndjson" % name)
        with open(p1, "w") as f:
            for ev in evs:
                f.write(json.dumps(ev) + "\n")
        r1 = tlc.run("TraceSparse", workers=1, timeout=300, env={"TRACE": p1}, deadlock=False)
        m1 = None
        for m1 in re.finditer(r'<<"MAXL", (\d+)>>', r1.out):
            pass
        if m1 is None:
            raise MachineryError("TraceSparse failed on a single trace:\n" + r1.out[-2000:])
        k = int(m1.group(1))
        if k == len(evs) + 1:
            raise MachineryError("trace rejected in batch but accepted alone: %s" % label)
        rejected += 1
        e = evs[min(k - 1, len(evs) - 1)]
        viol("trace:%s:%s" % (label, e.get("call", e["e"])),
             "recorded output system calls are not a behaviour of Sparse: stuck at event %d %s (trace %s)"
             % (k - 1, json.dumps(e), json.dumps(evs)[:1500]), dict(kind="trace", label=label, events=evs, stuck_at=k - 1))
        ctx.add_traces(hi)
        hs = hs[hi + 1:]
    return rejected
