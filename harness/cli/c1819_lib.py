"""Helpers shared by the C18 / C19 checks: in-process library decode (the oracle the CLI tools are
compared with), running the built tools, lstat snapshots."""
import os, subprocess, ctypes as C
from lib import build
from lib.ctx import MachineryError

_lz = None

def lz():
    global _lz
    if _lz is None:
        from harness.pydrv import lz as m
        m.load(build.lib("asan")["so"])
        _lz = m
    return _lz

def libdecode(data, kind="stream", flags=None, out_cap=None, memlimit=None):
    """Decode `data` with a liblzma decoder driven to its final verdict.
    kind: stream | auto | alone | lzip.  Returns (retname, output_bytes, consumed)."""
    m = lz()
    c = m.Coder()
    ml = m.UINT64_MAX if memlimit is None else memlimit
    if flags is None:
        flags = m.CONCATENATED
    if kind == "stream":
        r = c.init("lzma_stream_decoder", ml, flags)
    elif kind == "auto":
        r = c.init("lzma_auto_decoder", ml, flags)
    elif kind == "alone":
        r = c.init("lzma_alone_decoder", ml)
    elif kind == "lzip":
        r = c.init("lzma_lzip_decoder", ml, flags)
    else:
        raise ValueError(kind)
    if r != m.OK:
        raise MachineryError("decoder init failed: %s" % m.retname(r))
    cap = out_cap if out_cap is not None else max(1 << 16, len(data) * 16 + (1 << 16))
    res = m.run_coder(c, data, out_cap=cap)
    c.end()
    if not res["guard_ok"]:
        raise MachineryError("guard bytes damaged during library decode")
    return m.retname(res["ret"]), res["out"], res["consumed"]

def tool_env():
    e = dict(os.environ)
    for k in ("LD_PRELOAD", "XZ_OPT", "XZ_DEFAULTS", "ASAN_OPTIONS", "UBSAN_OPTIONS"):
        e.pop(k, None)
    e["LC_ALL"] = "C"
    return e

def run(argv, cwd=None, stdin=None, timeout=120, stdout=subprocess.PIPE, input=None):
    """Run a tool; returns CompletedProcess (bytes)."""
    if stdin is None and input is None:
        stdin = subprocess.DEVNULL          # a tool that wrongly turns to standard input must not wait for the terminal
    try:
        return subprocess.run(argv, cwd=cwd, stdin=stdin, input=input, stdout=stdout, stderr=subprocess.PIPE,
                              env=tool_env(), timeout=timeout)
    except subprocess.TimeoutExpired as e:
        raise MachineryError("tool timed out: %r" % (argv[:6],))

def snap(path):
    """lstat snapshot as a comparable dict (None when missing)."""
    try:
        st = os.lstat(path)
    except FileNotFoundError:
        return None
    return dict(mode=st.st_mode, uid=st.st_uid, gid=st.st_gid, nlink=st.st_nlink, size=st.st_size,
                mtime_ns=st.st_mtime_ns, atime_ns=st.st_atime_ns, ino=st.st_ino)

def snapshot_bins(ctx):
    """Build the tools from the working tree and copy them into the run's scratch directory: the shared build
    directory is rebuilt (and briefly empty) whenever somebody's check sees a changed tree."""
    import shutil, time
    last = None
    for attempt in range(6):
        info = build.cli("plain")
        d = os.path.join(ctx.workdir, "bin")
        os.makedirs(d, exist_ok=True)
        try:
            out = {}
            for t in ("xz", "xzdec", "lzmadec"):
                dst = os.path.join(d, t)
                shutil.copyfile(info[t], dst)
                os.chmod(dst, 0o755)
                out[t] = dst
            for link in ("unxz", "xzcat", "lzma", "unlzma", "lzcat"):      # the names xz is installed under
                lp = os.path.join(d, link)
                if not os.path.lexists(lp):
                    os.symlink("xz", lp)
                out[link] = lp
            os.chmod(ctx.workdir, 0o755); os.chmod(d, 0o755)
            return out
        except FileNotFoundError as e:
            last = e
            time.sleep(2)
    raise MachineryError("tools vanished from the build directory repeatedly: %s" % last)
