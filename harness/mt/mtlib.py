"""Helpers shared by the threaded-coder checks (C07, C08): .xz layout extraction, driver invocation,
event post-processing (per-thread folding of Signal / EnablePartial events)."""
import json, os, subprocess, struct
from lib import build

HERE = os.path.dirname(os.path.dirname(os.path.dirname(os.path.abspath(__file__))))

def vli(buf, pos):
    v = 0; sh = 0
    while True:
        b = buf[pos]; pos += 1
        v |= (b & 0x7F) << sh
        if not b & 0x80:
            return v, pos
        sh += 7

def ceil4(n):
    return (n + 3) & ~3

def layout(x):
    """Layout of a single-Stream .xz file (as produced by liblzma): dict(hdrsz, blocks[], tailsz, filelen, check)."""
    assert x[:6] == b"\xfd7zXZ\x00"
    check = x[7] & 0x0F
    bsize = (struct.unpack("<I", x[-8:-4])[0] + 1) * 4
    idx = len(x) - 12 - bsize
    assert x[idx] == 0
    n, p = vli(x, idx + 1)
    recs = []
    for _ in range(n):
        up, p = vli(x, p); uc, p = vli(x, p)
        recs.append((up, uc))
    off = 12
    blocks = []
    for up, uc in recs:
        bh = (x[off] + 1) * 4
        flags = x[off + 1]
        sized = (flags & 0xC0) == 0xC0
        total = ceil4(up)
        blocks.append(dict(hdr="ok" if sized else "direct", bh=bh, insz=total - bh, outsz=uc, errAt=0, mem=1,
                           corrupt=False, off=off))
        off += total
    assert off == idx, (off, idx)
    return dict(hdrsz=12, blocks=blocks, tailsz=bsize + 12, filelen=len(x), check=check, tailok=True)

_drv = None
def driver(variant="tsan"):
    return build.cprog("mt_drv", [os.path.join(HERE, "harness/cdrv/mt_drv.c")], variant,
                       extra_ld=["-Wl,--wrap=pthread_cond_signal,--wrap=pthread_mutex_lock"], internal=False)

def run_driver(exe, mode, infile, outfile, tracefile, proc_timeout=60, **params):
    args = [exe, mode, infile, outfile, tracefile] + ["%s=%s" % kv for kv in params.items()]
    e = dict(os.environ)
    e.pop("LD_PRELOAD", None)
    e["TSAN_OPTIONS"] = "halt_on_error=0:report_signal_unsafe=0:exitcode=66"
    e["ASAN_OPTIONS"] = "detect_leaks=1:abort_on_error=0"
    try:
        r = subprocess.run(args, stdout=subprocess.PIPE, stderr=subprocess.PIPE, text=True, timeout=proc_timeout, env=e, errors="replace")
    except subprocess.TimeoutExpired:
        return dict(rc=-9, stdout="", stderr="driver timeout", events=[], hang=True)
    evs = []
    if os.path.exists(tracefile):
        with open(tracefile) as f:
            for line in f:
                evs.append(json.loads(line))
    return dict(rc=r.returncode, stdout=r.stdout, stderr=r.stderr, events=evs, hang=(r.returncode == 3))

def fold(events):
    """Two-pass folding (signals attach to the previous event of the same thread, then EnablePartial merges)."""
    started = False
    seq = []
    init_ev = None
    last = {}
    for ev in events:
        if not started:
            if ev["e"] == "Init":
                started = True; init_ev = ev
            continue
        if ev["e"] == "AppCall":
            continue
        if ev["e"] == "Signal":
            if ev["tid"] in last:
                last[ev["tid"]]["nsig"] += 1
            continue
        n = dict(e=ev["e"], tid=ev["tid"], w=ev["w"] + 1 if ev["w"] >= 0 else 0, a=ev["a"], b=ev["b"], c=ev["c"],
                 d=ev["d"], nsig=0, en=[])
        seq.append(n)
        last[ev["tid"]] = n
    # An EnablePartial event is emitted inside the nested thr.mutex section of a coder.mutex section
    # (TiPartial / RW).  Sections of other threads that need only thr.mutex can be numbered between the two
    # events; they commute with the rest of the outer section, so the outer event is placed where the nested
    # section happened.
    out = []
    pend = {}
    for n in seq:
        if n["e"] == "EnablePartial":
            pend.setdefault(n["tid"], []).append(n)
            out.append(n)
            continue
        if n["e"] in ("TiPartial", "RW") and pend.get(n["tid"]):
            ps = pend.pop(n["tid"])
            for p in ps:
                n["en"].append(p["w"]); n["nsig"] += p["nsig"]
            first = ps[0]
            k = next(i for i, x in enumerate(out) if x is first)
            out[k] = n
            out = [x for x in out if not any(x is p for p in ps[1:])]
            continue
        out.append(n)
    out = [x for x in out if x["e"] != "EnablePartial"]
    # encoder: WStopAck (STOP -> IDLE + signal inside the WTop section) merges into the WTop event that follows
    out2 = []
    ack = {}
    for n in out:
        if n["e"] == "WStopAck":
            ack[n["tid"]] = n
            continue
        if n["e"] == "WTop":
            a = ack.pop(n["tid"], None)
            n["ack"] = 1 if a else 0
            if a:
                n["nsig"] += a["nsig"]
        out2.append(n)
    out = out2
    for n in out:
        del n["tid"]
    return init_ev, out


def tsan_keys(stderr, repo=None):
    """One stable key per ThreadSanitizer data-race report: tsan:race:<function of the write>:<variable written>."""
    import re
    repo = repo or build.REPO
    keys = []
    for rep in stderr.split("WARNING: ThreadSanitizer:")[1:]:
        kind = rep.split("\n")[0].strip().split(" (")[0]
        m = re.search(r"(?:Previous w|W)rite of size \d+ at \S+ by [^\n]*\n\s+#0 (\w+) (\S+):(\d+)", rep)
        var = "?"; fn = "?"
        if m:
            fn = m.group(1)
            path = m.group(2)
            try:
                lines = open(path).read().split("\n")
                ln = int(m.group(3))
                txt = lines[ln - 1]
                mv = re.search(r"(?:->|\.)(\w+)\s*(?:[-+|&]?=[^=]|\+\+|--)", txt) or re.search(r"(\w+)\s*(?:[-+|&]?=[^=])", txt)
                if mv:
                    var = mv.group(1)
            except Exception:
                pass
        else:
            m2 = re.search(r"#0 (\w+) ", rep)
            fn = m2.group(1) if m2 else "?"
        # only races inside the library count; the driver's own event buffer is read by its watchdog handler
        # while workers still run, which TSan reports too
        if m and "/src/liblzma/" not in m.group(2) and "/src/common/" not in m.group(2):
            continue
        if not m and "/src/liblzma/" not in rep:
            continue
        keys.append(("tsan:%s:%s:%s" % (kind.replace(" ", "_"), fn, var), "WARNING: ThreadSanitizer:" + rep[:2500]))
    return keys
