// Replay of LzmaCode.tla behaviours into the real lzma_code() with a mock next.code.
// Input (stdin), one plan per line, numbers only:
//   inited supmask nsteps { act ain aout inNull outNull resv iret uin uout  xret xseq xsaved xallow xti xto xran }*
// act: 0..4 valid, 5 = out of range, 6 = (lzma_action)-1.  iret/xret: lzma_ret numbers (101.. internal).
// Output: "MISMATCH plan=<n> step=<k> <field> expected=<e> got=<g>" per difference, then "DONE plans=<n> calls=<m>".
#include "common.h"
#include <stdio.h>
#include <string.h>

static struct {
	lzma_ret ret; size_t uin, uout; int called;
	const uint8_t *xin; size_t xin_size; uint8_t *xout; size_t xout_size; lzma_action xaction; int argbad;
} M;

static lzma_ret
mock_code(void *coder, const lzma_allocator *allocator,
		const uint8_t *restrict in, size_t *restrict in_pos, size_t in_size,
		uint8_t *restrict out, size_t *restrict out_pos, size_t out_size, lzma_action action)
{
	(void)coder; (void)allocator;
	M.called++;
	if (in != M.xin || in_size != M.xin_size || out != M.xout || out_size != M.xout_size
			|| action != M.xaction || *in_pos != 0 || *out_pos != 0)
		M.argbad = 1;
	for (size_t i = 0; i < M.uout; ++i)
		out[i] = 0x5A;
	*in_pos = M.uin;
	*out_pos = M.uout;
	return M.ret;
}

#define G 16
static uint8_t inbuf[G + 8 + G], outbuf[G + 8 + G];

static long bad = 0;
#define CMP(field, e, g) do { if ((long long)(e) != (long long)(g)) { \
	printf("MISMATCH plan=%ld step=%d %s expected=%lld got=%lld\n", plan, k, field, (long long)(e), (long long)(g)); ++bad; } } while (0)

int main(void)
{
	long plan = 0, calls = 0;
	int inited, supmask, nsteps;
	while (scanf("%d %d %d", &inited, &supmask, &nsteps) == 3) {
		lzma_stream strm = LZMA_STREAM_INIT;
		// "not initialised" has two concrete forms: no internal at all / internal without a coder
		if (inited || (plan & 1)) {
			if (lzma_strm_init(&strm) != LZMA_OK) return 2;
			// lzma_strm_init leaves internal->avail_in unset (it is not read in ISEQ_RUN); the model starts at 0
			strm.internal->avail_in = 0;
			for (int a = 0; a <= LZMA_ACTION_MAX; ++a)
				strm.internal->supported_actions[a] = (supmask >> a) & 1;
			if (inited) {
				strm.internal->next.code = &mock_code;
				strm.internal->next.init = (uintptr_t)&mock_code;
			}
		}
		const uint8_t *nin = inbuf + G; uint8_t *nout = outbuf + G;
		uint64_t ti = 0, to = 0;
		for (int k = 0; k < nsteps; ++k) {
			int act, ain, aout, inNull, outNull, resv, iret, uin, uout, xret, xseq, xsaved, xallow, xti, xto, xran;
			if (scanf("%d %d %d %d %d %d %d %d %d %d %d %d %d %d %d %d", &act, &ain, &aout, &inNull, &outNull,
					&resv, &iret, &uin, &uout, &xret, &xseq, &xsaved, &xallow, &xti, &xto, &xran) != 16)
				return 2;
			if (act == 7) {
				// Reinit: what lzma_next_strm_init() + a constructor do on an existing handle:
				// lzma_strm_init(), then the constructor enables (only enables) its actions.
				const int had_internal = strm.internal != NULL;
				const size_t old_saved = had_internal ? strm.internal->avail_in : 0;
				if (lzma_strm_init(&strm) != LZMA_OK) return 2;
				if (!had_internal) strm.internal->avail_in = 0;
				strm.internal->next.code = &mock_code;
				strm.internal->next.init = (uintptr_t)&mock_code;
				for (int a = 0; a <= LZMA_ACTION_MAX; ++a)
					if ((ain >> a) & 1)
						strm.internal->supported_actions[a] = true;
				ti = 0; to = 0;
				++calls;
				CMP("reinit_sequence", xseq, strm.internal->sequence);
				CMP("reinit_allow_buf_error", xallow, strm.internal->allow_buf_error);
				CMP("reinit_total_in", 0, strm.total_in); CMP("reinit_total_out", 0, strm.total_out);
				CMP("reinit_saved_avail_in", old_saved, strm.internal->avail_in);
				for (int a = 0; a <= LZMA_ACTION_MAX; ++a)
					CMP("reinit_supported_actions", (ain >> a) & 1, strm.internal->supported_actions[a]);
				continue;
			}
			memset(inbuf, 0xA5, sizeof(inbuf)); memset(outbuf, 0xA5, sizeof(outbuf));
			nin = inbuf + G; nout = outbuf + G;
			strm.next_in = inNull ? NULL : nin; strm.avail_in = (size_t)ain;
			strm.next_out = outNull ? NULL : nout; strm.avail_out = (size_t)aout;
			strm.reserved_int2 = resv ? 1 : 0;
			lzma_action action = act <= 4 ? (lzma_action)act : act == 5 ? (lzma_action)5 : (lzma_action)-1;
			M.ret = (lzma_ret)iret; M.uin = (size_t)uin; M.uout = (size_t)uout; M.called = 0; M.argbad = 0;
			M.xin = strm.next_in; M.xin_size = strm.avail_in; M.xout = strm.next_out; M.xout_size = strm.avail_out;
			M.xaction = action;
			const uint8_t *pin = strm.next_in; uint8_t *pout = strm.next_out;
			lzma_ret r = lzma_code(&strm, action);
			++calls;
			CMP("ret", xret, r);
			CMP("inner_called", xran, M.called);
			CMP("inner_args_bad", 0, M.argbad);
			int u_in = xran ? uin : 0, u_out = xran ? uout : 0;
			CMP("next_in", (intptr_t)(pin ? pin + u_in : NULL), (intptr_t)strm.next_in);
			CMP("next_out", (intptr_t)(pout ? pout + u_out : NULL), (intptr_t)strm.next_out);
			CMP("avail_in", ain - u_in, strm.avail_in);
			CMP("avail_out", aout - u_out, strm.avail_out);
			ti += (uint64_t)u_in; to += (uint64_t)u_out;
			CMP("total_in", ti, strm.total_in); CMP("total_out", to, strm.total_out);
			CMP("model_total_in", xti, strm.total_in); CMP("model_total_out", xto, strm.total_out);
			if (strm.internal != NULL) {
				CMP("sequence", xseq, strm.internal->sequence);
				CMP("saved_avail_in", xsaved, strm.internal->avail_in);
				CMP("allow_buf_error", xallow, strm.internal->allow_buf_error);
			}
			for (int i = 0; i < G; ++i) {
				if (inbuf[i] != 0xA5 || inbuf[G + 8 + i] != 0xA5 || outbuf[i] != 0xA5 || outbuf[G + 8 + i] != 0xA5)
					{ CMP("guard", 0, 1); break; }
			}
			for (int i = 0; i < 8; ++i)
				if (outbuf[G + i] != (i < u_out ? 0x5A : 0xA5) || inbuf[G + i] != 0xA5) { CMP("buffer_content", 0, 1); break; }
		}
		strm.reserved_int2 = 0;
		if (strm.internal != NULL) { strm.internal->next.coder = NULL; strm.internal->next.end = NULL; }
		lzma_end(&strm);
		++plan;
	}
	printf("DONE plans=%ld calls=%ld mismatches=%ld\n", plan, calls, bad);
	return 0;
}
