// C14 driver, part 2: reach the static CRC64 implementations of the working tree by including
// crc64_fast.c as text.  The public symbol and the table get other names so that the copy does not
// clash with liblzma's own object (which the main part calls as "api").
#include "check.h"
#include "crc_common.h"

#define lzma_crc64 c14_copy_lzma_crc64
#define lzma_crc64_table c14_copy_crc64_table
#include "crc64_fast.c"
#undef lzma_crc64
#undef lzma_crc64_table

uint64_t c14_crc64_generic(const uint8_t *buf, size_t size, uint64_t crc)
{
#ifdef CRC64_GENERIC
	return lzma_crc64_generic(buf, size, crc);
#else
	return 0;
#endif
}

int c14_crc64_have_generic(void)
{
#ifdef CRC64_GENERIC
	return 1;
#else
	return 0;
#endif
}

int c14_crc64_have_clmul(void)
{
#if defined(CRC_X86_CLMUL) && defined(CRC64_GENERIC)
	return is_arch_extension_supported();
#elif defined(CRC_X86_CLMUL)
	return 1;
#else
	return 0;
#endif
}

uint64_t c14_crc64_clmul(const uint8_t *buf, size_t size, uint64_t crc)
{
#ifdef CRC_X86_CLMUL
	return crc64_arch_optimized(buf, size, crc);
#else
	return 0;
#endif
}
