// C14 driver, part 3: the size-optimised CRC32/CRC64 (crc32_small.c / crc64_small.c, selected by builds
// configured with --enable-small; table computed at load time, one byte per step), included as text.
#define HAVE_SMALL 1
#include "check.h"
#include "crc_common.h"

#define lzma_crc32 c14_small_crc32
#define lzma_crc32_table c14_small_crc32_table
#define lzma_crc64 c14_small_crc64
#include "crc32_small.c"
#include "crc64_small.c"
