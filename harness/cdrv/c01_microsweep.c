// C01: dense sweep of output-size limits for lzma_microlzma_encoder (set_out_limit path).
//
// usage: c01_microsweep LMIN LMAX STEP < job
//   job = one text line "n preset lc lp pb dict mf mode nice depth" (-1 = keep the preset's value)
//         followed by n raw input bytes.
// For every limit L in [LMIN, LMAX] the input is encoded with avail_out = L and LZMA_FINISH, then decoded with
// lzma_microlzma_decoder(comp_size = total_out, uncomp_size = total_in, exact).  One line per limit:
//   L ret total_in total_out guard_ok dret dec_len dec_eq [hex of the encoded bytes when L % STEP == 0] .
// Nothing is judged here: spec/TraceEncLz.tla (action TLimit) reads the lines.
#include <lzma.h>
#include <stdio.h>
#include <stdlib.h>
#include <string.h>
#include <stdbool.h>

int
main(int argc, char **argv)
{
	if (argc < 4)
		return 2;
	const size_t lmin = strtoul(argv[1], NULL, 10);
	const size_t lmax = strtoul(argv[2], NULL, 10);
	const size_t step = strtoul(argv[3], NULL, 10);

	long n, preset, lc, lp, pb, dict, mf, mode, nice, depth;
	if (scanf("%ld %ld %ld %ld %ld %ld %ld %ld %ld %ld", &n, &preset, &lc, &lp, &pb, &dict, &mf, &mode,
			&nice, &depth) != 10)
		return 2;
	if (getchar() != '\n')
		return 2;
	uint8_t *in = malloc(n + 1);
	uint8_t *dec = malloc(n + 64);
	if (in == NULL || dec == NULL || fread(in, 1, n, stdin) != (size_t)n)
		return 2;

	lzma_options_lzma opt;
	if (lzma_lzma_preset(&opt, (uint32_t)preset))
		return 2;
	if (lc >= 0) { opt.lc = lc; opt.lp = lp; opt.pb = pb; }
	if (dict >= 0) opt.dict_size = dict;
	if (mf >= 0) opt.mf = mf;
	if (mode >= 0) opt.mode = mode;
	if (nice >= 0) opt.nice_len = nice;
	if (depth >= 0) opt.depth = depth;

	lzma_stream strm = LZMA_STREAM_INIT;
	for (size_t limit = lmin; limit <= lmax; ++limit) {
		// exact-size heap buffer + guard zone (the ASan build sees any byte past `limit`)
		uint8_t *out = malloc(limit + 16);
		if (out == NULL)
			return 2;
		memset(out, 0xA5, limit + 16);
		lzma_ret r = lzma_microlzma_encoder(&strm, &opt);
		if (r != LZMA_OK) {
			printf("%zu INIT_%d 0 0 1 -1 0 0 .\n", limit, (int)r);
			free(out);
			continue;
		}
		strm.next_in = in;
		strm.avail_in = n;
		strm.next_out = out;
		strm.avail_out = limit;
		const lzma_ret ret = lzma_code(&strm, LZMA_FINISH);
		const size_t tout = (size_t)strm.total_out;
		const size_t tin = (size_t)strm.total_in;
		bool guard_ok = true;
		for (size_t i = 0; i < 16; ++i)
			if (out[limit + i] != 0xA5)
				guard_ok = false;

		int dret = -1;
		size_t dn = 0;
		bool eq = false;
		if (ret == LZMA_STREAM_END && tout <= limit && tin <= (size_t)n) {
			lzma_stream d = LZMA_STREAM_INIT;
			if (lzma_microlzma_decoder(&d, tout, tin, true, opt.dict_size) == LZMA_OK) {
				d.next_in = out;
				d.avail_in = tout;
				d.next_out = dec;
				d.avail_out = n + 64;
				dret = (int)lzma_code(&d, LZMA_FINISH);
				dn = (size_t)d.total_out;
				eq = dn == tin && memcmp(dec, in, tin) == 0;
				lzma_end(&d);
			}
		}
		printf("%zu %d %zu %zu %d %d %zu %d", limit, (int)ret, tin, tout, (int)guard_ok, dret, dn, (int)eq);
		if (step != 0 && limit % step == 0 && ret == LZMA_STREAM_END && tout <= limit) {
			putchar(' ');
			for (size_t i = 0; i < tout; ++i)
				printf("%02x", out[i]);
		}
		puts(" .");	// end-of-record marker: a line without it was cut by a crash
		fflush(stdout);
		free(out);
	}
	lzma_end(&strm);
	free(in);
	free(dec);
	return 0;
}
