// C15 driver: replay TLC-generated BCJ / delta cases into the real filters.
//
// The public API does not allow a BCJ or delta filter to be the last one of a chain, so the lone filter is
// reached through the internal lzma_next_coder interface (lzma_next_filter_init with the filter's init function)
// followed by a pass-through: either the chain terminator (next.code == NULL, simple_coder.c/delta_encoder.c
// then copy themselves; encoders only) or a copy coder defined here that returns LZMA_STREAM_END once
// LZMA_FINISH was given and all input is consumed.  The public API is exercised too: one-shot
// lzma_bcj_{x86,arm64,riscv}_{encode,decode} and chains [filter, LZMA2] through lzma_raw_buffer_encode/decode.
//
// stdin lines (hex strings, "-" = empty):
//   S <arch> <enc> <off8> <data> <expect> <n1>   stream through the lone coder under many slicings -> expect;
//                                                 one-shot API -> expect and return value n1; public chain
//   P <arch> <enc> <off8> <data> <k> {<nin> <outspace> <finish> <used> <ret> <out>}*k
//                                                 exact call sequence predicted by SimpleCoder.tla
//   O <arch> <enc> <off8> <data> <expect> <n1>   one-shot API only (offsets that need not be aligned)
//   I <arch> <enc> <off8> <ret>                  return value of the initialisation (alignment of start_offset)
//   D <dist> <enc> <data> <expect>               delta through the lone coder under many slicings; public chain
//   J <type> <dist> <ret>                        delta option validation
//   R <arch|delta> <enc> <k> {<off8> <dist> <data> <feed> <expect>}*k   k jobs back to back on ONE coder object that is
//                                                 initialised again before each job (internal coder, public raw coder on one
//                                                 lzma_stream, Blocks of one .xz Stream, concatenated Streams)
//   F <path>                                     .xz test file: prints FILE .. e=<first filter still applied> p=<content>
// stdout: MISMATCH line=<n> what=<..> detail..., finally DONE lines=<n> runs=<m> calls=<c> mismatches=<k>
#include "common.h"
#include "simple_coder.h"
#include "delta_encoder.h"
#include "delta_decoder.h"
#include <stdio.h>

static unsigned long lineno, runs, calls, mismatches;

static int hexval(int c) { return c <= '9' ? c - '0' : (c | 32) - 'a' + 10; }
static size_t unhex(const char *s, uint8_t *out)
{
	if (s[0] == '-') return 0;
	size_t n = 0;
	for (; s[0] && s[1]; s += 2) out[n++] = (uint8_t)(hexval(s[0]) * 16 + hexval(s[1]));
	return n;
}
static void puthex(const uint8_t *p, size_t n) { if (n == 0) printf("-"); for (size_t i = 0; i < n; ++i) printf("%02x", p[i]); }

// at most 2 reports per input line and kind of failure (every slicing of a wrong transform fails the same way)
static int quiet(const char *what)
{
	static unsigned long last_line; static char last_what[64]; static int count;
	++mismatches;
	if (last_line != lineno || strcmp(last_what, what) != 0) { last_line = lineno; snprintf(last_what, sizeof(last_what), "%s", what); count = 0; }
	return ++count > 2 || mismatches > 200000;
}

static void mismatch(const char *what, const char *slicing, const uint8_t *got, size_t ngot, const uint8_t *want, size_t nwant)
{
	if (quiet(what)) return;
	printf("MISMATCH line=%lu what=%s slicing=%s got=", lineno, what, slicing);
	puthex(got, ngot); printf(" want="); puthex(want, nwant); printf("\n");
}
static void mismatch_num(const char *what, const char *slicing, long got, long want)
{
	if (quiet(what)) return;
	printf("MISMATCH line=%lu what=%s slicing=%s got=%ld want=%ld\n", lineno, what, slicing, got, want);
}

// ---------------------------------------------------------------- pass-through coder
static int copy_dummy;
static lzma_ret copy_code(void *c, const lzma_allocator *a, const uint8_t *restrict in, size_t *restrict in_pos, size_t in_size,
		uint8_t *restrict out, size_t *restrict out_pos, size_t out_size, lzma_action action)
{
	(void)c; (void)a;
	lzma_bufcpy(in, in_pos, in_size, out, out_pos, out_size);
	return action == LZMA_FINISH && *in_pos == in_size ? LZMA_STREAM_END : LZMA_OK;
}
static void copy_end(void *c, const lzma_allocator *a) { (void)c; (void)a; }
static lzma_ret copy_init(lzma_next_coder *next, const lzma_allocator *a, const lzma_filter_info *f)
{
	(void)a; (void)f;
	next->coder = &copy_dummy; next->code = &copy_code; next->end = &copy_end;
	return LZMA_OK;
}

typedef lzma_ret (*init_fn)(lzma_next_coder *, const lzma_allocator *, const lzma_filter_info *);
struct arch { const char *name; lzma_vli id; init_fn enc, dec; };
static const struct arch archs[] = {
	{ "x86", LZMA_FILTER_X86, &lzma_simple_x86_encoder_init, &lzma_simple_x86_decoder_init },
	{ "powerpc", LZMA_FILTER_POWERPC, &lzma_simple_powerpc_encoder_init, &lzma_simple_powerpc_decoder_init },
	{ "ia64", LZMA_FILTER_IA64, &lzma_simple_ia64_encoder_init, &lzma_simple_ia64_decoder_init },
	{ "arm", LZMA_FILTER_ARM, &lzma_simple_arm_encoder_init, &lzma_simple_arm_decoder_init },
	{ "armthumb", LZMA_FILTER_ARMTHUMB, &lzma_simple_armthumb_encoder_init, &lzma_simple_armthumb_decoder_init },
	{ "sparc", LZMA_FILTER_SPARC, &lzma_simple_sparc_encoder_init, &lzma_simple_sparc_decoder_init },
	{ "arm64", LZMA_FILTER_ARM64, &lzma_simple_arm64_encoder_init, &lzma_simple_arm64_decoder_init },
	{ "riscv", LZMA_FILTER_RISCV, &lzma_simple_riscv_encoder_init, &lzma_simple_riscv_decoder_init },
	{ "delta", LZMA_FILTER_DELTA, &lzma_delta_encoder_init, &lzma_delta_decoder_init },
};
static const struct arch *find_arch(const char *n)
{
	for (size_t i = 0; i < sizeof(archs) / sizeof(archs[0]); ++i)
		if (strcmp(archs[i].name, n) == 0) return &archs[i];
	printf("BADLINE %lu unknown arch %s\n", lineno, n);
	exit(2);
}

static lzma_ret lone_init(lzma_next_coder *next, const struct arch *a, int enc, void *options, int use_copy)
{
	lzma_filter_info fi[3];
	memset(fi, 0, sizeof(fi));
	fi[0].id = a->id; fi[0].init = enc ? a->enc : a->dec; fi[0].options = options;
	fi[1].id = LZMA_VLI_UNKNOWN; fi[1].init = use_copy ? &copy_init : NULL; fi[1].options = NULL;
	fi[2].id = LZMA_VLI_UNKNOWN; fi[2].init = NULL;
	return lzma_next_filter_init(next, NULL, fi);
}

// exact-size heap copies so that ASan sees any access outside the offered window
static uint8_t *dup_exact(const uint8_t *p, size_t n) { uint8_t *q = malloc(n ? n : 1); if (n) memcpy(q, p, n); return q; }

static uint32_t lcg(uint32_t *s) { *s = (*s * 75 + 74) % 65537; return *s; }

// Streams `data` through an initialised coder.  mode: 0 all/big, 1 in 1 byte / out big, 2 all in / out 1 byte,
// 3 one byte each, 4 two-piece split at `param`, 5 pseudo-random sizes seeded by `param`.
// Returns the number of output bytes (written to out, capacity n + 32), or -1 on an unexpected return value.
static long stream(lzma_next_coder *next, const uint8_t *data, size_t n, uint8_t *out, int mode, uint32_t param)
{
	size_t consumed = 0, produced = 0;
	uint32_t seed = param + 1;
	for (int iter = 0; iter < 20000; ++iter) {
		size_t remaining = n - consumed, offer, space;
		switch (mode) {
		case 0: offer = remaining; space = n + 16 - produced; break;
		case 1: offer = remaining ? 1 : 0; space = n + 16 - produced; break;
		case 2: offer = remaining; space = 1; break;
		case 3: offer = remaining ? 1 : 0; space = 1; break;
		case 4: offer = consumed < param ? param - consumed : remaining; space = n + 16 - produced; break;
		default: offer = lcg(&seed) % 8; if (offer > remaining) offer = remaining; space = lcg(&seed) % 10; break;
		}
		if (space > n + 16 - produced) space = n + 16 - produced;
		const lzma_action action = offer == remaining ? LZMA_FINISH : LZMA_RUN;
		uint8_t *in = dup_exact(data + consumed, offer);
		uint8_t *o = malloc(space ? space : 1);
		size_t in_pos = 0, out_pos = 0;
		const lzma_ret r = next->code(next->coder, NULL, in, &in_pos, offer, o, &out_pos, space, action);
		++calls;
		if (in_pos > offer || out_pos > space) { free(in); free(o); return -2; }
		memcpy(out + produced, o, out_pos);
		consumed += in_pos; produced += out_pos;
		free(in); free(o);
		if (r == LZMA_STREAM_END) return (long)produced;
		if (r != LZMA_OK) return -1000 - (long)r;
	}
	return -3;
}

static const char *mode_name(int mode) { static const char *n[] = { "whole", "in_bytewise", "out_bytewise", "both_bytewise", "split", "random" }; return n[mode]; }

static void streams(const struct arch *a, int enc, void *options, const uint8_t *data, size_t n, const uint8_t *expect, const char *what)
{
	uint8_t *out = malloc(n + 64);
	for (int use_copy = 1; use_copy >= 0; --use_copy) {
		if (!use_copy && !enc) continue;           // a decoder needs a next coder that signals the end
		for (int mode = 0; mode <= 5; ++mode) {
			const size_t reps = mode == 4 ? n + 1 : mode == 5 ? 4 : 1;
			for (size_t p = 0; p < reps; ++p) {
				lzma_next_coder next = LZMA_NEXT_CODER_INIT;
				lzma_ret r = lone_init(&next, a, enc, options, use_copy);
				if (r != LZMA_OK) { mismatch_num("init_ret", what, r, LZMA_OK); lzma_next_end(&next, NULL); free(out); return; }
				const long got = stream(&next, data, n, out, mode, mode == 4 ? (uint32_t)p : (uint32_t)(p + lineno * 7));
				lzma_next_end(&next, NULL);
				++runs;
				char label[64];
				snprintf(label, sizeof(label), "%s%s", mode_name(mode), use_copy ? "" : "_nullnext");
				if (got < 0) mismatch_num(what, label, got, (long)n);
				else if ((size_t)got != n) mismatch_num("size_changed", label, got, (long)n);
				else if (memcmp(out, expect, n) != 0) mismatch(what, label, out, n, expect, n);
			}
		}
	}
	free(out);
}

static void public_chain(lzma_vli id, void *options, int enc, const uint8_t *data, size_t n, const uint8_t *expect, const char *what)
{
	lzma_options_lzma lz;
	lzma_lzma_preset(&lz, 0);
	lzma_filter with[3] = { { id, options }, { LZMA_FILTER_LZMA2, &lz }, { LZMA_VLI_UNKNOWN, NULL } };
	lzma_filter plain[2] = { { LZMA_FILTER_LZMA2, &lz }, { LZMA_VLI_UNKNOWN, NULL } };
	const size_t cap = n + 1024;
	uint8_t *comp = malloc(cap), *back = malloc(n + 1);
	size_t cpos = 0, ip = 0, op = 0;
	// encoder direction: compress through [filter, LZMA2], undo only LZMA2 -> filtered bytes
	// decoder direction: compress with LZMA2 only, decode through [filter, LZMA2] -> unfiltered bytes
	lzma_ret r = lzma_raw_buffer_encode(enc ? with : plain, NULL, data, n, comp, &cpos, cap);
	if (r != LZMA_OK) { mismatch_num(what, "raw_buffer_encode_ret", r, LZMA_OK); goto out; }
	r = lzma_raw_buffer_decode(enc ? plain : with, NULL, comp, &ip, cpos, back, &op, n);
	++runs;
	if (r != LZMA_OK || op != n) mismatch_num(what, "raw_buffer_decode_ret", r, LZMA_OK);
	else if (memcmp(back, expect, n) != 0) mismatch(what, "public_chain", back, n, expect, n);
	if (enc) {
		ip = 0; op = 0;
		r = lzma_raw_buffer_decode(with, NULL, comp, &ip, cpos, back, &op, n);
		++runs;
		if (r != LZMA_OK || op != n || memcmp(back, data, n) != 0) mismatch(what, "public_chain_roundtrip", back, op, data, n);
	}
out:
	free(comp); free(back);
}

static void oneshot(const char *arch, int enc, uint32_t off, const uint8_t *data, size_t n, const uint8_t *expect, long n1, const char *what)
{
	size_t (*f)(uint32_t, uint8_t *, size_t) = NULL;
	if (!strcmp(arch, "x86")) f = enc ? &lzma_bcj_x86_encode : &lzma_bcj_x86_decode;
	else if (!strcmp(arch, "arm64")) f = enc ? &lzma_bcj_arm64_encode : &lzma_bcj_arm64_decode;
	else if (!strcmp(arch, "riscv")) f = enc ? &lzma_bcj_riscv_encode : &lzma_bcj_riscv_decode;
	if (f == NULL) return;
	uint8_t *buf = dup_exact(data, n);
	const size_t r = f(off, buf, n);
	++runs; ++calls;
	if ((long)r != n1) mismatch_num(what, "oneshot_return", (long)r, n1);
	if (memcmp(buf, expect, n) != 0) mismatch(what, "oneshot_bytes", buf, n, expect, n);
	free(buf);
}


// ---------------------------------------------------------------- coder reuse (R lines)
struct sub { uint32_t off, dist; uint8_t *data, *expect; size_t n, feed, nexp; };

static void *sub_options(const struct arch *a, const struct sub *sb, lzma_options_bcj *bo, lzma_options_delta *dopt)
{
	if (a->id == LZMA_FILTER_DELTA) {
		memset(dopt, 0, sizeof(*dopt));
		dopt->type = LZMA_DELTA_TYPE_BYTE; dopt->dist = sb->dist;
		return dopt;
	}
	bo->start_offset = sb->off;
	return bo;
}

// runs lzma_code() on an initialised stream until everything is consumed/produced; returns output size or -1
static long code_all(lzma_stream *strm, const uint8_t *in, size_t n, uint8_t *out, size_t cap, lzma_action last)
{
	strm->next_in = in; strm->avail_in = n; strm->next_out = out; strm->avail_out = cap;
	for (int i = 0; i < 1000; ++i) {
		const lzma_ret r = lzma_code(strm, last);
		++calls;
		if (r == LZMA_STREAM_END) return (long)(cap - strm->avail_out);
		if (r != LZMA_OK) return -1000 - (long)r;
		if (last != LZMA_FINISH && strm->avail_in == 0) return (long)(cap - strm->avail_out);
	}
	return -3;
}

static void reuse_session(const struct arch *a, int enc, struct sub *subs, int k)
{
	lzma_options_bcj bo; lzma_options_delta dopt;
	lzma_options_lzma lz;
	lzma_lzma_preset(&lz, 0);
	const size_t cap = 1 << 16;
	uint8_t *out = malloc(cap), *comp = malloc(cap), *back = malloc(cap);
	char label[48];

	// (1) the lone coder through the internal interface: the SAME lzma_next_coder is initialised again per job
	lzma_next_coder next = LZMA_NEXT_CODER_INIT;
	for (int j = 0; j < k; ++j) {
		struct sub *sb = &subs[j];
		lzma_ret r = lone_init(&next, a, enc, sub_options(a, sb, &bo, &dopt), 1);
		snprintf(label, sizeof(label), "internal_job%d", j + 1);
		if (r != LZMA_OK) { mismatch_num("reuse_init_ret", label, r, LZMA_OK); break; }
		if (sb->feed < sb->n) {          // abandoned in the middle: one RUN call, then the coder is re-initialised
			size_t ip = 0, op = 0;
			uint8_t *in = dup_exact(sb->data, sb->feed);
			r = next.code(next.coder, NULL, in, &ip, sb->feed, out, &op, cap, LZMA_RUN);
			++calls; free(in);
			if (r != LZMA_OK || op != sb->nexp || memcmp(out, sb->expect, op) != 0)
				mismatch(enc ? "reuse_encode" : "reuse_decode", label, out, op, sb->expect, sb->nexp);
		} else {
			const long got = stream(&next, sb->data, sb->n, out, (j + (int)lineno) % 4, 0);
			++runs;
			if (got < 0 || (size_t)got != sb->n) mismatch_num(enc ? "reuse_encode" : "reuse_decode", label, got, (long)sb->n);
			else if (memcmp(out, sb->expect, sb->n) != 0) mismatch(enc ? "reuse_encode" : "reuse_decode", label, out, sb->n, sb->expect, sb->n);
		}
	}
	lzma_next_end(&next, NULL);

	// (2) public raw coder: the SAME lzma_stream gets lzma_raw_encoder()/lzma_raw_decoder() again per job
	lzma_stream strm = LZMA_STREAM_INIT;
	for (int j = 0; j < k; ++j) {
		struct sub *sb = &subs[j];
		lzma_filter with[3] = { { a->id, sub_options(a, sb, &bo, &dopt) }, { LZMA_FILTER_LZMA2, &lz }, { LZMA_VLI_UNKNOWN, NULL } };
		lzma_filter plain[2] = { { LZMA_FILTER_LZMA2, &lz }, { LZMA_VLI_UNKNOWN, NULL } };
		snprintf(label, sizeof(label), "public_raw_job%d", j + 1);
		const uint8_t *src = sb->data; size_t nsrc = sb->n;
		size_t cpos = 0;
		if (!enc) {
			if (lzma_raw_buffer_encode(plain, NULL, sb->data, sb->n, comp, &cpos, cap) != LZMA_OK) { mismatch_num("reuse_setup", label, 0, 0); break; }
			src = comp; nsrc = cpos;
		}
		lzma_ret r = enc ? lzma_raw_encoder(&strm, with) : lzma_raw_decoder(&strm, with);
		if (r != LZMA_OK) { mismatch_num("reuse_init_ret", label, r, LZMA_OK); break; }
		if (sb->feed < sb->n) {          // abandon: give half of the input with LZMA_RUN, then re-initialise
			(void)code_all(&strm, src, nsrc / 2, out, cap, LZMA_RUN);
			continue;
		}
		const long got = code_all(&strm, src, nsrc, out, cap, LZMA_FINISH);
		++runs;
		if (got < 0) { mismatch_num(enc ? "reuse_encode" : "reuse_decode", label, got, (long)sb->n); continue; }
		if (enc) {
			size_t ip = 0, op = 0;
			r = lzma_raw_buffer_decode(plain, NULL, out, &ip, (size_t)got, back, &op, cap);
			if (r != LZMA_OK || op != sb->n || memcmp(back, sb->expect, sb->n) != 0) mismatch("reuse_encode", label, back, op, sb->expect, sb->n);
		} else if ((size_t)got != sb->n || memcmp(out, sb->expect, sb->n) != 0) mismatch("reuse_decode", label, out, (size_t)got, sb->expect, sb->n);
	}
	lzma_end(&strm);

	if (!enc) goto done;
	// (3) one .xz Stream with one Block per job (LZMA_FULL_FLUSH, lzma_filters_update between Blocks): the payload
	//     of every Block with only LZMA2 undone must be the job's filtered bytes; the Stream must decode back
	{
		lzma_stream es = LZMA_STREAM_INIT;
		size_t total = 0, nblocks = 0, fpos = 0;
		uint8_t *file = malloc(cap);
		for (int j = 0; j < k; ++j) {
			struct sub *sb = &subs[j];
			if (sb->feed < sb->n || sb->n == 0) continue;
			lzma_filter with[3] = { { a->id, sub_options(a, sb, &bo, &dopt) }, { LZMA_FILTER_LZMA2, &lz }, { LZMA_VLI_UNKNOWN, NULL } };
			lzma_ret r = nblocks == 0 ? lzma_stream_encoder(&es, with, LZMA_CHECK_CRC32) : lzma_filters_update(&es, with);
			if (r != LZMA_OK) { mismatch_num("reuse_init_ret", "stream_encoder", r, LZMA_OK); break; }
			const long got = code_all(&es, sb->data, sb->n, file + fpos, cap - fpos, LZMA_FULL_FLUSH);
			if (got < 0) { mismatch_num("reuse_encode", "stream_encoder_flush", got, 0); break; }
			fpos += (size_t)got; ++nblocks;
			memcpy(back + total, sb->data, sb->n); total += sb->n;
		}
		if (nblocks > 0) {
			const long got = code_all(&es, NULL, 0, file + fpos, cap - fpos, LZMA_FINISH);
			if (got < 0) mismatch_num("reuse_encode", "stream_encoder_finish", got, 0);
			else {
				fpos += (size_t)got;
				size_t pos = 12;           // Stream Header
				for (int j = 0; j < k; ++j) {
					struct sub *sb = &subs[j];
					if (sb->feed < sb->n || sb->n == 0) continue;
					snprintf(label, sizeof(label), "xz_block_job%d", j + 1);
					lzma_block blk; lzma_filter df[LZMA_FILTERS_MAX + 1];
					memset(&blk, 0, sizeof(blk));
					blk.version = 1; blk.check = LZMA_CHECK_CRC32; blk.filters = df;
					blk.header_size = lzma_block_header_size_decode(file[pos]);
					if (lzma_block_header_decode(&blk, NULL, file + pos) != LZMA_OK) { mismatch_num("reuse_encode", label, -1, 0); break; }
					size_t ip = pos + blk.header_size, op = 0;
					const size_t start = ip;
					lzma_ret r = lzma_raw_buffer_decode(df + 1, NULL, file, &ip, fpos, out, &op, cap);
					++runs;
					if (r != LZMA_OK || op != sb->n || memcmp(out, sb->expect, sb->n) != 0) mismatch("reuse_encode", label, out, op, sb->expect, sb->n);
					for (size_t i = 0; df[i].id != LZMA_VLI_UNKNOWN && i < LZMA_FILTERS_MAX; ++i) free(df[i].options);
					if (r != LZMA_OK) break;
					const size_t comp_size = ip - start;
					pos = ip + ((4 - ((blk.header_size + comp_size) & 3)) & 3) + 4;     // Block Padding + CRC32
				}
				uint64_t memlimit = UINT64_MAX; size_t ip = 0, op = 0;
				lzma_ret r = lzma_stream_buffer_decode(&memlimit, 0, NULL, file, &ip, fpos, out, &op, cap);
				++runs;
				if (r != LZMA_OK || op != total || memcmp(out, back, total) != 0) mismatch("reuse_decode", "xz_multiblock_roundtrip", out, op, back, total);
			}
		}
		lzma_end(&es);
		free(file);
	}
	// (4) concatenated .xz Streams (each written by a fresh one-shot encoder) through ONE decoder with LZMA_CONCATENATED
	{
		uint8_t *file = malloc(cap);
		size_t fpos = 0, total = 0;
		for (int j = 0; j < k; ++j) {
			struct sub *sb = &subs[j];
			if (sb->feed < sb->n) continue;
			lzma_filter with[3] = { { a->id, sub_options(a, sb, &bo, &dopt) }, { LZMA_FILTER_LZMA2, &lz }, { LZMA_VLI_UNKNOWN, NULL } };
			if (lzma_stream_buffer_encode(with, LZMA_CHECK_CRC64, NULL, sb->data, sb->n, file, &fpos, cap) != LZMA_OK) { mismatch_num("reuse_setup", "stream_buffer_encode", 0, 0); break; }
			memcpy(back + total, sb->data, sb->n); total += sb->n;
		}
		lzma_stream ds = LZMA_STREAM_INIT;
		lzma_ret r = lzma_stream_decoder(&ds, UINT64_MAX, LZMA_CONCATENATED);
		const long got = r == LZMA_OK ? code_all(&ds, file, fpos, out, cap, LZMA_FINISH) : -1;
		++runs;
		if (got < 0 || (size_t)got != total || memcmp(out, back, total) != 0) mismatch("reuse_decode", "xz_concatenated_streams", out, got < 0 ? 0 : (size_t)got, back, total);
		lzma_end(&ds);
		free(file);
	}
done:
	free(out); free(comp); free(back);
}

int main(void)
{
	static char line[1 << 20];
	static uint8_t data[1 << 17], expect[1 << 17], obuf[1 << 17];
	setvbuf(stdout, NULL, _IOLBF, 0);
	while (fgets(line, sizeof(line), stdin)) {
		++lineno;
		char *save = NULL;
		char *kind = strtok_r(line, " \n", &save);
		if (kind == NULL) continue;
#define TOK() strtok_r(NULL, " \n", &save)
		if (kind[0] == 'S' || kind[0] == 'O') {
			const struct arch *a = find_arch(TOK());
			const int enc = atoi(TOK());
			const uint32_t off = (uint32_t)strtoul(TOK(), NULL, 16);
			const size_t n = unhex(TOK(), data);
			const size_t ne = unhex(TOK(), expect);
			const long n1 = atol(TOK());
			if (n != ne) { printf("BADLINE %lu\n", lineno); return 2; }
			lzma_options_bcj opt = { .start_offset = off };
			const char *what = enc ? "encode" : "decode";
			if (kind[0] == 'S') {
				streams(a, enc, &opt, data, n, expect, what);
				public_chain(a->id, &opt, enc, data, n, expect, what);
				if (off == 0) {          // options == NULL means start_offset 0
					streams(a, enc, NULL, data, n, expect, enc ? "encode_nullopt" : "decode_nullopt");
				}
			}
			oneshot(a->name, enc, off, data, n, expect, n1, what);
		} else if (kind[0] == 'P') {
			// The call sequence (offered input, output space) of the plan is followed; what must hold is the
			// property (bytes, size, STREAM_END only when complete).  Per-call amounts that differ from the
			// SimpleCoder model although the bytes are right are reported as DRIFT (not a mismatch).
			const struct arch *a = find_arch(TOK());
			const int enc = atoi(TOK());
			const uint32_t off = (uint32_t)strtoul(TOK(), NULL, 16);
			const size_t n = unhex(TOK(), data);
			const int k = atoi(TOK());
			lzma_options_bcj opt = { .start_offset = off };
			lzma_next_coder next = LZMA_NEXT_CODER_INIT;
			lzma_ret r = lone_init(&next, a, enc, &opt, 1);
			if (r != LZMA_OK) { mismatch_num("plan_init_ret", "plan", r, LZMA_OK); lzma_next_end(&next, NULL); continue; }
			size_t consumed = 0, produced = 0, nwhole = 0;
			int bad = 0, drift = -1, ended = 0;
			for (int c = 0; c < k + 64 && !ended && !bad; ++c) {
				size_t nin, space, used = 0, nout = 0;
				int wret = 0;
				if (c < k) {
					nin = strtoul(TOK(), NULL, 10); space = strtoul(TOK(), NULL, 10);
					(void)atoi(TOK());
					used = strtoul(TOK(), NULL, 10);
					wret = atoi(TOK());
					nout = unhex(TOK(), expect + nwhole);
					nwhole += nout;
				} else {
					nin = n; space = n + 16;      // the plan is over (only after a drift): let the coder finish
				}
				if (nin > n - consumed) nin = n - consumed;
				const int finish = consumed + nin == n;
				uint8_t *in = dup_exact(data + consumed, nin);
				uint8_t *o = malloc(space ? space : 1);
				size_t in_pos = 0, out_pos = 0;
				r = next.code(next.coder, NULL, in, &in_pos, nin, o, &out_pos, space, finish ? LZMA_FINISH : LZMA_RUN);
				++calls;
				char label[32];
				snprintf(label, sizeof(label), "call%d", c);
				if (r != LZMA_OK && r != LZMA_STREAM_END) { mismatch_num("plan_ret", label, r, wret); bad = 1; }
				else if (in_pos > nin || out_pos > space || produced + out_pos > n) { mismatch_num("plan_bounds", label, (long)out_pos, (long)space); bad = 1; }
				else {
					if (c < k && drift < 0 && ((int)r != wret || in_pos != used || out_pos != nout)) drift = c;
					memcpy(obuf + produced, o, out_pos);
					consumed += in_pos; produced += out_pos;
					if (r == LZMA_STREAM_END) ended = 1;
				}
				free(in); free(o);
			}
			// the rest of the plan line (when the coder ended early) still carries expected bytes
			for (char *t; (t = TOK()) != NULL; ) { (void)t; }
			++runs;
			lzma_next_end(&next, NULL);
			if (bad) continue;
			const char *what = enc ? "plan_encode" : "plan_decode";
			if (!ended) mismatch_num(what, "never_finished", (long)produced, (long)n);
			else if (produced != n || consumed != n) mismatch_num("size_changed", "plan", (long)produced, (long)n);
			else if (drift < 0 && (nwhole != n || memcmp(obuf, expect, n) != 0)) mismatch(what, "plan", obuf, produced, expect, nwhole);
			else if (drift >= 0) printf("DRIFT line=%lu call=%d\n", lineno, drift);
		} else if (kind[0] == 'R') {
			const struct arch *a = find_arch(TOK());
			const int enc = atoi(TOK());
			const int k = atoi(TOK());
			struct sub subs[8];
			for (int j = 0; j < k && j < 8; ++j) {
				subs[j].off = (uint32_t)strtoul(TOK(), NULL, 16);
				subs[j].dist = (uint32_t)atoi(TOK());
				subs[j].n = unhex(TOK(), data); subs[j].data = dup_exact(data, subs[j].n);
				subs[j].feed = strtoul(TOK(), NULL, 10);
				subs[j].nexp = unhex(TOK(), expect); subs[j].expect = dup_exact(expect, subs[j].nexp);
			}
			reuse_session(a, enc, subs, k);
			for (int j = 0; j < k && j < 8; ++j) { free(subs[j].data); free(subs[j].expect); }
		} else if (kind[0] == 'I') {
			const struct arch *a = find_arch(TOK());
			const int enc = atoi(TOK());
			const uint32_t off = (uint32_t)strtoul(TOK(), NULL, 16);
			const int wret = atoi(TOK());
			lzma_options_bcj opt = { .start_offset = off };
			lzma_next_coder next = LZMA_NEXT_CODER_INIT;
			lzma_ret r = lone_init(&next, a, enc, &opt, 1);
			lzma_next_end(&next, NULL);
			++runs;
			if ((int)r != wret) mismatch_num("init_alignment_ret", a->name, r, wret);
			// the same through the public constructors
			lzma_options_lzma lz;
			lzma_lzma_preset(&lz, 0);
			lzma_filter chain[3] = { { a->id, &opt }, { LZMA_FILTER_LZMA2, &lz }, { LZMA_VLI_UNKNOWN, NULL } };
			lzma_stream strm = LZMA_STREAM_INIT;
			r = enc ? lzma_raw_encoder(&strm, chain) : lzma_raw_decoder(&strm, chain);
			lzma_end(&strm);
			++runs;
			if ((int)r != wret) mismatch_num("public_init_alignment_ret", a->name, r, wret);
		} else if (kind[0] == 'D') {
			const struct arch *a = find_arch("delta");
			const uint32_t dist = (uint32_t)atoi(TOK());
			const int enc = atoi(TOK());
			const size_t n = unhex(TOK(), data);
			const size_t ne = unhex(TOK(), expect);
			if (n != ne) { printf("BADLINE %lu\n", lineno); return 2; }
			lzma_options_delta opt;
			memset(&opt, 0, sizeof(opt));
			opt.type = LZMA_DELTA_TYPE_BYTE; opt.dist = dist;
			streams(a, enc, &opt, data, n, expect, enc ? "delta_encode" : "delta_decode");
			public_chain(LZMA_FILTER_DELTA, &opt, enc, data, n, expect, enc ? "delta_encode" : "delta_decode");
		} else if (kind[0] == 'J') {
			const struct arch *a = find_arch("delta");
			lzma_options_delta opt;
			memset(&opt, 0, sizeof(opt));
			opt.type = (lzma_delta_type)atoi(TOK()); opt.dist = (uint32_t)atoi(TOK());
			const int wret = atoi(TOK());
			for (int enc = 0; enc < 2; ++enc) {
				lzma_next_coder next = LZMA_NEXT_CODER_INIT;
				lzma_ret r = lone_init(&next, a, enc, &opt, 1);
				lzma_next_end(&next, NULL);
				++runs;
				if ((int)r != wret) mismatch_num("delta_options_ret", enc ? "encoder" : "decoder", r, wret);
			}
		} else if (kind[0] == 'F') {
			// a .xz file written by some other version: print the payload with only the first (BCJ/delta)
			// filter still applied (E) and the fully decoded, integrity-checked content (P)
			const char *path = TOK();
			FILE *fp = fopen(path, "rb");
			if (fp == NULL) { printf("BADLINE %lu cannot open %s\n", lineno, path); return 2; }
			static uint8_t file[1 << 20];
			const size_t fsize = fread(file, 1, sizeof(file), fp);
			fclose(fp);
			const size_t cap = 1 << 21;
			uint8_t *pbuf = malloc(cap), *ebuf = malloc(cap);
			uint64_t memlimit = UINT64_MAX;
			size_t ip = 0, plen = 0;
			lzma_ret r = lzma_stream_buffer_decode(&memlimit, 0, NULL, file, &ip, fsize, pbuf, &plen, cap);
			++runs;
			if (r != LZMA_OK) { mismatch_num("file_decode", path, r, LZMA_OK); free(pbuf); free(ebuf); continue; }
			lzma_stream_flags sf;
			lzma_block blk;
			lzma_filter df[LZMA_FILTERS_MAX + 1];
			memset(&blk, 0, sizeof(blk));
			if (lzma_stream_header_decode(&sf, file) != LZMA_OK) { printf("BADLINE %lu header\n", lineno); return 2; }
			blk.version = 1; blk.check = sf.check; blk.filters = df;
			blk.header_size = lzma_block_header_size_decode(file[12]);
			if (lzma_block_header_decode(&blk, NULL, file + 12) != LZMA_OK) { printf("BADLINE %lu block header\n", lineno); return 2; }
			ip = 12 + blk.header_size;
			size_t elen = 0;
			r = lzma_raw_buffer_decode(df + 1, NULL, file, &ip, fsize, ebuf, &elen, cap);
			if (r != LZMA_OK || elen != plen) { mismatch_num("file_inner_decode", path, r, LZMA_OK); }
			else {
				uint32_t off = 0, dist = 0;
				const char *nm = "?";
				for (size_t i = 0; i < sizeof(archs) / sizeof(archs[0]); ++i)
					if (archs[i].id == df[0].id) nm = archs[i].name;
				if (df[0].id == LZMA_FILTER_DELTA) dist = ((lzma_options_delta *)df[0].options)->dist;
				else if (df[0].options != NULL) off = ((lzma_options_bcj *)df[0].options)->start_offset;
				const size_t lim = plen < 16384 ? plen : 16384;
				printf("FILE line=%lu kind=%s off=%08x dist=%u total=%zu e=", lineno, nm, off, dist, plen);
				puthex(ebuf, lim); printf(" p="); puthex(pbuf, lim); printf("\n");
			}
			for (size_t i = 0; df[i].id != LZMA_VLI_UNKNOWN && i < LZMA_FILTERS_MAX; ++i) free(df[i].options);
			free(pbuf); free(ebuf);
		} else {
			printf("BADLINE %lu\n", lineno);
			return 2;
		}
	}
	(void)obuf;
	printf("DONE lines=%lu runs=%lu calls=%lu mismatches=%lu\n", lineno, runs, calls, mismatches);
	return 0;
}
