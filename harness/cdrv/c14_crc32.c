// C14 driver, part 1: reach the static CRC32 implementations of the working tree by including
// crc32_fast.c as text.  The public symbol and the table get other names so that the copy does not
// clash with liblzma's own object (which the main part calls as "api").
#include "check.h"
#include "crc_common.h"

#define lzma_crc32 c14_copy_lzma_crc32
#define lzma_crc32_table c14_copy_crc32_table
#include "crc32_fast.c"
#undef lzma_crc32
#undef lzma_crc32_table

uint32_t c14_crc32_generic(const uint8_t *buf, size_t size, uint32_t crc)
{
#ifdef CRC32_GENERIC
	return lzma_crc32_generic(buf, size, crc);
#else
	return 0;
#endif
}

int c14_crc32_have_generic(void)
{
#ifdef CRC32_GENERIC
	return 1;
#else
	return 0;
#endif
}

int c14_crc32_have_clmul(void)
{
#if defined(CRC_X86_CLMUL) && defined(CRC32_GENERIC)
	return is_arch_extension_supported();
#elif defined(CRC_X86_CLMUL)
	return 1;
#else
	return 0;
#endif
}

uint32_t c14_crc32_clmul(const uint8_t *buf, size_t size, uint32_t crc)
{
#ifdef CRC_X86_CLMUL
	return crc32_arch_optimized(buf, size, crc);
#else
	return 0;
#endif
}
