// prints sizeof(lzma_outbuf) (internal struct) so that the trace specification can use the real memory figures
#include "outqueue.h"
#include <stdio.h>
int main(void) { printf("%zu\n", sizeof(lzma_outbuf)); return 0; }
