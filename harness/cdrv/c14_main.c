// C14 driver: replay TLC-generated check cases into the real code.
//
// stdin, one case per line:
//   <type> <init-hex|-> <data-hex|-> <npieces> <p1> ... <pn> <expect-hex>
//     type: crc32 | crc64 | sha256;  init: little-endian bytes of the initial CRC;  expect: Check-field bytes
// For every case, at every pointer alignment 0..63 (buffer ends exactly at the end of its allocation and the
// bytes before it are poisoned under ASan, so any over/under-read is a crash):
//   - CRC types: every available implementation (api = liblzma's dispatched lzma_crc32/64, generic =
//     table-driven static function, clmul = carry-less multiplication static function, small = crc32_small.c /
//     crc64_small.c of --enable-small builds) is run over the pieces,
//     chaining the running value; the final value must equal `expect`.
//   - init = 0 (and SHA-256): lzma_check_init / lzma_check_update per piece / lzma_check_finish with the
//     state buffer pre-filled with junk; buffer.u8[0..size) must equal `expect`.
//   - single-piece cases with init = 0 at alignment 0: lzma_block_uncomp_encode must store `expect` in
//     raw_check and at the end of the Block; lzma_block_buffer_decode must accept it and must reject the Block
//     with one bit of the Check field flipped (LZMA_DATA_ERROR).
// stdout: "MISMATCH case=<n> what=<impl> align=<a> got=<hex> want=<hex>" lines, then "DONE cases=<n> calls=<m> impls=..".
#include "check.h"
#include "lzma.h"
#include <stdio.h>
#include <stdlib.h>
#include <string.h>

#if defined(__SANITIZE_ADDRESS__)
#	include <sanitizer/asan_interface.h>
#	define POISON(p, n) ASAN_POISON_MEMORY_REGION(p, n)
#	define UNPOISON(p, n) ASAN_UNPOISON_MEMORY_REGION(p, n)
#else
#	define POISON(p, n) ((void)0)
#	define UNPOISON(p, n) ((void)0)
#endif

extern uint32_t c14_crc32_generic(const uint8_t *buf, size_t size, uint32_t crc);
extern uint32_t c14_crc32_clmul(const uint8_t *buf, size_t size, uint32_t crc);
extern uint32_t c14_copy_lzma_crc32(const uint8_t *buf, size_t size, uint32_t crc);
extern int c14_crc32_have_clmul(void);
extern int c14_crc32_have_generic(void);
extern uint64_t c14_crc64_generic(const uint8_t *buf, size_t size, uint64_t crc);
extern uint64_t c14_crc64_clmul(const uint8_t *buf, size_t size, uint64_t crc);
extern uint64_t c14_copy_lzma_crc64(const uint8_t *buf, size_t size, uint64_t crc);
extern int c14_crc64_have_clmul(void);
extern int c14_crc64_have_generic(void);
extern uint32_t c14_small_crc32(const uint8_t *buf, size_t size, uint32_t crc);
extern uint64_t c14_small_crc64(const uint8_t *buf, size_t size, uint64_t crc);

static unsigned long long calls;
static unsigned long mismatches;

static int hexval(int c) { return c <= '9' ? c - '0' : (c | 32) - 'a' + 10; }

static size_t unhex(const char *s, uint8_t *out)
{
	if (s[0] == '-')
		return 0;
	size_t n = 0;
	for (; s[0] && s[1]; s += 2)
		out[n++] = (uint8_t)(hexval(s[0]) * 16 + hexval(s[1]));
	return n;
}

static void report(unsigned long cs, const char *what, unsigned align, const uint8_t *got, const uint8_t *want, size_t n)
{
	if (++mismatches > 400)
		return;
	printf("MISMATCH case=%lu what=%s align=%u got=", cs, what, align);
	for (size_t i = 0; i < n; ++i) printf("%02x", got[i]);
	printf(" want=");
	for (size_t i = 0; i < n; ++i) printf("%02x", want[i]);
	printf("\n");
}

typedef uint32_t (*f32)(const uint8_t *, size_t, uint32_t);
typedef uint64_t (*f64)(const uint8_t *, size_t, uint64_t);

int main(void)
{
	static char line[1 << 18];
	static uint8_t data[1 << 16], expect[64], initb[16];
	static size_t pieces[1 << 12];
	unsigned long cs = 0;
	const char *names32[6]; f32 fn32[6]; int n32 = 0;
	const char *names64[6]; f64 fn64[6]; int n64 = 0;

	names32[n32] = "api"; fn32[n32++] = &lzma_crc32;
	names32[n32] = "copy"; fn32[n32++] = &c14_copy_lzma_crc32;
	if (c14_crc32_have_generic()) { names32[n32] = "generic"; fn32[n32++] = &c14_crc32_generic; }
	if (c14_crc32_have_clmul()) { names32[n32] = "clmul"; fn32[n32++] = &c14_crc32_clmul; }
	names32[n32] = "small"; fn32[n32++] = &c14_small_crc32;
	names64[n64] = "api"; fn64[n64++] = &lzma_crc64;
	names64[n64] = "copy"; fn64[n64++] = &c14_copy_lzma_crc64;
	if (c14_crc64_have_generic()) { names64[n64] = "generic"; fn64[n64++] = &c14_crc64_generic; }
	if (c14_crc64_have_clmul()) { names64[n64] = "clmul"; fn64[n64++] = &c14_crc64_clmul; }

	names64[n64] = "small"; fn64[n64++] = &c14_small_crc64;

	while (fgets(line, sizeof(line), stdin)) {
		char *save = NULL;
		char *type = strtok_r(line, " \n", &save);
		if (type == NULL)
			continue;
		char *inith = strtok_r(NULL, " \n", &save);
		char *datah = strtok_r(NULL, " \n", &save);
		size_t np = strtoul(strtok_r(NULL, " \n", &save), NULL, 10);
		size_t total = 0;
		for (size_t i = 0; i < np; ++i) {
			pieces[i] = strtoul(strtok_r(NULL, " \n", &save), NULL, 10);
			total += pieces[i];
		}
		char *exph = strtok_r(NULL, " \n", &save);
		if (exph == NULL) { printf("BADLINE %lu\n", cs); return 2; }
		const size_t ninit = unhex(inith, initb);
		const size_t n = unhex(datah, data);
		const size_t nexp = unhex(exph, expect);
		if (n != total) { printf("BADLINE %lu (pieces do not add up)\n", cs); return 2; }
		const int is32 = strcmp(type, "crc32") == 0, is64 = strcmp(type, "crc64") == 0;
		const lzma_check id = is32 ? LZMA_CHECK_CRC32 : is64 ? LZMA_CHECK_CRC64 : LZMA_CHECK_SHA256;
		if (nexp != lzma_check_size(id)) { printf("BADLINE %lu (expect size)\n", cs); return 2; }
		int init_zero = 1;
		for (size_t i = 0; i < ninit; ++i)
			if (initb[i]) init_zero = 0;

		for (unsigned align = 0; align < 64; ++align) {
			uint8_t *region;
			if (posix_memalign((void **)&region, 64, align + n + (align + n == 0)))
				return 3;
			uint8_t *buf = region + align;
			memcpy(buf, data, n);
			POISON(region, align);

			if (is32) {
				uint32_t init = 0, want = 0;
				for (size_t i = 0; i < 4; ++i) { init |= (uint32_t)initb[i] << (8 * i); want |= (uint32_t)expect[i] << (8 * i); }
				for (int k = 0; k < n32; ++k) {
					uint32_t crc = init;
					size_t off = 0;
					for (size_t i = 0; i < np; ++i) {
						crc = fn32[k](buf + off, pieces[i], crc);
						off += pieces[i];
						++calls;
					}
					if (crc != want) {
						uint8_t g[4] = { crc, crc >> 8, crc >> 16, crc >> 24 };
						report(cs, names32[k], align, g, expect, 4);
					}
				}
			} else if (is64) {
				uint64_t init = 0, want = 0;
				for (size_t i = 0; i < 8; ++i) { init |= (uint64_t)initb[i] << (8 * i); want |= (uint64_t)expect[i] << (8 * i); }
				for (int k = 0; k < n64; ++k) {
					uint64_t crc = init;
					size_t off = 0;
					for (size_t i = 0; i < np; ++i) {
						crc = fn64[k](buf + off, pieces[i], crc);
						off += pieces[i];
						++calls;
					}
					if (crc != want) {
						uint8_t g[8];
						for (size_t i = 0; i < 8; ++i) g[i] = (uint8_t)(crc >> (8 * i));
						report(cs, names64[k], align, g, expect, 8);
					}
				}
			}

			if (init_zero) {
				lzma_check_state st;
				memset(&st, 0xA5 + align, sizeof(st));
				lzma_check_init(&st, id);
				size_t off = 0;
				for (size_t i = 0; i < np; ++i) {
					lzma_check_update(&st, id, buf + off, pieces[i]);
					off += pieces[i];
					++calls;
				}
				lzma_check_finish(&st, id);
				if (memcmp(st.buffer.u8, expect, nexp) != 0)
					report(cs, "check_iface", align, st.buffer.u8, expect, nexp);
			}

			if (init_zero && np == 1 && align == 0 && n > 0) {
				lzma_filter filters[2];
				lzma_options_lzma opt;
				lzma_lzma_preset(&opt, 0);
				filters[0].id = LZMA_FILTER_LZMA2; filters[0].options = &opt;
				filters[1].id = LZMA_VLI_UNKNOWN; filters[1].options = NULL;
				lzma_block blk;
				memset(&blk, 0, sizeof(blk));
				blk.version = 0; blk.check = id; blk.filters = filters;
				const size_t cap = lzma_block_buffer_bound(n) + 64;
				uint8_t *out = malloc(cap), *back = malloc(n + 1);
				size_t out_pos = 0;
				lzma_ret r = lzma_block_uncomp_encode(&blk, buf, n, out, &out_pos, cap);
				++calls;
				if (r != LZMA_OK) {
					uint8_t g[1] = { (uint8_t)r };
					report(cs, "block_encode_ret", 0, g, g, 1);
				} else {
					if (memcmp(blk.raw_check, expect, nexp) != 0)
						report(cs, "block_raw_check", 0, blk.raw_check, expect, nexp);
					if (memcmp(out + out_pos - nexp, expect, nexp) != 0)
						report(cs, "block_check_field", 0, out + out_pos - nexp, expect, nexp);
					for (int flip = 0; flip < 2; ++flip) {
						lzma_block db;
						lzma_filter df[LZMA_FILTERS_MAX + 1];
						memset(&db, 0, sizeof(db));
						db.version = 0; db.check = id; db.filters = df;
						db.header_size = lzma_block_header_size_decode(out[0]);
						r = lzma_block_header_decode(&db, NULL, out);
						if (r != LZMA_OK) { uint8_t g[1] = { (uint8_t)r }; report(cs, "block_header_decode", 0, g, g, 1); break; }
						size_t ip = db.header_size, op = 0;
						if (flip)
							out[out_pos - 1 - (cs % nexp)] ^= (uint8_t)(1u << (cs % 8));
						r = lzma_block_buffer_decode(&db, NULL, out, &ip, out_pos, back, &op, n);
						++calls;
						const lzma_ret wantr = flip ? LZMA_DATA_ERROR : LZMA_OK;
						if (r != wantr || (!flip && (op != n || memcmp(back, buf, n) != 0))) {
							uint8_t g[1] = { (uint8_t)r }, w[1] = { (uint8_t)wantr };
							report(cs, flip ? "block_decode_corrupt_check" : "block_decode", 0, g, w, 1);
						}
						for (size_t i = 0; df[i].id != LZMA_VLI_UNKNOWN && i < LZMA_FILTERS_MAX; ++i)
							free(df[i].options);
					}
				}
				free(out); free(back);
			}

			UNPOISON(region, align);
			free(region);
		}
		++cs;
	}

	printf("DONE cases=%lu calls=%llu mismatches=%lu impls32=", cs, calls, mismatches);
	for (int k = 0; k < n32; ++k) printf("%s%s", k ? "," : "", names32[k]);
	printf(" impls64=");
	for (int k = 0; k < n64; ++k) printf("%s%s", k ? "," : "", names64[k]);
	printf("\n");
	return 0;
}
