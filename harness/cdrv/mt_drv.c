// Driver for the threaded coders (C07: decoder, C08: encoder).
//
// Runs lzma_stream_decoder_mt / lzma_stream_encoder_mt on a file with a seeded buffer slicing and a
// seeded schedule perturbation, records every VERIF_EV() hook event (emitted by liblzma inside its
// critical sections), every pthread_cond_signal (link-time --wrap) and every lzma_code call/return
// with one global atomic sequence number, and writes them as ndjson.
//
// usage: mt_drv dec|enc IN OUT TRACE key=value...
//   threads=N timeout=MS flags=N memthr=BYTES memstop=BYTES seed=N perturb=0..100 endafter=K
//   blocksize=N preset=N  (encoder)   actions=csv (encoder: r,f,b = RUN / FULL_FLUSH / FULL_BARRIER offsets)
#define _GNU_SOURCE
#include <lzma.h>
#include <pthread.h>
#include <sched.h>
#include <signal.h>
#include <stdatomic.h>
#include <stdint.h>
#include <stdio.h>
#include <stdlib.h>
#include <string.h>
#include <unistd.h>

typedef void (*lzma_verif_ev_fn)(const char *name, const void *coder, long thr, long a, long b, long c, long d);
extern lzma_verif_ev_fn lzma_verif_ev;

#define MAXEV (1 << 20)
typedef struct { const char *name; int tid; long thr, a, b, c, d; } ev_t;
static ev_t *events;
static atomic_long nev;
static atomic_int ntid;
static __thread int my_tid = -1;
static __thread uint64_t my_rng;
static int perturb = 0;
static uint64_t seed = 1;
static const char *trace_path;

static int tid(void)
{
	if (my_tid < 0) {
		my_tid = atomic_fetch_add(&ntid, 1);
		my_rng = seed * 0x9E3779B97F4A7C15ull + (uint64_t)(my_tid + 1) * 0xBF58476D1CE4E5B9ull;
	}
	return my_tid;
}

static uint64_t rnd(void)
{
	tid();
	my_rng ^= my_rng << 13; my_rng ^= my_rng >> 7; my_rng ^= my_rng << 17;
	return my_rng;
}

static void maybe_perturb(void)
{
	if (perturb <= 0)
		return;
	uint64_t r = rnd();
	if ((int)(r % 100) < perturb) {
		if ((r >> 8) % 4 == 0)
			usleep((useconds_t)((r >> 16) % 300));
		else
			sched_yield();
	}
}

static void record(const char *name, long thr, long a, long b, long c, long d)
{
	long i = atomic_fetch_add(&nev, 1);
	if (i >= MAXEV)
		return;
	events[i].name = name; events[i].tid = tid(); events[i].thr = thr;
	events[i].a = a; events[i].b = b; events[i].c = c; events[i].d = d;
}

static void on_ev(const char *name, const void *coder, long thr, long a, long b, long c, long d)
{
	(void)coder;
	record(name, thr, a, b, c, d);
	maybe_perturb();
}

int __real_pthread_cond_signal(pthread_cond_t *cond);
int __wrap_pthread_cond_signal(pthread_cond_t *cond)
{
	record("Signal", -1, (long)((uintptr_t)cond & 0xFFFFFF), 0, 0, 0);
	maybe_perturb();
	return __real_pthread_cond_signal(cond);
}

int __real_pthread_mutex_lock(pthread_mutex_t *m);
int __wrap_pthread_mutex_lock(pthread_mutex_t *m)
{
	maybe_perturb();
	return __real_pthread_mutex_lock(m);
}

static void dump(const char *last)
{
	FILE *f = fopen(trace_path, "w");
	if (!f)
		_exit(4);
	long n = atomic_load(&nev);
	if (n > MAXEV) n = MAXEV;
	for (long i = 0; i < n; ++i)
		fprintf(f, "{\"e\":\"%s\",\"tid\":%d,\"w\":%ld,\"a\":%ld,\"b\":%ld,\"c\":%ld,\"d\":%ld}\n",
			events[i].name, events[i].tid, events[i].thr, events[i].a, events[i].b, events[i].c, events[i].d);
	if (last)
		fprintf(f, "{\"e\":\"%s\",\"tid\":0,\"w\":-1,\"a\":0,\"b\":0,\"c\":0,\"d\":0}\n", last);
	if (n >= MAXEV)
		fprintf(f, "{\"e\":\"OVERFLOW\",\"tid\":0,\"w\":-1,\"a\":0,\"b\":0,\"c\":0,\"d\":0}\n");
	fclose(f);
}

static void on_alarm(int sig)
{
	(void)sig;
	dump("HANG");
	_exit(3);
}

static long arg(int argc, char **argv, const char *key, long def)
{
	size_t kl = strlen(key);
	for (int i = 5; i < argc; ++i)
		if (strncmp(argv[i], key, kl) == 0 && argv[i][kl] == '=')
			return strtol(argv[i] + kl + 1, NULL, 0);
	return def;
}

static const char *sarg(int argc, char **argv, const char *key, const char *def)
{
	size_t kl = strlen(key);
	for (int i = 5; i < argc; ++i)
		if (strncmp(argv[i], key, kl) == 0 && argv[i][kl] == '=')
			return argv[i] + kl + 1;
	return def;
}

// failalloc=K: the K-th allocation liblzma makes through lzma_stream.allocator fails (once); any thread
static _Atomic long alloc_count;
static long alloc_fail_at;
static void *drv_alloc(void *opaque, size_t nmemb, size_t size)
{
	(void)opaque;
	long n = atomic_fetch_add(&alloc_count, 1) + 1;
	if (alloc_fail_at && n == alloc_fail_at)
		return NULL;
	return malloc(nmemb * size ? nmemb * size : 1);
}
static void drv_free(void *opaque, void *ptr) { (void)opaque; free(ptr); }
static lzma_allocator drv_allocator = { &drv_alloc, &drv_free, NULL };

uint8_t *mt_drv_keep[2];     // the driver's own buffers stay reachable: not reported by LeakSanitizer

int main(int argc, char **argv)
{
	if (argc < 5)
		return 2;
	int enc = strcmp(argv[1], "enc") == 0;
	trace_path = argv[4];
	seed = (uint64_t)arg(argc, argv, "seed", 1);
	perturb = (int)arg(argc, argv, "perturb", 0);
	long endafter = arg(argc, argv, "endafter", -1);
	long watchdog = arg(argc, argv, "watchdog", 25);
	long cpus = arg(argc, argv, "cpus", 0);
	if (cpus > 0) {
		cpu_set_t set; CPU_ZERO(&set);
		for (long i = 0; i < cpus; ++i) CPU_SET((int)i, &set);
		sched_setaffinity(0, sizeof(set), &set);
	}

	events = calloc(MAXEV, sizeof(ev_t));
	FILE *fi = fopen(argv[2], "rb");
	if (!fi || !events) return 2;
	fseek(fi, 0, SEEK_END); long flen = ftell(fi); fseek(fi, 0, SEEK_SET);
	uint8_t *in = mt_drv_keep[0] = malloc((size_t)flen + 1);
	if (fread(in, 1, (size_t)flen, fi) != (size_t)flen) return 2;
	fclose(fi);
	size_t outcap = (size_t)arg(argc, argv, "outcap", 1 << 26);
	uint8_t *out = mt_drv_keep[1] = malloc(outcap);

	signal(SIGALRM, on_alarm);
	alarm((unsigned)watchdog);
	tid();
	lzma_verif_ev = &on_ev;

	lzma_stream strm = LZMA_STREAM_INIT;
	alloc_fail_at = arg(argc, argv, "failalloc", 0);
	if (alloc_fail_at)
		strm.allocator = &drv_allocator;
	lzma_mt mt;
	memset(&mt, 0, sizeof(mt));
	mt.threads = (uint32_t)arg(argc, argv, "threads", 2);
	mt.timeout = (uint32_t)arg(argc, argv, "timeout", 0);
	mt.flags = (uint32_t)arg(argc, argv, "flags", 0);
	lzma_ret r;
	long updates = arg(argc, argv, "updates", 0);
	lzma_options_lzma opt_lzma;
	lzma_options_delta opt_delta = { .type = LZMA_DELTA_TYPE_BYTE, .dist = 1 };
	lzma_filter chain[3] = { { LZMA_FILTER_DELTA, &opt_delta }, { LZMA_FILTER_LZMA2, &opt_lzma }, { LZMA_VLI_UNKNOWN, NULL } };
	if (enc) {
		mt.block_size = (uint64_t)arg(argc, argv, "blocksize", 0);
		mt.preset = (uint32_t)arg(argc, argv, "preset", 0);
		mt.check = (lzma_check)arg(argc, argv, "check", LZMA_CHECK_CRC32);
		if (updates) {
			// filter chain [delta(dist), LZMA2]: dist tells in the Block Headers which chain a Block was made with
			lzma_lzma_preset(&opt_lzma, mt.preset);
			mt.filters = chain;
		}
		r = lzma_stream_encoder_mt(&strm, &mt);
	} else {
		mt.memlimit_threading = (uint64_t)arg(argc, argv, "memthr", -1);
		mt.memlimit_stop = (uint64_t)arg(argc, argv, "memstop", -1);
		r = lzma_stream_decoder_mt(&strm, &mt);
	}
	record("Init", -1, r, mt.threads, 0, 0);
	if (r != LZMA_OK) {
		dump(NULL);
		lzma_end(&strm);
		printf("ret=%d init\n", (int)r);
		return (alloc_fail_at && r == LZMA_MEM_ERROR) ? 0 : 1;
	}

	// encoder action script: "f1000,b5000" = FULL_FLUSH after 1000 input bytes, FULL_BARRIER after 5000
	const char *script = sarg(argc, argv, "actions", "");
	long act_off[64]; int act_kind[64]; int nact = 0;
	for (const char *p = script; *p && nact < 64; ) {
		act_kind[nact] = (*p == 'f') ? LZMA_FULL_FLUSH : LZMA_FULL_BARRIER;
		act_off[nact] = strtol(p + 1, (char **)&p, 10);
		++nact;
		if (*p == ',') ++p;
	}
	int next_act = 0;

	size_t ip = 0, op = 0;
	long calls = 0;
	int slicing = (int)arg(argc, argv, "slicing", 1);
	static const size_t in_sizes[] = { 0, 1, 7, 100, 4096, 20000, (size_t)-1 };
	static const size_t out_sizes[] = { 0, 1, 100, 5000, 65536, (size_t)-1 };
	lzma_ret ret = LZMA_OK;
	lzma_action pending_action = LZMA_RUN;   // a flush in progress must be repeated with the same input
	long lateact = arg(argc, argv, "lateact", 0);
	long reinit_after = arg(argc, argv, "reinit_after", -1);
	long split_at = arg(argc, argv, "split_at", -1);
	int holdcalls = 0;
	int reinited = 0;
	while (1) {
		if (endafter >= 0 && calls >= endafter)
			break;
		if (!reinited && reinit_after >= 0 && calls >= reinit_after) {
			// give the same lzma_stream to the constructor again without lzma_end() and start over
			// reinit_blocksize=N: ask for another block_size this time (same thread count)
			long nbs = arg(argc, argv, "reinit_blocksize", 0);
			if (enc && nbs > 0) mt.block_size = (uint64_t)nbs;
			// reinit_threads=N: another thread count this time
			long nthr = arg(argc, argv, "reinit_threads", 0);
			if (enc && nthr > 0) mt.threads = (uint32_t)nthr;
			record("AppReinit", -1, enc ? nbs : 0, enc ? nthr : 0, 0, 0);
			opt_delta.dist = 1;
			r = enc ? lzma_stream_encoder_mt(&strm, &mt) : lzma_stream_decoder_mt(&strm, &mt);
			record("Reinited", -1, r, 0, 0, 0);
			if (r != LZMA_OK) break;
			reinited = 1; ip = 0; op = 0; strm.avail_in = 0; next_act = 0; pending_action = LZMA_RUN;
			if (endafter >= 0) endafter += calls;
			continue;
		}
		size_t limit = (size_t)flen;
		lzma_action action;
		if (pending_action != LZMA_RUN) {
			action = pending_action;     // same action, same avail_in
		} else {
			if (enc && next_act < nact && (size_t)act_off[next_act] < limit)
				limit = (size_t)act_off[next_act] < ip ? ip : (size_t)act_off[next_act];
			size_t pend = strm.avail_in;
			size_t k = slicing ? in_sizes[rnd() % (sizeof(in_sizes) / sizeof(in_sizes[0]))] : (size_t)-1;
			// split_at=N: give exactly N bytes first, then a few calls without new input (so that the
			// workers consume everything they have), then the rest
			if (split_at >= 0 && holdcalls < 3 && (size_t)split_at < limit) {
				if (ip + pend >= (size_t)split_at) { k = 0; ++holdcalls; }
				else { limit = (size_t)split_at; if (!slicing) k = (size_t)-1; }
			}
			if (k > limit - ip - pend) k = limit - ip - pend;
			strm.next_in = in + ip;
			strm.avail_in = pend + k;
			if (ip + strm.avail_in == (size_t)flen)
				action = LZMA_FINISH;
			else if (enc && next_act < nact && ip + strm.avail_in == (size_t)act_off[next_act])
				action = (lzma_action)act_kind[next_act];
			else
				action = LZMA_RUN;
			// lateact=1: the bytes first (LZMA_RUN), then - after the workers had time to use them up and go to
			// sleep - the flush / barrier / finish action in a call of its own that brings no new input
			if (lateact && action != LZMA_RUN) {
				if (strm.avail_in > 0)
					action = LZMA_RUN;
				else
					usleep(2000);
			}
		}
		size_t g = slicing ? out_sizes[rnd() % (sizeof(out_sizes) / sizeof(out_sizes[0]))] : (size_t)-1;
		if (g > outcap - op) g = outcap - op;
		strm.next_out = out + op;
		strm.avail_out = g;
		size_t ain = strm.avail_in, aout = strm.avail_out;
		record("AppCall", -1, action, (long)ain, (long)aout, 0);
		ret = lzma_code(&strm, action);
		++calls;
		ip += ain - strm.avail_in;
		op += aout - strm.avail_out;
		record("Ret", -1, ret, (long)strm.total_in, (long)strm.total_out, (long)(ain - strm.avail_in));
		if (rnd() % 3 == 0 || ret == LZMA_STREAM_END) {
			uint64_t pin = 0, pout = 0;
			lzma_get_progress(&strm, &pin, &pout);
			record("Progress", -1, (long)pin, (long)pout, 0, 0);
		}
		if (enc && ret == LZMA_STREAM_END && action != LZMA_FINISH) {
			// flush / barrier completed
			record("FlushDone", -1, action, (long)ip, (long)op, 0);
			pending_action = LZMA_RUN;
			++next_act;
			if (enc && updates) {
				// between two Blocks: change the chain (accepted after a barrier / flush: no Block is open)
				++opt_delta.dist;
				lzma_ret u = lzma_filters_update(&strm, chain);
				record("Update", -1, u, (long)opt_delta.dist, 0, 0);
				if (u != LZMA_OK) --opt_delta.dist;
			}
			continue;
		}
		if (ret == LZMA_OK && action != LZMA_RUN && action != LZMA_FINISH)
			pending_action = action;
		if (enc && updates && ret == LZMA_OK && action == LZMA_RUN && rnd() % 4 == 0) {
			// an update at an arbitrary moment: accepted only if no Block is open
			++opt_delta.dist;
			lzma_ret u = lzma_filters_update(&strm, chain);
			record("Update", -1, u, (long)opt_delta.dist, 0, 0);
			if (u != LZMA_OK) --opt_delta.dist;
		}
		if (ret == LZMA_MEMLIMIT_ERROR && !enc && arg(argc, argv, "raise", 0)) {
			// the refusal is not fatal: raise memlimit_stop to what lzma_memusage() asks for and go on
			uint64_t need = lzma_memusage(&strm);
			lzma_ret u = lzma_memlimit_set(&strm, need);
			record("MemlimitSet", -1, (long)need, u, 0, 0);
			if (u == LZMA_OK) continue;
		}
		if (!enc && (ret == LZMA_NO_CHECK || ret == LZMA_UNSUPPORTED_CHECK || ret == LZMA_GET_CHECK)) {
			// notification asked for with LZMA_TELL_*: look at the Check type and go on
			record("GetCheck", -1, (long)lzma_get_check(&strm), 0, 0, 0);
			continue;
		}
		if (ret != LZMA_OK && ret != LZMA_BUF_ERROR)
			break;
		if (ret == LZMA_BUF_ERROR && action == LZMA_FINISH && g == outcap - op + (aout - strm.avail_out) && g > 0)
			break;         // all input given, full output space offered: final verdict
		if (calls > 200000) { record("TOOMANYCALLS", -1, 0, 0, 0, 0); break; }
	}
	record("AppEnd", -1, ret, (long)ip, (long)op, 0);
	lzma_end(&strm);
	record("Freed", -1, 0, 0, 0, 0);
	alarm(0);
	lzma_verif_ev = NULL;
	FILE *fo = fopen(argv[3], "wb");
	if (fo) { fwrite(out, 1, op, fo); fclose(fo); }
	dump(NULL);
	printf("ret=%d in=%zu out=%zu calls=%ld events=%ld allocs=%ld\n", (int)ret, ip, op, calls, (long)atomic_load(&nev),
			(long)atomic_load(&alloc_count));
	return 0;
}
