// C14 driver for very long inputs (built against the plain -O2 library; no sanitizer: the point is 64-bit size
// arithmetic, and the inputs are many GiB).
//
// stdin lines:
//   Z <crc32|crc64> <init-hex LE> <size> <off> <expect-hex LE> <impl,impl,..>
//        one call over `size` zero bytes starting `off` bytes into a read-only anonymous mapping that is never
//        written (all pages are the kernel's zero page: no memory is used); every listed implementation
//        (api = dispatched lzma_crc32/64, clmul, generic, small) must return `expect`.
//   H <size> <lead> <chunk> <seed>
//        SHA-256 through lzma_check_init / lzma_check_update / lzma_check_finish: first `lead` bytes, then
//        `chunk`-byte pieces of one buffer (256-byte pattern (j * 167 + seed) & 255 repeated) until `size` bytes
//        were given.  Prints the execution as ndjson for TraceCheck.tla ("T {...}" lines): every update with the
//        real byte counter, the complete state before finish, the digest.
// stdout: MISMATCH case=<line> what=<impl> got=.. want=.., T lines, DONE lines=<n>
#include "check.h"
#include "lzma.h"
#include <stdio.h>
#include <stdlib.h>
#include <string.h>
#include <sys/mman.h>

extern uint32_t c14_crc32_generic(const uint8_t *buf, size_t size, uint32_t crc);
extern uint32_t c14_crc32_clmul(const uint8_t *buf, size_t size, uint32_t crc);
extern int c14_crc32_have_clmul(void);
extern int c14_crc32_have_generic(void);
extern uint64_t c14_crc64_generic(const uint8_t *buf, size_t size, uint64_t crc);
extern uint64_t c14_crc64_clmul(const uint8_t *buf, size_t size, uint64_t crc);
extern int c14_crc64_have_clmul(void);
extern int c14_crc64_have_generic(void);
extern uint32_t c14_small_crc32(const uint8_t *buf, size_t size, uint32_t crc);
extern uint64_t c14_small_crc64(const uint8_t *buf, size_t size, uint64_t crc);

static int hexval(int c) { return c <= '9' ? c - '0' : (c | 32) - 'a' + 10; }
static uint64_t unhex_le(const char *s)
{
	uint64_t v = 0;
	for (unsigned i = 0; s[0] && s[1]; s += 2, ++i)
		v |= (uint64_t)(hexval(s[0]) * 16 + hexval(s[1])) << (8 * i);
	return v;
}

int main(void)
{
	static char line[4096];
	unsigned long ln = 0;
	setvbuf(stdout, NULL, _IOLBF, 0);
	while (fgets(line, sizeof(line), stdin)) {
		++ln;
		char *save = NULL;
		char *kind = strtok_r(line, " \n", &save);
		if (kind == NULL) continue;
#define TOK() strtok_r(NULL, " \n", &save)
		if (kind[0] == 'Z') {
			const char *type = TOK();
			const uint64_t init = unhex_le(TOK());
			const unsigned long long size = strtoull(TOK(), NULL, 10);
			const unsigned long off = strtoul(TOK(), NULL, 10);
			const uint64_t want = unhex_le(TOK());
			char *impls = TOK();
			if (impls == NULL || sizeof(size_t) < 8) { printf("BADLINE %lu\n", ln); return 2; }
			uint8_t *map = mmap(NULL, size + off + 1, PROT_READ, MAP_PRIVATE | MAP_ANONYMOUS | MAP_NORESERVE, -1, 0);
			if (map == MAP_FAILED) { printf("NOMAP %lu\n", ln); continue; }
			const int is32 = strcmp(type, "crc32") == 0;
			char *isave = NULL;
			for (char *im = strtok_r(impls, ",", &isave); im; im = strtok_r(NULL, ",", &isave)) {
				uint64_t got;
				if (is32) {
					uint32_t (*f)(const uint8_t *, size_t, uint32_t) =
						!strcmp(im, "api") ? &lzma_crc32 : !strcmp(im, "generic") ? &c14_crc32_generic
						: !strcmp(im, "small") ? &c14_small_crc32 : &c14_crc32_clmul;
					if ((!strcmp(im, "clmul") && !c14_crc32_have_clmul()) || (!strcmp(im, "generic") && !c14_crc32_have_generic())) continue;
					got = f(map + off, (size_t)size, (uint32_t)init);
				} else {
					uint64_t (*f)(const uint8_t *, size_t, uint64_t) =
						!strcmp(im, "api") ? &lzma_crc64 : !strcmp(im, "generic") ? &c14_crc64_generic
						: !strcmp(im, "small") ? &c14_small_crc64 : &c14_crc64_clmul;
					if ((!strcmp(im, "clmul") && !c14_crc64_have_clmul()) || (!strcmp(im, "generic") && !c14_crc64_have_generic())) continue;
					got = f(map + off, (size_t)size, init);
				}
				printf("%s case=%lu what=%s type=%s size=%llu got=%016llx want=%016llx\n", got == want ? "SAME" : "MISMATCH",
						ln, im, type, size, (unsigned long long)got, (unsigned long long)want);
			}
			munmap(map, size + off + 1);
		} else if (kind[0] == 'H') {
			const unsigned long long size = strtoull(TOK(), NULL, 10);
			const size_t lead = strtoul(TOK(), NULL, 10);
			const size_t chunk = strtoul(TOK(), NULL, 10);
			const unsigned seed = (unsigned)strtoul(TOK(), NULL, 10);
			uint8_t *buf = malloc(chunk);
			for (size_t j = 0; j < chunk; ++j) buf[j] = (uint8_t)(((j & 255) * 167 + seed) & 255);
			lzma_check_state st;
			memset(&st, 0x5A, sizeof(st));
			lzma_check_init(&st, LZMA_CHECK_SHA256);
			printf("T {\"e\":\"Reset\"}\n");
			unsigned long long given = 0;
			while (given < size) {
				size_t n = given == 0 && lead > 0 ? lead : chunk;
				if (n > size - given) n = (size_t)(size - given);
				lzma_check_update(&st, LZMA_CHECK_SHA256, buf, n);
				given += n;
				printf("T {\"e\":\"Update\",\"n\":%zu,\"size\":%llu,\"bufpos\":%u}\n", n,
						(unsigned long long)st.state.sha256.size, (unsigned)(st.state.sha256.size & 63));
			}
			printf("T {\"e\":\"Finish\",\"size\":%llu,\"h\":[", (unsigned long long)st.state.sha256.size);
			for (int i = 0; i < 8; ++i)
				printf("%s[%u,%u]", i ? "," : "", (unsigned)(st.state.sha256.state[i] & 0xFFFF), (unsigned)(st.state.sha256.state[i] >> 16));
			printf("],\"buf\":[");
			for (int i = 0; i < 64; ++i) printf("%s%u", i ? "," : "", st.buffer.u8[i]);
			lzma_check_finish(&st, LZMA_CHECK_SHA256);
			printf("],\"digest\":[");
			for (int i = 0; i < 32; ++i) printf("%s%u", i ? "," : "", st.buffer.u8[i]);
			printf("]}\n");
			printf("DIGEST case=%lu size=%llu ", ln, size);
			for (int i = 0; i < 32; ++i) printf("%02x", st.buffer.u8[i]);
			printf("\n");
			free(buf);
		} else {
			printf("BADLINE %lu\n", ln);
			return 2;
		}
	}
	printf("DONE lines=%lu\n", ln);
	return 0;
}
