"""Non-last filters of the .xz format: Delta (xz-file-format.txt 5.3.3) and the simple BCJ filters.

Delta is written from the format document.  The BCJ converters (x86, PowerPC, ARM, ARM-Thumb, SPARC,
ARM64) are written from the public-domain LZMA SDK converters (Bra.c / Bra86.c) and the published
description of the ARM64 filter; IA64 and RISC-V are NOT implemented (-> KeyError in CODERS, the .xz
judge answers 'unsupported-by-glue').  All functions work on a whole buffer at once; the trailing
bytes that a converter cannot process are passed through unchanged (what a decoder does at the end).
"""
FILTER_LZMA2 = 0x21
FILTER_DELTA = 0x03
FILTER_X86, FILTER_POWERPC, FILTER_IA64, FILTER_ARM, FILTER_ARMTHUMB, FILTER_SPARC, FILTER_ARM64, FILTER_RISCV = \
    4, 5, 6, 7, 8, 9, 10, 11
BCJ_ALIGN = {4: 1, 5: 4, 6: 16, 7: 4, 8: 2, 9: 4, 10: 4, 11: 2}
NAMES = {0x21: "lzma2", 3: "delta", 4: "x86", 5: "powerpc", 6: "ia64", 7: "arm", 8: "armthumb", 9: "sparc",
         10: "arm64", 11: "riscv"}
M32 = 0xFFFFFFFF

def delta(data, dist, encode):
    """dist = 1..256 (properties byte + 1)."""
    if not 1 <= dist <= 256:
        raise ValueError("delta distance")
    out = bytearray(data)
    if encode:
        src = bytes(data)
        for i in range(dist, len(out)):
            out[i] = (src[i] - src[i - dist]) & 0xFF
    else:
        for i in range(dist, len(out)):
            out[i] = (out[i] + out[i - dist]) & 0xFF
    return bytes(out)

def _powerpc(buf, ip, enc):
    n = len(buf) & ~3
    for i in range(0, n, 4):
        if (buf[i] >> 2) == 0x12 and (buf[i + 3] & 3) == 1:
            src = ((buf[i] & 3) << 24) | (buf[i + 1] << 16) | (buf[i + 2] << 8) | (buf[i + 3] & ~3 & 0xFF)
            dest = (ip + i + src) & M32 if enc else (src - (ip + i)) & M32
            buf[i] = 0x48 | ((dest >> 24) & 3)
            buf[i + 1] = (dest >> 16) & 0xFF
            buf[i + 2] = (dest >> 8) & 0xFF
            buf[i + 3] = (buf[i + 3] & 3) | (dest & 0xFC)

def _arm(buf, ip, enc):
    n = len(buf) & ~3
    for i in range(0, n, 4):
        if buf[i + 3] == 0xEB:
            src = ((buf[i + 2] << 16) | (buf[i + 1] << 8) | buf[i]) << 2
            dest = (ip + i + 8 + src) & M32 if enc else (src - (ip + i + 8)) & M32
            dest >>= 2
            buf[i + 2] = (dest >> 16) & 0xFF
            buf[i + 1] = (dest >> 8) & 0xFF
            buf[i] = dest & 0xFF

def _armthumb(buf, ip, enc):
    n = len(buf)
    i = 0
    while i + 4 <= n:
        if (buf[i + 1] & 0xF8) == 0xF0 and (buf[i + 3] & 0xF8) == 0xF8:
            src = (((buf[i + 1] & 7) << 19) | (buf[i] << 11) | ((buf[i + 3] & 7) << 8) | buf[i + 2]) << 1
            dest = (ip + i + 4 + src) & M32 if enc else (src - (ip + i + 4)) & M32
            dest >>= 1
            buf[i + 1] = 0xF0 | ((dest >> 19) & 7)
            buf[i] = (dest >> 11) & 0xFF
            buf[i + 3] = 0xF8 | ((dest >> 8) & 7)
            buf[i + 2] = dest & 0xFF
            i += 2
        i += 2

def _sparc(buf, ip, enc):
    n = len(buf) & ~3
    for i in range(0, n, 4):
        if (buf[i] == 0x40 and (buf[i + 1] & 0xC0) == 0x00) or (buf[i] == 0x7F and (buf[i + 1] & 0xC0) == 0xC0):
            src = ((buf[i] << 24) | (buf[i + 1] << 16) | (buf[i + 2] << 8) | buf[i + 3])
            src = (src << 2) & M32
            dest = (ip + i + src) & M32 if enc else (src - (ip + i)) & M32
            dest >>= 2
            dest = (((0 - ((dest >> 22) & 1)) << 22) & 0x3FFFFFFF) | (dest & 0x3FFFFF) | 0x40000000
            buf[i] = (dest >> 24) & 0xFF
            buf[i + 1] = (dest >> 16) & 0xFF
            buf[i + 2] = (dest >> 8) & 0xFF
            buf[i + 3] = dest & 0xFF

def _arm64(buf, ip, enc):
    n = len(buf) & ~3
    for i in range(0, n, 4):
        pc = (ip + i) & M32
        instr = buf[i] | (buf[i + 1] << 8) | (buf[i + 2] << 16) | (buf[i + 3] << 24)
        if (instr >> 26) == 0x25:                     # BL
            src = instr
            pc >>= 2
            if not enc:
                pc = (0 - pc) & M32
            instr = 0x94000000 | ((src + pc) & 0x03FFFFFF)
        elif (instr & 0x9F000000) == 0x90000000:      # ADRP
            src = ((instr >> 29) & 3) | ((instr >> 3) & 0x001FFFFC)
            if (src + 0x00020000) & 0x001C0000:
                continue
            instr &= 0x9000001F
            pc >>= 12
            if not enc:
                pc = (0 - pc) & M32
            dest = (src + pc) & M32
            instr |= (dest & 3) << 29
            instr |= (dest & 0x0003FFFC) << 3
            instr |= ((0 - (dest & 0x00020000)) & M32) & 0x00E00000
        else:
            continue
        buf[i] = instr & 0xFF
        buf[i + 1] = (instr >> 8) & 0xFF
        buf[i + 2] = (instr >> 16) & 0xFF
        buf[i + 3] = (instr >> 24) & 0xFF

_MASK_ALLOWED = (1, 1, 1, 0, 1, 0, 0, 0)
_MASK_BITNUM = (0, 1, 2, 2, 3, 3, 3, 3)

def _x86(buf, ip, enc):
    size = len(buf)
    if size < 5:
        return
    def msb(b):
        return b == 0 or b == 0xFF
    ip = (ip + 5) & M32
    pos = 0
    prev_pos = -1
    prev_mask = 0
    limit = size - 4
    while True:
        while pos < limit and (buf[pos] & 0xFE) != 0xE8:
            pos += 1
        if pos >= limit:
            break
        d = pos - prev_pos
        if d > 3:
            prev_mask = 0
        else:
            prev_mask = (prev_mask << (d - 1)) & 7
            if prev_mask != 0:
                b = buf[pos + 4 - _MASK_BITNUM[prev_mask]]
                if not _MASK_ALLOWED[prev_mask] or msb(b):
                    prev_pos = pos
                    prev_mask = ((prev_mask << 1) & 7) | 1
                    pos += 1
                    continue
        prev_pos = pos
        if msb(buf[pos + 4]):
            src = (buf[pos + 4] << 24) | (buf[pos + 3] << 16) | (buf[pos + 2] << 8) | buf[pos + 1]
            while True:
                if enc:
                    dest = (ip + pos + src) & M32
                else:
                    dest = (src - (ip + pos)) & M32
                if prev_mask == 0:
                    break
                index = _MASK_BITNUM[prev_mask] * 8
                b = (dest >> (24 - index)) & 0xFF
                if not msb(b):
                    break
                src = dest ^ ((1 << (32 - index)) - 1)
            buf[pos + 4] = (~(((dest >> 24) & 1) - 1)) & 0xFF
            buf[pos + 3] = (dest >> 16) & 0xFF
            buf[pos + 2] = (dest >> 8) & 0xFF
            buf[pos + 1] = dest & 0xFF
            pos += 5
        else:
            prev_mask = ((prev_mask << 1) & 7) | 1
            pos += 1

CODERS = {FILTER_X86: _x86, FILTER_POWERPC: _powerpc, FILTER_ARM: _arm, FILTER_ARMTHUMB: _armthumb,
          FILTER_SPARC: _sparc, FILTER_ARM64: _arm64}

def bcj(filter_id, data, start_offset=0, encode=False):
    """Apply a BCJ filter to a whole buffer. KeyError if the filter is not implemented (ia64, riscv)."""
    f = CODERS[filter_id]
    buf = bytearray(data)
    f(buf, start_offset & M32, encode)
    return bytes(buf)

def implemented(filter_id):
    return filter_id in (FILTER_LZMA2, FILTER_DELTA) or filter_id in CODERS

def apply_nonlast(filter_id, props, data, encode):
    """Run one non-last filter given its raw Filter Properties. data==b'' is passed through for any BCJ id."""
    if filter_id == FILTER_DELTA:
        return delta(data, props[0] + 1, encode)
    if not data:
        return b""
    start = int.from_bytes(props, "little") if len(props) == 4 else 0
    return bcj(filter_id, data, start, encode)
