"""The .lzma (LZMA_Alone) format, from /repo/doc/lzma-file-format.txt.

Header: Properties (1 byte, (pb*5+lp)*9+lc <= 224), Dictionary Size (u32 LE), Uncompressed Size
(u64 LE, 2^64-1 = unknown), then the raw LZMA1 stream.
"""
import struct
from . import FormatError
from . import lzma as _lz

UNKNOWN = 0xFFFFFFFFFFFFFFFF

def header(lc=3, lp=0, pb=2, dict_size=1 << 23, usize=UNKNOWN, props=None):
    """13 header bytes. `props` overrides the byte computed from lc/lp/pb (any value 0..255);
    usize None == UNKNOWN."""
    if props is None:
        props = _lz.props_byte(lc, lp, pb)
    if usize is None:
        usize = UNKNOWN
    return bytes([props & 0xFF]) + struct.pack("<IQ", dict_size & 0xFFFFFFFF, usize & UNKNOWN)

def build(symbols=None, data=None, lc=3, lp=0, pb=2, dict_size=1 << 23, usize='auto', eopm=None, props=None,
          header_dict_size=None, payload=None):
    """Write a .lzma file.

    Give `symbols` (encoded as they are; add ('eopm',) yourself or use eopm=True) or `data` (greedy parse) or a
    ready `payload`.  usize: 'auto' (real size) | None/UNKNOWN (unknown) | any integer (may be wrong on purpose).
    eopm: None -> marker iff size is unknown; True/False force.  header_dict_size: value written in the
    header when it should differ from the one used for parsing.
    """
    if payload is None:
        if symbols is None:
            symbols = _lz.greedy_parse(bytes(data), dict_size)
        symbols = list(symbols)
        real = len(_lz.expand(symbols, strict=False))
        if usize == 'auto':
            usize = real
        if usize is None:
            usize = UNKNOWN
        if eopm is None:
            eopm = usize == UNKNOWN
        if eopm and (not symbols or symbols[-1][0] != 'eopm'):
            symbols.append(('eopm',))
        payload = _lz.encode_symbols(symbols, lc, lp, pb)
    else:
        if usize == 'auto' or usize is None:
            usize = UNKNOWN
    return header(lc, lp, pb, dict_size if header_dict_size is None else header_dict_size, usize, props) + payload

class AloneResult:
    """verdict 'ok' | 'truncated' | 'error:<class>';  classes: props (Properties > 224), lzma:<reason of lzma.decode>
    lc, lp, pb, dict_size, usize (None = unknown), out, consumed (13 + LZMA bytes), trailing (bytes after the
    end of the LZMA stream: the xz tool treats them as corruption, lzma_alone_decoder leaves them unread),
    lzma (the lzma.Result), xz_utils_rejects: list of documented XZ Utils restrictions that this file hits
    ('lc+lp>4', 'dict_size_form', 'usize>=256GiB')."""
    def __init__(self):
        self.verdict = None; self.lc = self.lp = self.pb = None; self.dict_size = None; self.usize = None
        self.out = b""; self.consumed = 0; self.trailing = 0; self.lzma = None; self.xz_utils_rejects = []
    def __repr__(self):
        return "AloneResult(%s, lc/lp/pb=%s/%s/%s dict=%s usize=%s out=%d consumed=%d trailing=%d)" % (
            self.verdict, self.lc, self.lp, self.pb, self.dict_size, self.usize, len(self.out), self.consumed,
            self.trailing)

def dict_size_portable(ds):
    """2^n or 2^n + 2^(n-1) (the only sizes XZ Utils accepts in a .lzma header; it also accepts 2^32-1)."""
    if ds == 0xFFFFFFFF:
        return True
    if ds == 0:
        return False
    n = ds.bit_length() - 1
    return ds == 1 << n or (n >= 1 and ds == (1 << n) + (1 << (n - 1)))

def parse(data, collect='full', impl='auto'):
    data = bytes(data)
    R = AloneResult()
    if len(data) < 13:
        if data and data[0] > 224:
            R.verdict = 'error:props'
        else:
            R.verdict = 'truncated'
        R.consumed = len(data)
        return R
    try:
        R.lc, R.lp, R.pb = _lz.props_decode(data[0])
    except FormatError:
        R.verdict = 'error:props'
        return R
    R.dict_size, us = struct.unpack_from("<IQ", data, 1)
    R.usize = None if us == UNKNOWN else us
    if R.lc + R.lp > 4:
        R.xz_utils_rejects.append('lc+lp>4')
    if not dict_size_portable(R.dict_size):
        R.xz_utils_rejects.append('dict_size_form')
    if R.usize is not None and R.usize >= (1 << 38):
        R.xz_utils_rejects.append('usize>=256GiB')
    r = _lz.decode(data[13:], R.lc, R.lp, R.pb, R.dict_size, usize=R.usize, allow_eopm=True, collect=collect, impl=impl)
    R.lzma = r
    R.out = r.out
    R.consumed = 13 + r.consumed
    if r.status in ('ok_eopm', 'ok_size'):
        R.verdict = 'ok'
        R.trailing = len(data) - R.consumed
    elif r.status == 'need_more':
        R.verdict = 'truncated'
    else:
        R.verdict = 'error:lzma:' + r.status.split(':', 1)[1]
    return R
