"""LZMA2 chunk level (writer that can emit invalid sequences, header parser, decoder/judge).

Chunk format (LZMA SDK / xz LZMA2 description):
    control 0x00                end of LZMA2 stream
    control 0x01                uncompressed chunk, dictionary reset       | + size-1 (16 bit BE) + data
    control 0x02                uncompressed chunk, no reset               |
    control 0x03..0x7F          invalid
    control 0x80..0xFF          LZMA chunk: bits 0-4 = bits 16-20 of (usize-1); bits 5-6 = reset level
                                  0 nothing, 1 state reset, 2 state reset + new props, 3 = 2 + dictionary reset
                                + (usize-1 low 16 bits BE) + (csize-1, 16 bit BE) [+ props byte if level >= 2]
Decoder rules: the first chunk must reset the dictionary (0x01 or >= 0xE0) unless a preset dictionary
is used; after a dictionary reset the next LZMA chunk must carry props (>= 0xC0); props must have
lc+lp <= 4; each LZMA chunk is an independent range-coder stream that must produce exactly usize
bytes from exactly csize bytes, end with code == 0 and contain no end marker; LZMA state, reps and
probabilities persist across chunks (also across uncompressed chunks) unless reset.
"""
import collections
from . import FormatError
from . import lzma as _lz

RESET_LEVEL = {'none': 0, 'state': 1, 'state+props': 2, 'all': 3}
LEVEL_NAME = ['none', 'state', 'state+props', 'all']

Lzma2Result = collections.namedtuple("Lzma2Result", "out chunks status consumed")

# ---------------------------------------------------------------------------- writer
def write_chunk(c):
    k = c.get('kind')
    if k == 'raw':
        return bytes(c['bytes'])
    if k == 'end':
        return bytes([c.get('control', 0x00)])
    if k == 'uncompressed':
        payload = bytes(c.get('payload', c.get('data', b"")))
        control = c.get('control')
        if control is None:
            control = 0x01 if c.get('dict_reset') else 0x02
        size_raw = c.get('size_raw')
        if size_raw is None:
            sz = c.get('usize', len(payload))
            if not 1 <= sz <= 0x10000:
                raise ValueError("uncompressed chunk size %d not representable (use size_raw)" % sz)
            size_raw = sz - 1
        return bytes([control & 0xFF, (size_raw >> 8) & 0xFF, size_raw & 0xFF]) + payload
    if k == 'lzma':
        payload = bytes(c.get('payload', b""))
        level = RESET_LEVEL[c.get('reset', 'none')]
        usize_raw = c.get('usize_raw')
        if usize_raw is None:
            us = c['usize']
            if not 1 <= us <= (1 << 21):
                raise ValueError("lzma chunk usize %d not representable (use usize_raw 0..2^21-1)" % us)
            usize_raw = us - 1
        csize_raw = c.get('csize_raw')
        if csize_raw is None:
            cs = c.get('csize', len(payload))
            if not 1 <= cs <= 0x10000:
                raise ValueError("lzma chunk csize %d not representable (use csize_raw)" % cs)
            csize_raw = cs - 1
        control = c.get('control')
        if control is None:
            control = 0x80 | (level << 5) | ((usize_raw >> 16) & 0x1F)
        out = bytearray([control & 0xFF, (usize_raw >> 8) & 0xFF, usize_raw & 0xFF,
                         (csize_raw >> 8) & 0xFF, csize_raw & 0xFF])
        props = c.get('props')
        if props is None and level >= 2 and not c.get('omit_props'):
            raise ValueError("reset %r needs props= (or omit_props=True to produce a broken chunk)" % c.get('reset'))
        if props is not None:
            if isinstance(props, int):
                out.append(props & 0xFF)
            else:
                out += bytes(props)
        return bytes(out) + payload
    raise ValueError("unknown chunk kind %r" % (k,))

def write_chunks(chunks):
    """Serialise chunk dicts (see README).  Nothing is validated: any sequence can be produced.

    dict(kind='lzma', reset='none'|'state'|'state+props'|'all', usize=N, payload=bytes, props=int|None
         [, csize=N][, control=byte][, usize_raw=0..2^21-1][, csize_raw=0..65535][, omit_props=True])
    dict(kind='uncompressed', dict_reset=bool, payload=bytes [, usize=N][, size_raw=0..65535][, control=byte])
    dict(kind='end' [, control=byte])            dict(kind='raw', bytes=...)
    """
    return b"".join(write_chunk(c) for c in chunks)

def encode_chunks(plan, preset_dict=b"", strict=False):
    """Run one LzmaEncoder over a plan and return chunk dicts for write_chunks().

    plan items:  dict(kind='lzma', reset=..., symbols=[...] [, lc=,lp=,pb=] [any write_chunk override])
                 dict(kind='uncompressed', dict_reset=bool, data=bytes)      dict(kind='end')   dict(kind='raw', bytes=)
    Encoder state is reset exactly as the chunk's reset level says, so sequences that are *valid* decode
    to expand(all symbols); lc/lp/pb are taken from the item when reset is 'state+props' or 'all'
    (default 3/0/2) and otherwise remain what they were.
    Returns (chunks, uncompressed_bytes).
    """
    enc = _lz.LzmaEncoder(3, 0, 2, preset_dict=preset_dict, strict=strict)
    total = bytearray()
    out = []
    for it in plan:
        k = it['kind']
        if k in ('end', 'raw'):
            out.append(dict(it))
        elif k == 'uncompressed':
            data = bytes(it.get('data', it.get('payload', b"")))
            if it.get('dict_reset'):
                enc.reset_dict()
            enc.add_uncompressed(data)
            total += data
            c = dict(it)
            c.pop('data', None)
            c['payload'] = data
            out.append(c)
        elif k == 'lzma':
            level = RESET_LEVEL[it.get('reset', 'none')]
            c = dict(it)
            if level == 3:
                enc.reset_dict()
            if level >= 2:
                lc, lp, pb = it.get('lc', 3), it.get('lp', 0), it.get('pb', 2)
                enc.set_props(lc, lp, pb)
                c.setdefault('props', _lz.props_byte(lc, lp, pb))
            elif level == 1:
                enc.reset_state()
            before = enc.pos
            payload = enc.encode(it['symbols'], flush=True)
            produced = bytes(enc.out[before:])
            total += produced
            for key in ('symbols', 'lc', 'lp', 'pb'):
                c.pop(key, None)
            c['payload'] = payload
            c.setdefault('usize', len(produced))
            out.append(c)
        else:
            raise ValueError(k)
    return out, bytes(total)

def encode(data, dict_size=1 << 20, lc=3, lp=0, pb=2, chunk_usize=1 << 16, end=True, preset_dict=b"",
           nice_len=64, depth=8):
    """A simple VALID LZMA2 stream for `data` (greedy parse; falls back to uncompressed chunks)."""
    data = bytes(data)
    out = []
    enc = _lz.LzmaEncoder(lc, lp, pb, preset_dict=preset_dict)
    first = not preset_dict
    need_props = True
    need_state_reset = False
    pos = 0
    chunk_usize = min(chunk_usize, 1 << 21)
    while pos < len(data):
        piece = data[pos:pos + chunk_usize]
        hist = data[max(0, pos - dict_size):pos]
        pd = preset_dict if pos < dict_size else b""
        if need_props or need_state_reset:
            reps = None
            enc.reset_state()
        else:
            reps = enc.m.reps
        syms = _lz.greedy_parse(piece, dict_size, preset_dict=pd, history=hist, reps=reps, nice_len=nice_len, depth=depth)
        snapshot_pos = enc.pos
        payload = enc.encode(syms, flush=True)
        if len(payload) > 0x10000 or len(payload) >= len(piece):
            # uncompressed chunk(s); the encoder's model is stale now -> state reset next time
            for q in range(0, len(piece), 0x10000):
                out.append(dict(kind='uncompressed', dict_reset=first, payload=piece[q:q + 0x10000]))
                first = False
            need_state_reset = True
        else:
            if first:
                reset = 'all'
            elif need_props:
                reset = 'state+props'
            elif need_state_reset:
                reset = 'state'
            else:
                reset = 'none'
            c = dict(kind='lzma', reset=reset, usize=len(piece), payload=payload)
            if reset in ('all', 'state+props'):
                c['props'] = _lz.props_byte(lc, lp, pb)
            out.append(c)
            first = False
            need_props = False
            need_state_reset = False
        pos += len(piece)
    if end:
        out.append(dict(kind='end'))
    return write_chunks(out)

# ---------------------------------------------------------------------------- header parser
def parse_chunks(data, start=0):
    """Walk chunk headers without decoding payloads.

    -> list of dict(offset, control, kind 'end'|'uncompressed'|'lzma'|'invalid'|'truncated', header_len,
       reset (lzma: 'none'.. ; uncompressed: 'dict' or 'none'), usize, csize, props (int|None), payload_offset)
    Stops after an 'end', 'invalid' or 'truncated' entry.
    """
    out = []
    ip = start
    n = len(data)
    while True:
        if ip >= n:
            out.append(dict(offset=ip, control=None, kind='truncated'))
            break
        ctl = data[ip]
        if ctl == 0:
            out.append(dict(offset=ip, control=0, kind='end', header_len=1))
            break
        if 0x03 <= ctl < 0x80:
            out.append(dict(offset=ip, control=ctl, kind='invalid', header_len=1))
            break
        if ctl < 0x80:
            if n - ip < 3:
                out.append(dict(offset=ip, control=ctl, kind='truncated'))
                break
            sz = ((data[ip + 1] << 8) | data[ip + 2]) + 1
            out.append(dict(offset=ip, control=ctl, kind='uncompressed', header_len=3,
                            reset='dict' if ctl == 1 else 'none', usize=sz, csize=sz, props=None,
                            payload_offset=ip + 3))
            ip += 3 + sz
            continue
        hdr = 6 if ctl >= 0xC0 else 5
        if n - ip < hdr:
            out.append(dict(offset=ip, control=ctl, kind='truncated'))
            break
        us = (((ctl & 0x1F) << 16) | (data[ip + 1] << 8) | data[ip + 2]) + 1
        cs = ((data[ip + 3] << 8) | data[ip + 4]) + 1
        out.append(dict(offset=ip, control=ctl, kind='lzma', header_len=hdr, reset=LEVEL_NAME[(ctl >> 5) & 3],
                        usize=us, csize=cs, props=data[ip + 5] if hdr == 6 else None, payload_offset=ip + hdr))
        ip += hdr + cs
    return out

# ---------------------------------------------------------------------------- decoder / judge
def decode(data, dict_size, preset_dict=b"", collect='stats', impl='auto'):
    """Decode an LZMA2 stream at data[0:].  -> Lzma2Result(out, chunks, status, consumed)

    status: 'ok' (end marker 0x00 reached; consumed = bytes up to and including it) | 'need_more' |
            'error:control' | 'error:dict_reset_needed' | 'error:props_needed' | 'error:props' |
            'error:chunk:<r>' with r in rc_init, dist, size, eopm, rc_end, csize_short (the LZMA data needs
            more than csize bytes), csize_long (usize bytes produced before csize bytes were used)
    chunks: one dict per chunk header seen: offset, control, kind, reset, usize, csize, props, status
            ('ok' | 'incomplete' | 'error:...'), stats (lzma chunks; see lzma.new_stats), symbols (list when
            collect='full', else None), out_len.
    out is everything decoded before the stop (also on error / need_more).
    collect: 'full' | 'stats' | None;  impl: 'py' | 'c' | 'auto'.
    """
    if impl != 'py':
        from . import chelper
        if impl == 'c' or (len(data) > 2048 and chelper.available()):
            return chelper.lzma2_decode(data, dict_size, preset_dict, collect)
    data = bytes(data)
    n = len(data)
    dec = _lz.LzmaDecoder(0, 0, 0, dict_size, preset_dict)
    need_dict_reset = not preset_dict
    need_props = True
    out = bytearray()
    chunks = []
    ip = 0
    status = None
    while True:
        if ip >= n:
            status = 'need_more'
            break
        ctl = data[ip]
        ev = dict(offset=ip, control=ctl, kind=None, reset=None, usize=None, csize=None, props=None,
                  status='incomplete', stats=None, symbols=None, out_len=0)
        chunks.append(ev)
        if ctl == 0x00:
            ev['kind'] = 'end'
            ev['status'] = 'ok'
            ip += 1
            status = 'ok'
            break
        if 0x03 <= ctl < 0x80:
            ev['kind'] = 'invalid'
            status = ev['status'] = 'error:control'
            break
        ev['kind'] = 'lzma' if ctl >= 0x80 else 'uncompressed'
        ev['reset'] = LEVEL_NAME[(ctl >> 5) & 3] if ctl >= 0x80 else ('dict' if ctl == 1 else 'none')
        if ctl >= 0xE0 or ctl == 0x01:
            need_props = True
            need_dict_reset = False
            dec.reset_dict()
        elif need_dict_reset:
            status = ev['status'] = 'error:dict_reset_needed'
            break
        if ctl < 0x80:
            if n - ip < 3:
                status = 'need_more'
                break
            sz = ((data[ip + 1] << 8) | data[ip + 2]) + 1
            ev['usize'] = ev['csize'] = sz
            piece = data[ip + 3:ip + 3 + sz]
            dec.add_uncompressed(piece)
            out += piece
            ev['out_len'] = len(piece)
            if len(piece) < sz:
                ip = n
                status = 'need_more'
                break
            ip += 3 + sz
            ev['status'] = 'ok'
            continue
        hdr = 6 if ctl >= 0xC0 else 5
        if ctl < 0xC0 and need_props:
            # decidable from the control byte alone (a streaming decoder reports it before the size fields)
            status = ev['status'] = 'error:props_needed'
            break
        if n - ip < 5:
            status = 'need_more'
            break
        us = (((ctl & 0x1F) << 16) | (data[ip + 1] << 8) | data[ip + 2]) + 1
        cs = ((data[ip + 3] << 8) | data[ip + 4]) + 1
        ev['usize'], ev['csize'] = us, cs
        if ctl >= 0xC0:
            if n - ip < 6:
                status = 'need_more'
                break
            ev['props'] = data[ip + 5]
            try:
                lc, lp, pb = _lz.props_decode(data[ip + 5], lzma2=True)
            except FormatError:
                status = ev['status'] = 'error:props'
                break
            dec.set_props(lc, lp, pb)
            need_props = False
        elif ctl >= 0xA0:
            dec.reset_state()
        cstart = ip + hdr
        cend = cstart + cs
        r = dec.decode(data, cstart, min(cend, n), usize=us, allow_eopm=False, collect=collect)
        out += r.out
        ev['out_len'] = len(r.out)
        ev['stats'] = r.stats
        ev['symbols'] = r.symbols
        st = r.status
        if st == 'need_more':
            if cend > n:
                status = 'need_more'
                ip = n
                break
            st = 'error:csize_short'
        elif st == 'ok_size' and r.consumed != cs:
            st = 'error:csize_long'
        if st != 'ok_size':
            status = ev['status'] = 'error:chunk:' + st.split(':', 1)[1]
            ip = cstart + r.consumed
            break
        ev['status'] = 'ok'
        ip = cend
    return Lzma2Result(bytes(out), chunks, status, ip)

# ---------------------------------------------------------------------------- filter properties
def dict_size_from_props(b):
    """LZMA2 Filter Properties byte -> dictionary size (xz-file-format.txt 5.3.1). FormatError if invalid."""
    if b & 0xC0:
        raise FormatError("reserved bits in LZMA2 properties")
    bits = b & 0x3F
    if bits > 40:
        raise FormatError("LZMA2 dictionary size bits > 40")
    if bits == 40:
        return 0xFFFFFFFF
    return (2 | (bits & 1)) << (bits // 2 + 11)

def props_from_dict_size(n):
    """Smallest properties byte whose dictionary size is >= n."""
    for b in range(41):
        if dict_size_from_props(b) >= n:
            return b
    raise ValueError("dictionary size too big")
