"""The .lz (lzip) format, from the lzip manual ("File format"), independent of liblzma.

Member:  "LZIP" | version (1 byte: 1, or 0 for the old format) | coded dictionary size (1 byte) |
         LZMA stream (lc=3 lp=0 pb=2, ends with the End Of Stream marker = match with distance 2^32-1, len 2) |
         CRC32 of the uncompressed data (4, LE) | data size (8, LE) | member size (8, LE; version 1 only)
Dictionary size byte: bits 4-0 = log2 of the base size (12..29), bits 7-5 = number of sixteenths of the base
size to subtract (0..7);  valid sizes 4 KiB .. 512 MiB.
A file is one or more members, optionally followed by trailing data.
"""
import struct
from . import lzma as _lz, crc as _crc

MAGIC = b"LZIP"
MIN_DICT, MAX_DICT = 1 << 12, 1 << 29

def decode_dict_size(b):
    """-> dictionary size, or None if the coded value is out of the valid range 4 KiB .. 512 MiB.
    (The manual's rule is applied literally: base 4 KiB with a non-zero fraction gives a size below 4 KiB and is
    invalid -- liblzma agrees; the lzip tool itself does not subtract at the minimum base size.)"""
    bits = b & 0x1F
    if bits < 12 or bits > 29:
        return None
    ds = 1 << bits
    ds -= (ds // 16) * ((b >> 5) & 7)
    if ds < MIN_DICT or ds > MAX_DICT:
        return None
    return ds

def encode_dict_size(ds):
    """Smallest coded byte whose dictionary size is >= ds."""
    best = None
    for bits in range(12, 30):
        for w in range(8):
            b = bits | (w << 5)
            v = decode_dict_size(b)
            if v is not None and v >= ds and (best is None or v < best[0]):
                best = (v, b)
    if best is None:
        raise ValueError("dictionary size")
    return best[1]

def build_member(data=None, symbols=None, version=1, dict_size=1 << 16, ds_byte=None, magic=MAGIC, crc32=None,
                 data_size=None, member_size=None, eos=True, payload=None, lc=3, lp=0, pb=2, version_byte=None):
    """One member.  symbols: encoded as given plus the EOS marker (eos=True) -- or `data` (greedy parse) or a
    ready `payload` (LZMA stream).  crc32 / data_size / member_size / ds_byte / magic / version_byte override
    the valid values.  lc/lp/pb other than 3/0/2 make an (undetectably) invalid member."""
    if payload is None:
        if symbols is None:
            symbols = _lz.greedy_parse(bytes(data or b""), dict_size)
        symbols = list(symbols)
        if eos and (not symbols or symbols[-1][0] != 'eopm'):
            symbols.append(('eopm',))
        payload = _lz.encode_symbols(symbols, lc, lp, pb)
        un = _lz.expand(symbols, strict=False)
    else:
        un = bytes(data or b"")
    if ds_byte is None:
        ds_byte = encode_dict_size(dict_size)
    vb = version if version_byte is None else version_byte
    out = bytes(magic) + bytes([vb & 0xFF, ds_byte & 0xFF]) + payload
    out += struct.pack("<I", _crc.crc32(un) if crc32 is None else crc32)
    out += struct.pack("<Q", len(un) if data_size is None else data_size)
    if version == 1:
        total = len(out) + 8
        out += struct.pack("<Q", total if member_size is None else member_size)
    return out

def build(members, trailing=b""):
    """members: list of kwargs dicts for build_member (or ready bytes)."""
    return b"".join(m if isinstance(m, (bytes, bytearray)) else build_member(**m) for m in members) + bytes(trailing)

class LzipResult:
    """verdict 'ok' | 'truncated' | 'error:<class>' | 'unsupported:version'
    classes: format (first member's magic wrong / file shorter than a header that is not a magic prefix),
             dict_size, lzma:<reason>, eos_len (marker length != 2), crc32, data_size, member_size
    members  [dict(offset, version, dict_size, ds_byte, out_size, lzma_size, member_size, crc32, lzma=Result)]
    outputs  [bytes] per member;  consumed: end of the last valid member (plus, with concatenated=True,
    nothing of the trailing data);  trailing: number of ignored bytes after the last member."""
    def __init__(self):
        self.verdict = None; self.members = []; self.outputs = []; self.consumed = 0; self.trailing = 0; self.detail = ""
    @property
    def output(self):
        return b"".join(self.outputs)
    def __repr__(self):
        return "LzipResult(%s, members=%d, out=%d, consumed=%d, trailing=%d %s)" % (
            self.verdict, len(self.members), sum(map(len, self.outputs)), self.consumed, self.trailing, self.detail)

def parse(data, concatenated=True, collect='full', impl='auto', strict_eos=True):
    """Strict parser/decoder.

    Rules after the first member (concatenated=True), as described for XZ Utils in tests/files/README and the
    lzip manual (--loose-trailing behaviour): if the next 4 bytes are "LZIP" a new member starts and must be
    complete and valid; anything else (including 1-3 bytes that are a prefix of the magic) is trailing data and
    is ignored.  concatenated=False stops after the first member.
    strict_eos=True: the End Of Stream marker must have length 2 as the lzip manual defines it (length 3 is lzlib's
    "Sync Flush marker", other lengths are undefined) -> 'error:eos_len'; liblzma accepts any length as EOS
    (strict_eos=False reproduces that).
    """
    data = bytes(data)
    n = len(data)
    R = LzipResult()
    pos = 0
    first = True
    while True:
        if not first:
            if not concatenated:
                R.trailing = n - pos
                break
            if data[pos:pos + 4] != MAGIC:
                R.trailing = n - pos
                break
        # header fields are judged in order as far as they are available (like a streaming decoder)
        have = data[pos:pos + 4]
        if have != MAGIC[:len(have)]:
            R.verdict = 'error:format'        # only reachable for the first member
            return R
        if n - pos < 5:
            R.verdict = 'truncated'
            return R
        ver = data[pos + 4]
        M = dict(offset=pos, version=ver, ds_byte=None, dict_size=None)
        R.members.append(M)
        if ver > 1:
            R.verdict = 'unsupported:version'
            return R
        if n - pos < 6:
            R.verdict = 'truncated'
            return R
        M['ds_byte'] = data[pos + 5]
        ds = decode_dict_size(data[pos + 5])
        M['dict_size'] = ds
        if ds is None:
            R.verdict = 'error:dict_size'
            return R
        r = _lz.decode(data[pos + 6:], 3, 0, 2, ds, usize=None, collect=collect, impl=impl)
        M['lzma'] = r
        M['out_size'] = len(r.out)
        M['lzma_size'] = r.consumed
        R.outputs.append(r.out)
        if r.status == 'need_more':
            R.verdict = 'truncated'
            return R
        if r.status != 'ok_eopm':
            R.verdict = 'error:lzma:' + r.status.split(':', 1)[1]
            return R
        if strict_eos and r.eopm_len != 2:
            R.verdict = 'error:eos_len'
            R.detail = "marker length %d" % r.eopm_len
            return R
        q = pos + 6 + r.consumed
        tl = 20 if ver == 1 else 12
        if n - q < tl:
            R.verdict = 'truncated'
            return R
        crc, dsize = struct.unpack_from("<IQ", data, q)
        M['crc32'] = crc
        if crc != _crc.crc32(r.out):
            R.verdict = 'error:crc32'
            return R
        if dsize != len(r.out):
            R.verdict = 'error:data_size'
            return R
        if ver == 1:
            msize = struct.unpack_from("<Q", data, q + 12)[0]
            M['member_size'] = msize
            if msize != q + tl - pos:
                R.verdict = 'error:member_size'
                return R
        pos = q + tl
        R.consumed = pos
        first = False
        if pos == n:
            break
    R.verdict = 'ok'
    return R
