"""The .xz container at FIELD level, written from /repo/doc/xz-file-format.txt (version 1.2.x).

build(streams)  -> (bytes, fieldmap)     writer from an abstract description; every field can be overridden
parse(data,...) -> XzResult              strict parser / judge; decodes Blocks with glue.lzma2 + glue.filters
encode(data,...)-> bytes                 convenience: a simple valid file

Field / event names (shared by build's field map and parse's events; i, j, k are 0-based):
    s{i}.header.magic|flags|crc32
    s{i}.b{j}.header.size|flags|compressed_size|uncompressed_size|f{k}.id|f{k}.props_size|f{k}.props|padding|crc32
    s{i}.b{j}.data   s{i}.b{j}.padding   s{i}.b{j}.check
    s{i}.index.indicator|count|r{j}.unpadded|r{j}.uncompressed|padding|crc32
    s{i}.footer.crc32|backward_size|flags|magic
    s{i}.padding                          (Stream Padding that follows stream i)
"""
import struct
from . import FormatError, Truncated
from . import vli as _vli, crc as _crc, lzma2 as _l2, filters as _flt

HEADER_MAGIC = b"\xFD7zXZ\x00"
FOOTER_MAGIC = b"YZ"
UNPADDED_MAX = ((1 << 63) - 1) & ~3
FILTER_RESERVED_START = 1 << 62

# ============================================================================ writer
class _W:
    def __init__(self):
        self.buf = bytearray()
        self.map = []
    def put(self, name, b):
        b = bytes(b)
        self.map.append((name, len(self.buf), len(b)))
        self.buf += b

def _le32(v):
    return struct.pack("<I", v & 0xFFFFFFFF)

def stream_flags(check):
    return bytes([0, check & 0xFF])

def build_block_header(b, fm=None, prefix=""):
    """Serialise a Block Header from a block dict (see build). Returns bytes; appends (name, off, len)
    relative to the header start to `fm` if given."""
    if b.get('header_raw') is not None:
        raw = bytes(b['header_raw'])
        if fm is not None:
            fm.append((prefix + "header.raw", 0, len(raw)))
        return raw
    filters = b.get('filters')
    if filters is None:
        filters = [(0x21, bytes([_l2.props_from_dict_size(b.get('dict_size', 1 << 20))]))]
    parts = []          # (name, bytes)
    def field_bytes(key, value):
        rawb = b.get(key + '_bytes')
        if rawb is not None:
            return bytes(rawb)
        return _vli.encode(value)
    cs = b.get('compressed_size')
    us = b.get('uncompressed_size')
    if cs == 'auto':
        cs = len(b['data'])
    if us == 'auto':
        us = len(b['uncompressed'])
    has_cs = cs is not None or b.get('compressed_size_bytes') is not None
    has_us = us is not None or b.get('uncompressed_size_bytes') is not None
    flags = b.get('flags')
    if flags is None:
        flags = ((len(filters) - 1) & 3) | (0x40 if has_cs else 0) | (0x80 if has_us else 0)
    parts.append(("header.flags", bytes([flags & 0xFF])))
    if has_cs:
        parts.append(("header.compressed_size", field_bytes('compressed_size', cs)))
    if has_us:
        parts.append(("header.uncompressed_size", field_bytes('uncompressed_size', us)))
    for k, f in enumerate(filters):
        if isinstance(f, dict):
            fid, props = f.get('id'), bytes(f.get('props', b""))
            idb = bytes(f['id_bytes']) if f.get('id_bytes') is not None else _vli.encode(fid)
            ps = f.get('props_size')
            psb = bytes(f['props_size_bytes']) if f.get('props_size_bytes') is not None else \
                _vli.encode(len(props) if ps is None else ps)
        else:
            fid, props = f[0], bytes(f[1])
            idb, psb = _vli.encode(fid), _vli.encode(len(props))
        parts.append(("header.f%d.id" % k, idb))
        parts.append(("header.f%d.props_size" % k, psb))
        parts.append(("header.f%d.props" % k, props))
    body = sum(len(p[1]) for p in parts)
    pad = b.get('header_padding', 0)
    padb = bytes(pad) if not isinstance(pad, int) else bytes(pad)
    cur = 1 + body + len(padb) + 4
    hs = b.get('header_size')
    target = hs if hs is not None else (cur + 3) & ~3
    if target > cur:
        padb += bytes(target - cur)
        cur = target
    sb = b.get('header_size_byte')
    if sb is None:
        real = hs if hs is not None else cur
        sb = (real // 4 - 1) & 0xFF
    out = bytearray([sb])
    names = [("header.size", 0, 1)]
    for name, val in parts:
        names.append((name, len(out), len(val)))
        out += val
    names.append(("header.padding", len(out), len(padb)))
    out += padb
    crc = b.get('header_crc32')
    if crc is None:
        crc = _crc.crc32(bytes(out))
    names.append(("header.crc32", len(out), 4))
    out += _le32(crc)
    if fm is not None:
        fm.extend((prefix + nm, o, l) for nm, o, l in names)
    return bytes(out)

def _block_uncompressed(b):
    if b.get('uncompressed') is not None:
        return bytes(b['uncompressed'])
    return None

def _auto_data(b):
    """Compressed Data for a block that only gives `uncompressed`: non-last filters + simple LZMA2."""
    filters = b.get('filters') or [(0x21, bytes([_l2.props_from_dict_size(b.get('dict_size', 1 << 20))]))]
    data = bytes(b['uncompressed'])
    tup = [(f['id'], bytes(f.get('props', b""))) if isinstance(f, dict) else (f[0], bytes(f[1])) for f in filters]
    for fid, props in tup[:-1]:
        data = _flt.apply_nonlast(fid, props, data, True)
    ds = _l2.dict_size_from_props(tup[-1][1][0])
    kw = {k: b[k] for k in ('lc', 'lp', 'pb', 'chunk_usize') if k in b}
    return _l2.encode(data, min(ds, 1 << 24), **kw)

def build(streams):
    """Serialise a list of stream descriptions.  Returns (bytes, fieldmap [(name, offset, length)]).

    stream = dict(check=1, header=dict(magic=, flags=, crc32=, raw=), blocks=[...],
                  index=dict(indicator=, count=, records=[(unpadded, uncompressed)], record_bytes=[(b, b)],
                             count_bytes=, padding=, crc32=, raw=),
                  footer=dict(crc32=, backward_size=<stored 32-bit value>, flags=, magic=, raw=),
                  padding=<int zero bytes | bytes>)
    block  = dict(filters=[(id, props_bytes) | dict(id=, props=, props_size=, id_bytes=, props_size_bytes=)],
                  dict_size=2**20 (used when filters is omitted: one LZMA2 filter),
                  data=<Compressed Data bytes>  (omitted: produced from `uncompressed` by glue's LZMA2 writer),
                  uncompressed=<bytes, for the automatic Check / Index / sizes>,
                  compressed_size=None|'auto'|int, uncompressed_size=None|'auto'|int,
                  compressed_size_bytes=, uncompressed_size_bytes=<raw VLI bytes>,
                  flags=<byte>, header_size=<real size>, header_size_byte=<raw>, header_padding=<int|bytes>,
                  header_crc32=<int>, header_raw=<bytes>, padding=<bytes>, check=<bytes>,
                  index_unpadded=, index_uncompressed=<values for the automatic Index record>)
    Everything omitted is filled in with the valid value.
    """
    w = _W()
    for si, s in enumerate(streams):
        p = "s%d." % si
        check = s.get('check', 1)
        h = s.get('header') or {}
        if h.get('raw') is not None:
            w.put(p + "header.raw", h['raw'])
        else:
            fl = bytes(h['flags']) if h.get('flags') is not None else stream_flags(check)
            w.put(p + "header.magic", h.get('magic', HEADER_MAGIC))
            w.put(p + "header.flags", fl)
            w.put(p + "header.crc32", _le32(h['crc32'] if h.get('crc32') is not None else _crc.crc32(fl)))
        records = []
        for bi, b in enumerate(s.get('blocks') or []):
            bp = p + "b%d." % bi
            b = dict(b)
            if b.get('data') is None:
                b['data'] = _auto_data(b)
            fm = []
            hdr = build_block_header(b, fm, bp)
            base = len(w.buf)
            w.buf += hdr
            w.map.extend((nm, base + o, l) for nm, o, l in fm)
            data = bytes(b['data'])
            w.put(bp + "data", data)
            pad = b.get('padding')
            if pad is None:
                pad = bytes((-len(hdr) - len(data)) % 4)
            w.put(bp + "padding", pad)
            u = _block_uncompressed(b)
            if u is None and (b.get('check') is None or b.get('index_uncompressed') is None):
                u = parse_block_payload(b, data)       # best effort: decode the given Compressed Data with glue
            chk = b.get('check')
            if chk is None:
                chk = _crc.check_bytes(check, u if u is not None else b"")
            w.put(bp + "check", chk)
            records.append((b.get('index_unpadded', len(hdr) + len(data) + len(chk)),
                            b.get('index_uncompressed', len(u) if u is not None else 0)))
        ix = s.get('index') or {}
        istart = len(w.buf)
        if ix.get('raw') is not None:
            w.put(p + "index.raw", ix['raw'])
        else:
            recs = ix.get('records')
            if recs is None:
                recs = records
            w.put(p + "index.indicator", bytes([ix.get('indicator', 0)]))
            cb = ix.get('count_bytes')
            w.put(p + "index.count", cb if cb is not None else _vli.encode(ix.get('count', len(recs))))
            rb = ix.get('record_bytes')
            for ri, (a, c) in enumerate(recs):
                ab, cbb = (rb[ri] if rb is not None and ri < len(rb) and rb[ri] is not None else (None, None))
                w.put(p + "index.r%d.unpadded" % ri, ab if ab is not None else _vli.encode(a))
                w.put(p + "index.r%d.uncompressed" % ri, cbb if cbb is not None else _vli.encode(c))
            ipad = ix.get('padding')
            if ipad is None:
                ipad = bytes((-(len(w.buf) - istart)) % 4)
            w.put(p + "index.padding", ipad)
            icrc = ix.get('crc32')
            if icrc is None:
                icrc = _crc.crc32(bytes(w.buf[istart:]))
            w.put(p + "index.crc32", _le32(icrc))
        isize = len(w.buf) - istart
        f = s.get('footer') or {}
        if f.get('raw') is not None:
            w.put(p + "footer.raw", f['raw'])
        else:
            bs = f.get('backward_size')
            if bs is None:
                bs = (isize // 4 - 1) & 0xFFFFFFFF
            fl = bytes(f['flags']) if f.get('flags') is not None else \
                (bytes(h['flags']) if h.get('flags') is not None else stream_flags(check))
            body = _le32(bs) + fl
            w.put(p + "footer.crc32", _le32(f['crc32'] if f.get('crc32') is not None else _crc.crc32(body)))
            w.put(p + "footer.backward_size", _le32(bs))
            w.put(p + "footer.flags", fl)
            w.put(p + "footer.magic", f.get('magic', FOOTER_MAGIC))
        sp = s.get('padding', 0)
        spb = bytes(sp)
        if len(spb):
            w.put(p + "padding", spb)
    return bytes(w.buf), w.map

def parse_block_payload(b, data):
    """Decode a block dict's Compressed Data with glue (used by build() when `uncompressed` is missing)."""
    filters = b.get('filters') or [(0x21, bytes([_l2.props_from_dict_size(b.get('dict_size', 1 << 20))]))]
    tup = [(f['id'], bytes(f.get('props', b""))) if isinstance(f, dict) else (f[0], bytes(f[1])) for f in filters]
    try:
        ds = _l2.dict_size_from_props(tup[-1][1][0])
        out = _l2.decode(data, ds).out
        for fid, props in reversed(tup[:-1]):
            out = _flt.apply_nonlast(fid, props, out, False)
        return out
    except Exception:
        return b""

def encode(data, check=1, filters=None, dict_size=1 << 20, block_size=None, sizes_in_header=False, **lzma_kw):
    """A simple valid single-stream .xz file (glue's own LZMA2 writer; filters may add delta/BCJ before LZMA2)."""
    data = bytes(data)
    if block_size is None:
        pieces = [data] if data else []
    else:
        pieces = [data[i:i + block_size] for i in range(0, len(data), block_size)]
    blocks = []
    for pc in pieces:
        b = dict(uncompressed=pc, dict_size=dict_size)
        if filters is not None:
            b['filters'] = filters
        b.update(lzma_kw)
        if sizes_in_header:
            b['data'] = _auto_data(b)
            b['compressed_size'] = 'auto'
            b['uncompressed_size'] = 'auto'
        blocks.append(b)
    return build([dict(check=check, blocks=blocks)])[0]

# ============================================================================ parser / judge
class XzResult:
    """verdict   'ok' | 'truncated' | 'error:<class>' | 'unsupported:<class>' | 'unsupported-by-glue'
    events    [(name, offset, length, value)]  value: int for numeric fields, bytes otherwise
    outputs   [bytes] decoded data of every completely or partially decoded Block, in file order
    streams   [dict(check=, blocks=[dict(offset, header_size, flags, compressed_size, uncompressed_size, filters,
               data_offset, data_size, unpadded_size, out_size, lzma2=Lzma2Result)], records=[(u, c)],
               index_size, padding)]
    consumed  offset where parsing stopped (end of the last Stream / Stream Padding on 'ok')
    error_offset  offset of the offending field (None when ok);  detail  free text
    warnings  e.g. ['unsupported_check:2']
    """
    def __init__(self):
        self.verdict = None
        self.events = []
        self.outputs = []
        self.streams = []
        self.consumed = 0
        self.error_offset = None
        self.detail = ""
        self.warnings = []
    @property
    def output(self):
        return b"".join(self.outputs)
    def __iter__(self):
        """verdict, events, outputs = xz.parse(data)"""
        return iter((self.verdict, self.events, self.outputs))
    def __repr__(self):
        return "XzResult(%s, consumed=%d, streams=%d, blocks=%d, out=%d bytes%s)" % (
            self.verdict, self.consumed, len(self.streams), sum(len(s['blocks']) for s in self.streams),
            sum(len(o) for o in self.outputs), (", " + self.detail) if self.detail else "")

class _Stop(Exception):
    def __init__(self, verdict, offset, detail=""):
        self.verdict, self.offset, self.detail = verdict, offset, detail

ERROR_CLASSES = """format magic stream_header_crc block_header_crc block_header block_header_vli compressed_size
uncompressed_size filter_id_reserved block_padding check lzma2:* index_vli index_count index_record
index_mismatch index_padding index_crc footer_magic footer_crc backward_size footer_flags
stream_padding""".split()
UNSUPPORTED_CLASSES = "stream_flags footer_flags block_flags header_padding filter_id filter_chain filter_props".split()

def validate_filter_chain(filters):
    """filters: [(id, props bytes)]. Returns None if valid else a verdict string (unsupported:...)."""
    n = len(filters)
    for k, (fid, props) in enumerate(filters):
        last = k == n - 1
        if fid == _flt.FILTER_LZMA2:
            if not last:
                return 'unsupported:filter_chain'
            if len(props) != 1:
                return 'unsupported:filter_props'
            try:
                _l2.dict_size_from_props(props[0])
            except FormatError:
                return 'unsupported:filter_props'
        elif fid == _flt.FILTER_DELTA:
            if last:
                return 'unsupported:filter_chain'
            if len(props) != 1:
                return 'unsupported:filter_props'
        elif fid in _flt.BCJ_ALIGN:
            if last:
                return 'unsupported:filter_chain'
            if len(props) not in (0, 4):
                return 'unsupported:filter_props'
            if len(props) == 4 and int.from_bytes(props, "little") % _flt.BCJ_ALIGN[fid]:
                return 'unsupported:filter_props'
        else:
            return 'unsupported:filter_id'
    return None

def parse_block_header(data, off, check_size=0):
    """Parse and validate one Block Header at data[off:].  Returns (info dict, events) or raises _Stop.
    info: header_size, flags, compressed_size|None, uncompressed_size|None, filters [(id, props)]."""
    n = len(data)
    ev = []
    sb = data[off]
    real = (sb + 1) * 4
    ev.append(("header.size", off, 1, sb))
    if n - off < real:
        raise _Stop('truncated', n, "block header")
    end = off + real - 4
    stored = struct.unpack_from("<I", data, end)[0]
    if _crc.crc32(data[off:end]) != stored:
        raise _Stop('error:block_header_crc', end)
    flags = data[off + 1]
    ev.append(("header.flags", off + 1, 1, flags))
    if flags & 0x3C:
        raise _Stop('unsupported:block_flags', off + 1)
    p = off + 2
    info = dict(header_size=real, flags=flags, compressed_size=None, uncompressed_size=None, filters=[])
    def rd(name):
        nonlocal p
        try:
            v, q = _vli.decode(data, p, 9, end)
        except FormatError as e:
            raise _Stop('error:block_header_vli', p, "%s: %s" % (name, e))
        except Truncated:
            raise _Stop('error:block_header', p, "%s runs past the end of the header" % name)
        ev.append((name, p, q - p, v))
        p = q
        return v
    if flags & 0x40:
        cs = rd("header.compressed_size")
        info['compressed_size'] = cs
        if cs == 0 or real + cs + check_size > UNPADDED_MAX:
            raise _Stop('error:compressed_size', ev[-1][1], "invalid Compressed Size %d" % cs)
    if flags & 0x80:
        info['uncompressed_size'] = rd("header.uncompressed_size")
    for k in range((flags & 3) + 1):
        fid = rd("header.f%d.id" % k)
        if fid >= FILTER_RESERVED_START:
            raise _Stop('error:filter_id_reserved', ev[-1][1])
        ps = rd("header.f%d.props_size" % k)
        if ps > end - p:
            raise _Stop('error:block_header', p, "filter properties run past the end of the header")
        props = bytes(data[p:p + ps])
        ev.append(("header.f%d.props" % k, p, ps, props))
        p += ps
        info['filters'].append((fid, props))
    padb = bytes(data[p:end])
    ev.append(("header.padding", p, end - p, padb))
    if any(padb):
        raise _Stop('unsupported:header_padding', p)
    ev.append(("header.crc32", end, 4, stored))
    v = validate_filter_chain(info['filters'])
    if v:
        raise _Stop(v, off)
    return info, ev

def parse(data, concatenated=True, collect='stats', impl='auto'):
    """Strict judge of a .xz file (or of its prefix).  See XzResult.

    concatenated=False: exactly one Stream is parsed, `consumed` tells where it ended (trailing bytes are not
    looked at).  collect / impl are passed to lzma2.decode (per-chunk symbol lists with collect='full').
    """
    data = bytes(data)
    n = len(data)
    R = XzResult()
    ev = R.events
    pos = 0
    si = 0
    try:
        while True:
            p = "s%d." % si
            # ------------------------------------------------ Stream Header
            if n - pos < 12:
                raise _Stop('truncated', n, "stream header")
            magic = data[pos:pos + 6]
            ev.append((p + "header.magic", pos, 6, magic))
            if magic != HEADER_MAGIC:
                raise _Stop('error:format' if si == 0 else 'error:magic', pos)
            fl = data[pos + 6:pos + 8]
            ev.append((p + "header.flags", pos + 6, 2, fl))
            stored = struct.unpack_from("<I", data, pos + 8)[0]
            ev.append((p + "header.crc32", pos + 8, 4, stored))
            if _crc.crc32(fl) != stored:
                raise _Stop('error:stream_header_crc', pos + 8)
            if fl[0] != 0 or fl[1] & 0xF0:
                raise _Stop('unsupported:stream_flags', pos + 6)
            check = fl[1] & 0x0F
            csz = _crc.check_size(check)
            if not _crc.check_supported(check):
                R.warnings.append("unsupported_check:%d" % check)
            S = dict(offset=pos, check=check, blocks=[], records=[], index_size=None, padding=0)
            R.streams.append(S)
            stream_start = pos
            pos += 12
            # ------------------------------------------------ Blocks
            bi = 0
            while True:
                if pos >= n:
                    raise _Stop('truncated', n, "block header / index")
                if data[pos] == 0x00:
                    break
                bp = p + "b%d." % bi
                info, hev = parse_block_header(data, pos, csz)
                ev.extend((bp + nm, o, l, v) for nm, o, l, v in hev)
                B = dict(info)
                B['offset'] = pos
                S['blocks'].append(B)
                hs = info['header_size']
                dpos = pos + hs
                B['data_offset'] = dpos
                fids = [f[0] for f in info['filters']]
                if not all(_flt.implemented(f) for f in fids):
                    nonempty_ok = False
                else:
                    nonempty_ok = True
                cs = info['compressed_size']
                ds = _l2.dict_size_from_props(info['filters'][-1][1][0])
                avail_end = n if cs is None else min(n, dpos + cs)
                r = _l2.decode(data[dpos:avail_end], ds, collect=collect, impl=impl)
                B['lzma2'] = r
                out = r.out
                if out and not nonempty_ok:
                    raise _Stop('unsupported-by-glue', pos, "filter(s) %s" % [hex(f) for f in fids if not _flt.implemented(f)])
                for fid, props in reversed(info['filters'][:-1]):
                    out = _flt.apply_nonlast(fid, props, out, False)
                R.outputs.append(out)
                B['out_size'] = len(out)
                us = info['uncompressed_size']
                if r.status.startswith('error'):
                    if us is not None and len(out) > us:
                        raise _Stop('error:uncompressed_size', dpos, "more output than Uncompressed Size")
                    raise _Stop('error:lzma2:' + r.status.split(':', 1)[1], dpos + r.consumed)
                if us is not None and len(out) > us:
                    raise _Stop('error:uncompressed_size', dpos, "more output than Uncompressed Size")
                if r.status == 'need_more':
                    if cs is not None and n >= dpos + cs:
                        raise _Stop('error:compressed_size', dpos, "LZMA2 data needs more than Compressed Size")
                    raise _Stop('truncated', n, "compressed data")
                if cs is not None and r.consumed != cs:
                    raise _Stop('error:compressed_size', dpos, "LZMA2 ended after %d of %d bytes" % (r.consumed, cs))
                if us is not None and len(out) != us:
                    raise _Stop('error:uncompressed_size', dpos, "%d != %d" % (len(out), us))
                csize = r.consumed
                B['data_size'] = csize
                ev.append((bp + "data", dpos, csize, None))
                pos = dpos + csize
                padn = (-(hs + csize)) % 4
                if n - pos < padn:
                    if any(data[pos:n]):
                        raise _Stop('error:block_padding', pos)
                    raise _Stop('truncated', n, "block padding")
                padb = data[pos:pos + padn]
                ev.append((bp + "padding", pos, padn, padb))
                if any(padb):
                    raise _Stop('error:block_padding', pos)
                pos += padn
                if n - pos < csz:
                    raise _Stop('truncated', n, "check")
                chk = data[pos:pos + csz]
                ev.append((bp + "check", pos, csz, chk))
                if _crc.check_supported(check) and chk != _crc.check_bytes(check, out):
                    raise _Stop('error:check', pos)
                pos += csz
                B['unpadded_size'] = hs + csize + csz
                bi += 1
            # ------------------------------------------------ Index
            istart = pos
            ev.append((p + "index.indicator", pos, 1, 0))
            q = pos + 1
            def ivli(name):
                nonlocal q
                try:
                    v, q2 = _vli.decode(data, q, 9, n)
                except FormatError as e:
                    raise _Stop('error:index_vli', q, "%s: %s" % (name, e))
                except Truncated:
                    raise _Stop('truncated', n, "index")
                ev.append((name, q, q2 - q, v))
                q = q2
                return v
            cnt = ivli(p + "index.count")
            if cnt != len(S['blocks']):
                raise _Stop('error:index_count', istart + 1, "%d records, %d blocks" % (cnt, len(S['blocks'])))
            for ri in range(cnt):
                o0 = q
                up = ivli(p + "index.r%d.unpadded" % ri)
                if up < 5 or up > UNPADDED_MAX:
                    raise _Stop('error:index_record', o0, "Unpadded Size %d" % up)
                uc = ivli(p + "index.r%d.uncompressed" % ri)
                S['records'].append((up, uc))
                B = S['blocks'][ri]
                if (up, uc) != (B['unpadded_size'], B['out_size']):
                    raise _Stop('error:index_mismatch', o0, "record %d (%d,%d) != block (%d,%d)" % (
                        ri, up, uc, B['unpadded_size'], B['out_size']))
            padn = (-(q - istart)) % 4
            if n - q < padn:
                if any(data[q:n]):
                    raise _Stop('error:index_padding', q)
                raise _Stop('truncated', n, "index padding")
            padb = data[q:q + padn]
            ev.append((p + "index.padding", q, padn, padb))
            if any(padb):
                raise _Stop('error:index_padding', q)
            q += padn
            if n - q < 4:
                raise _Stop('truncated', n, "index crc32")
            stored = struct.unpack_from("<I", data, q)[0]
            ev.append((p + "index.crc32", q, 4, stored))
            if _crc.crc32(data[istart:q]) != stored:
                raise _Stop('error:index_crc', q)
            q += 4
            isize = q - istart
            S['index_size'] = isize
            pos = q
            # ------------------------------------------------ Stream Footer
            if n - pos < 12:
                raise _Stop('truncated', n, "stream footer")
            stored = struct.unpack_from("<I", data, pos)[0]
            bs = struct.unpack_from("<I", data, pos + 4)[0]
            ffl = data[pos + 8:pos + 10]
            fmagic = data[pos + 10:pos + 12]
            ev.append((p + "footer.crc32", pos, 4, stored))
            ev.append((p + "footer.backward_size", pos + 4, 4, bs))
            ev.append((p + "footer.flags", pos + 8, 2, ffl))
            ev.append((p + "footer.magic", pos + 10, 2, fmagic))
            if fmagic != FOOTER_MAGIC:
                raise _Stop('error:footer_magic', pos + 10)
            if _crc.crc32(data[pos + 4:pos + 10]) != stored:
                raise _Stop('error:footer_crc', pos)
            if ffl[0] != 0 or ffl[1] & 0xF0:
                raise _Stop('unsupported:footer_flags', pos + 8)
            if (bs + 1) * 4 != isize:
                raise _Stop('error:backward_size', pos + 4, "%d != %d" % ((bs + 1) * 4, isize))
            if ffl != fl:
                raise _Stop('error:footer_flags', pos + 8)
            pos += 12
            S['size'] = pos - stream_start
            R.consumed = pos
            if not concatenated:
                break
            # ------------------------------------------------ Stream Padding
            z = 0
            while pos + z < n and data[pos + z] == 0:
                z += 1
            if z:
                ev.append((p + "padding", pos, z, None))
            S['padding'] = z
            if z % 4:
                raise _Stop('error:stream_padding', pos, "%d bytes" % z)
            pos += z
            R.consumed = pos
            if pos == n:
                break
            si += 1
        R.verdict = 'ok'
    except _Stop as e:
        R.verdict = e.verdict
        R.error_offset = e.offset
        R.detail = e.detail
    return R

def expected_ret(verdict, first_stream=True):
    """The liblzma return code (name) that lzma_stream_decoder(flags=CONCATENATED) + LZMA_FINISH gives for a
    glue verdict (observed by the selftest on xz 5.8.1; documented in the API headers)."""
    if verdict == 'ok':
        return 'STREAM_END'
    if verdict == 'truncated':
        return 'BUF_ERROR'
    if verdict == 'error:format':
        return 'FORMAT_ERROR'
    if verdict.startswith('unsupported:'):
        return 'OPTIONS_ERROR'
    if verdict.startswith('error:'):
        return 'DATA_ERROR'
    return None
