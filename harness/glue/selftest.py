"""Closure checks of harness/glue against the real liblzma (built by lib/build.py from the working tree).

    cd /verif && python3 -m harness.glue.selftest [--full] [--seed N] [--only a,b,c,d,u] [-v]

 u  unit: CRC tables vs the bit-wise definition and vs lzma_crc32/64, VLI vs lzma_vli_decode
 a  glue-encode -> liblzma-decode (and glue py-decode == glue C-decode == symbols) for random symbol sequences
    over all lc/lp/pb with lc+lp<=4: raw LZMA1 (+preset dict, LZMA1EXT known size), .lzma, raw LZMA2 plans with
    every reset kind / uncompressed chunks, .xz (field variations, delta, multi-stream), .lz
 b  liblzma-encode (presets 0-9(e), filters, checks, alone, raw+preset dict) -> glue-decode == input, parse 'ok'
 c  every file in /repo/tests/files: verdict vs file name prefix, decoded bytes vs liblzma
 d  verdict closure: crafted single-fault files + random corruptions/truncations: glue verdict class vs the
    liblzma return code (xz / lzma / lz / raw LZMA2)
Exit status 0 iff no disagreement that is not listed in KNOWN (documented relaxations, see README.md).
"""
import sys, os, random, time, struct, argparse, ctypes as C

_VERIF = os.path.dirname(os.path.dirname(os.path.dirname(os.path.abspath(__file__))))
if _VERIF not in sys.path:
    sys.path.insert(0, _VERIF)
from lib import build
from harness.pydrv import lz
from harness.glue import crc, vli, lzma as GL, lzma2 as G2, xz as GX, alone as GA, lzip as GZ, filters as GF, chelper
from harness.glue import FormatError, Truncated

FAILS = []
COUNTS = {}
VERBOSE = False

def fail(section, what, **kw):
    FAILS.append((section, what, kw))
    print("  DISAGREE [%s] %s %s" % (section, what, {k: (v if not isinstance(v, (bytes, bytearray)) else v[:200].hex())
                                                       for k, v in kw.items()}))

def count(k, n=1):
    COUNTS[k] = COUNTS.get(k, 0) + n

# ------------------------------------------------------------------ liblzma drivers
def lib_run(init, args, data, cap):
    c = lz.Coder()
    r = c.init(init, *args)
    if r != lz.OK:
        return dict(ret=r, out=b"", consumed=0, init=False)
    res = lz.run_coder(c, bytes(data), out_cap=cap)
    c.end()
    res['init'] = True
    return res

def lib_xz(data, cap=1 << 22, flags=lz.CONCATENATED):
    return lib_run("lzma_stream_decoder", (lz.UINT64_MAX, flags), data, cap)

def lib_alone(data, cap=1 << 22):
    return lib_run("lzma_alone_decoder", (lz.UINT64_MAX,), data, cap)

def lib_lzip(data, cap=1 << 22, flags=lz.CONCATENATED):
    return lib_run("lzma_lzip_decoder", (lz.UINT64_MAX, flags), data, cap)

def lib_raw(data, specs, cap=1 << 22):
    f = lz.make_filters(specs)
    return lib_run("lzma_raw_decoder", (f,), data, cap)

def lib_raw_enc(data, specs):
    f = lz.make_filters(specs)
    return lib_run("lzma_raw_encoder", (f,), data, max(1 << 16, len(data) * 2 + 65536))

def rn(r):
    return lz.retname(r)

def combos():
    return [(lc, lp, pb) for lc in range(5) for lp in range(5 - lc) for pb in range(5)]

# ------------------------------------------------------------------ u: unit
def sec_u(rng, full):
    L = lz.L()
    assert crc.crc32(b"123456789") == 0xCBF43926
    assert crc.crc64(b"123456789") == 0x995DC9BBDF1939FA
    for _ in range(200 if not full else 2000):
        b = bytes(rng.getrandbits(8) for _ in range(rng.randrange(0, 300)))
        buf = C.create_string_buffer(b, len(b))
        init32, init64 = rng.getrandbits(32) * rng.randrange(2), rng.getrandbits(64) * rng.randrange(2)
        a32, a64 = crc.crc32(b, init32), crc.crc64(b, init64)
        if a32 != crc.crc32_bitwise(b, init32) or a64 != crc.crc64_bitwise(b, init64) or a32 != crc.crc32_table(b, init32):
            fail('u', 'crc table != bitwise', data=b)
        if a32 != L.lzma_crc32(buf, len(b), init32) or a64 != L.lzma_crc64(buf, len(b), init64):
            fail('u', 'crc != liblzma', data=b)
        count('u.crc')
    if chelper.available():
        b = bytes(rng.getrandbits(8) for _ in range(70000))
        if chelper.crc64(b) != crc.crc64_table(b) or crc.crc64(b) != crc.crc64_table(b):
            fail('u', 'helper crc64')
    # VLI: encode/decode round trip and agreement with lzma_vli_decode on arbitrary bytes
    for _ in range(3000 if not full else 30000):
        if rng.random() < 0.5:
            v = rng.getrandbits(rng.randrange(0, 64))
            if v > vli.VLI_MAX:
                continue
            e = vli.encode(v)
            if vli.decode(e, 0)[0] != v or vli.decode(e, 0)[1] != len(e):
                fail('u', 'vli round trip', v=v)
            b = e
        else:
            b = bytes(rng.choice((0, 0x80, 0xFF, 0x7F, 1, rng.getrandbits(8))) for _ in range(rng.randrange(1, 12)))
        try:
            g = vli.decode(b, 0)
        except FormatError:
            g = 'format'
        except Truncated:
            g = 'trunc'
        val = C.c_uint64(0)
        ip = C.c_size_t(0)
        buf = C.create_string_buffer(b, len(b))
        r = L.lzma_vli_decode(C.byref(val), None, buf, C.byref(ip), len(b))
        if r == lz.OK:
            l = (val.value, ip.value)
        elif r == lz.DATA_ERROR:
            l = 'format'
        else:
            l = 'other%d' % r
        # single-call mode: running out of input is reported as LZMA_DATA_ERROR too
        if g != l and not (g == 'trunc' and l == 'format'):
            fail('u', 'vli vs liblzma', data=b, glue=g, lib=l)
        count('u.vli')

# ------------------------------------------------------------------ a: glue encode -> liblzma decode
def check_tokenise(sec, enc, syms, expect_out, lc, lp, pb, ds, usize, pd, allow_eopm=True):
    """glue py decode and C decode must both give back the symbols."""
    for impl in ('py', 'c') if chelper.available() else ('py',):
        r = GL.decode(enc, lc, lp, pb, ds, usize=usize, preset_dict=pd, allow_eopm=allow_eopm, impl=impl)
        want = 'ok_eopm' if syms and syms[-1][0] == 'eopm' else 'ok_size'
        if r.status != want or r.out != expect_out or r.symbols != syms or r.consumed != len(enc):
            fail(sec, 'glue %s decode of glue encoding' % impl, status=r.status, want=want,
                 consumed=r.consumed, n=len(enc), lclppb=(lc, lp, pb))
        count(sec + '.glue_' + impl)

def sec_a(rng, full):
    reps_n = 2 if not full else 8
    # ---- a1 raw LZMA1 (+preset) and LZMA1EXT
    for (lc, lp, pb) in combos():
        for it in range(reps_n):
            ds = rng.choice((4096, 1 << 13, 1 << 16, 1 << 20, 4097, 5000, 12345))
            pd = bytes(rng.getrandbits(8) for _ in range(rng.choice((0, 0, 1, 7, 300, 5000))))
            nsym = rng.choice((1, 5, 60, 400)) if not full else rng.choice((1, 5, 60, 400, 3000))
            syms, n, _ = GL.random_symbols(rng, nsym, ds, history=min(len(pd), ds), eopm=True)
            want = GL.expand(syms, pd[-ds:] if pd else b"")
            enc = GL.encode_symbols(syms, lc, lp, pb, preset_dict=pd[-ds:] if pd else b"")
            o = lz.lzma_opts(6, lc=lc, lp=lp, pb=pb, dict_size=ds, **({'preset_dict': pd} if pd else {}))
            res = lib_raw(enc, [(lz.FILTER_LZMA1, o)], cap=len(want) + 4096)
            if res['ret'] != lz.STREAM_END or res['out'] != want or res['consumed'] != len(enc):
                fail('a1', 'raw LZMA1', ret=rn(res['ret']), lclppb=(lc, lp, pb), ds=ds, pd=len(pd), nsym=nsym,
                     outeq=res['out'] == want, consumed=res['consumed'], n=len(enc))
            count('a1.raw_lzma1')
            check_tokenise('a1', enc, syms, want, lc, lp, pb, ds, None, pd)
            # known size via LZMA1EXT, with and without end marker
            for with_eopm in (False, True):
                s2 = syms if with_eopm else syms[:-1]
                enc2 = GL.encode_symbols(s2, lc, lp, pb, preset_dict=pd[-ds:] if pd else b"")
                o2 = lz.lzma_opts(6, lc=lc, lp=lp, pb=pb, dict_size=ds, ext_flags=1, ext_size_low=len(want) & 0xFFFFFFFF,
                                  ext_size_high=len(want) >> 32, **({'preset_dict': pd} if pd else {}))
                res = lib_raw(enc2, [(lz.FILTER_LZMA1EXT, o2)], cap=len(want) + 4096)
                if res['ret'] != lz.STREAM_END or res['out'] != want or res['consumed'] != len(enc2):
                    fail('a1', 'raw LZMA1EXT', ret=rn(res['ret']), eopm=with_eopm, lclppb=(lc, lp, pb),
                         consumed=res['consumed'], n=len(enc2))
                count('a1.raw_lzma1ext')
                check_tokenise('a1', enc2, s2, want, lc, lp, pb, ds, len(want), pd)
    # ---- a2 .lzma
    for (lc, lp, pb) in combos():
        for it in range(reps_n):
            ds = rng.choice((4096, 1 << 16, 1 << 20, 3 << 11, 3 << 19))
            syms, n, _ = GL.random_symbols(rng, rng.choice((0, 1, 30, 300)), ds)
            want = GL.expand(syms)
            for usize, eopm in ((None, True), ('auto', False), ('auto', True)):
                f = GA.build(symbols=syms, lc=lc, lp=lp, pb=pb, dict_size=ds, usize=usize, eopm=eopm)
                res = lib_alone(f, cap=len(want) + 4096)
                g = GA.parse(f, impl='py')
                if res['ret'] != lz.STREAM_END or res['out'] != want or res['consumed'] != len(f):
                    fail('a2', '.lzma liblzma', ret=rn(res['ret']), usize=usize, eopm=eopm, lclppb=(lc, lp, pb),
                         consumed=res['consumed'], n=len(f))
                if g.verdict != 'ok' or g.out != want or g.consumed != len(f) or g.xz_utils_rejects:
                    fail('a2', '.lzma glue', verdict=g.verdict, rej=g.xz_utils_rejects)
                count('a2.lzma')
    # ---- a3 raw LZMA2 plans
    nplans = 150 if not full else 1500
    for it in range(nplans):
        ds = rng.choice((4096, 1 << 16, 1 << 20))
        plan, want = random_lzma2_plan(rng, ds)
        chunks, total = G2.encode_chunks(plan)
        assert total == want
        f = G2.write_chunks(chunks)
        o = lz.lzma_opts(6, dict_size=ds)
        res = lib_raw(f, [(lz.FILTER_LZMA2, o)], cap=len(want) + 4096)
        if res['ret'] != lz.STREAM_END or res['out'] != want or res['consumed'] != len(f):
            fail('a3', 'raw LZMA2 liblzma', ret=rn(res['ret']), plan=[(c['kind'], c.get('reset', c.get('dict_reset')))
                                                                     for c in plan], outeq=res['out'] == want)
        gp = G2.decode(f, ds, impl='py', collect='full')
        if gp.status != 'ok' or gp.out != want or gp.consumed != len(f):
            fail('a3', 'raw LZMA2 glue py', status=gp.status)
        if chelper.available():
            gc = G2.decode(f, ds, impl='c', collect='full')
            if tuple(gc) != tuple(gp):
                fail('a3', 'raw LZMA2 glue c != py', c=gc.status, py=gp.status)
        hdrs = G2.parse_chunks(f)
        if [h['offset'] for h in hdrs] != [c['offset'] for c in gp.chunks]:
            fail('a3', 'parse_chunks offsets')
        count('a3.lzma2')
    # ---- a4 .xz
    nx = 120 if not full else 1200
    for it in range(nx):
        desc, want = random_xz(rng)
        f, fmap = GX.build(desc)
        res = lib_xz(f, cap=len(want) + 4096)
        g = GX.parse(f, impl='py' if it % 2 else 'auto')
        if res['ret'] != lz.STREAM_END or res['out'] != want or res['consumed'] != len(f):
            fail('a4', '.xz liblzma', ret=rn(res['ret']), outeq=res['out'] == want, consumed=res['consumed'], n=len(f))
            if VERBOSE:
                print(desc)
        if g.verdict != 'ok' or g.output != want or g.consumed != len(f):
            fail('a4', '.xz glue', verdict=g.verdict, detail=g.detail)
        # field map of build == events of parse
        gm = {(nm, o, l) for nm, o, l, v in g.events if l}
        bm = {(nm, o, l) for nm, o, l in fmap if l}
        if gm != bm:
            fail('a4', 'field map != events', diff=sorted(gm ^ bm)[:6])
        if len(f) % 4:
            fail('a4', 'size not multiple of 4')
        count('a4.xz')
    # ---- a5 .lz
    nl = 100 if not full else 1000
    for it in range(nl):
        members = []
        want = b""
        for m in range(rng.choice((1, 1, 2, 3))):
            ds = rng.choice((4096, 1 << 16, 1 << 20, 5 << 12, 320 << 10))
            syms, n, _ = GL.random_symbols(rng, rng.choice((0, 1, 40, 300)), ds)
            members.append(dict(symbols=syms, version=rng.choice((0, 1)), dict_size=ds))
            want += GL.expand(syms)
        trailing = rng.choice((b"", b"", b"x", b"trailing garbage", b"LZI", b"LZIQ", b"\0\0\0\0"))
        f = GZ.build(members, trailing)
        res = lib_lzip(f, cap=len(want) + 4096)
        g = GZ.parse(f, impl='py')
        if res['ret'] != lz.STREAM_END or res['out'] != want:
            fail('a5', '.lz liblzma', ret=rn(res['ret']), outeq=res['out'] == want, trailing=trailing)
        if g.verdict != 'ok' or g.output != want or g.trailing != len(trailing):
            fail('a5', '.lz glue', verdict=g.verdict)
        count('a5.lz')

def random_lzma2_plan(rng, ds, max_chunks=6):
    """A VALID random chunk plan. Returns (plan, expected bytes)."""
    plan = []
    want = bytearray()
    avail = 0            # bytes in dictionary
    have_props = False
    reps = None
    first = True
    for ci in range(rng.randrange(1, max_chunks + 1)):
        if rng.random() < 0.3:
            dr = first or rng.random() < 0.2
            data = bytes(rng.getrandbits(8) for _ in range(rng.choice((1, 2, 50, 700))))
            plan.append(dict(kind='uncompressed', dict_reset=dr, data=data))
            if dr:
                avail = 0
                have_props = False
            avail += len(data)
            first = False
            continue
        if first or rng.random() < 0.15:
            reset = 'all'
        elif not have_props:
            reset = 'state+props'
        else:
            reset = rng.choice(('none', 'none', 'state', 'state+props'))
        it = dict(kind='lzma', reset=reset)
        if reset == 'all':
            avail = 0
        if reset in ('all', 'state+props'):
            lc, lp, pb = rng.choice(combos())
            it.update(lc=lc, lp=lp, pb=pb)
            have_props = True
        if reset != 'none':
            reps = None
        while True:
            syms, n, reps2 = GL.random_symbols(rng, rng.choice((1, 3, 40, 400)), ds, history=avail, reps=reps,
                                               max_out=1 << 21)
            if n >= 1:
                break
        # csize must be <= 64 KiB: 400 symbols never exceed it
        it['symbols'] = syms
        reps = reps2
        avail += n
        plan.append(it)
        first = False
    plan.append(dict(kind='end'))
    chunks, total = G2.encode_chunks(plan, strict=True)
    return plan, total

def random_xz(rng):
    streams = []
    want = bytearray()
    for si in range(rng.choice((1, 1, 1, 2, 3))):
        check = rng.choice((0, 1, 4, 10, 1, 4))
        blocks = []
        for bi in range(rng.choice((0, 1, 1, 2, 3))):
            ds = rng.choice((4096, 1 << 16, 1 << 20))
            plan, total = random_lzma2_plan(rng, ds, 3)
            chunks, _ = G2.encode_chunks(plan)
            payload = G2.write_chunks(chunks)
            filters = []
            data = total
            for k in range(rng.choice((0, 0, 0, 1, 2, 3))):
                fid = rng.choice((3, 3, 5, 7, 8, 9, 10, 4))
                if fid == 3:
                    props = bytes([rng.choice((0, 1, 3, 255, rng.randrange(256)))])
                else:
                    props = rng.choice((b"", struct.pack("<I", GF.BCJ_ALIGN[fid] * rng.getrandbits(20))))
                filters.append((fid, props))
            # `total` is what LZMA2 yields; the uncompressed data is total passed through the decoders of the
            # non-last filters (last of them first)
            un = total
            for fid, props in reversed(filters):
                un = GF.apply_nonlast(fid, props, un, False)
            filters.append((0x21, bytes([G2.props_from_dict_size(ds)])))
            b = dict(filters=filters, data=payload, uncompressed=un)
            if rng.random() < 0.5:
                b['compressed_size'] = 'auto'
            if rng.random() < 0.5:
                b['uncompressed_size'] = 'auto'
            if rng.random() < 0.3:
                b['header_padding'] = rng.choice((1, 4, 8, 40))
            blocks.append(b)
            want += un
        s = dict(check=check, blocks=blocks)
        if rng.random() < 0.4:
            s['padding'] = 4 * rng.randrange(0, 4)
        streams.append(s)
    return streams, bytes(want)

# ------------------------------------------------------------------ b: liblzma encode -> glue decode
def sample_inputs(rng, full):
    words = [bytes(rng.getrandbits(8) for _ in range(rng.randrange(1, 10))) for _ in range(200)]
    text = b"".join(rng.choice(words) for _ in range(4000 if not full else 60000))
    out = [b"", b"a", bytes(1000), bytes(rng.getrandbits(8) for _ in range(3000)), text,
           (b"0123456789abcdef" * 400)[:5000] + bytes(rng.getrandbits(8) for _ in range(100)) + b"xyz" * 1000]
    if full:
        out.append(bytes(rng.getrandbits(8) for _ in range(70000)) + text)        # forces uncompressed chunks
        out.append(text * 40)                                                     # > 2 MiB: several chunks
    return out

def sec_b(rng, full):
    inputs = sample_inputs(rng, full)
    # b1 easy encoder presets
    presets = list(range(10)) + [6 | lz.PRESET_EXTREME, 9 | lz.PRESET_EXTREME, 0 | lz.PRESET_EXTREME]
    for preset in presets:
        for check in (lz.CHECK_CRC64, lz.CHECK_CRC32, lz.CHECK_NONE, lz.CHECK_SHA256)[:4 if full else 2]:
            for data in inputs:
                res = lib_run("lzma_easy_encoder", (preset, check), data, len(data) + len(data) // 2 + 65536)
                if res['ret'] != lz.STREAM_END:
                    fail('b1', 'easy_encoder failed', ret=rn(res['ret']))
                    continue
                g = GX.parse(res['out'])
                if g.verdict != 'ok' or g.output != data or g.consumed != len(res['out']):
                    fail('b1', 'xz easy preset', preset=preset, check=check, verdict=g.verdict, detail=g.detail, n=len(data))
                count('b1.easy')
    # b2 filter chains through lzma_stream_encoder
    chains = [
        [(lz.FILTER_DELTA, lz.OptDelta(0, 1)), (lz.FILTER_LZMA2, lz.lzma_opts(3))],
        [(lz.FILTER_DELTA, lz.OptDelta(0, 256)), (lz.FILTER_DELTA, lz.OptDelta(0, 3)), (lz.FILTER_LZMA2, lz.lzma_opts(1))],
        [(lz.FILTER_X86, None), (lz.FILTER_LZMA2, lz.lzma_opts(2))],
        [(lz.FILTER_POWERPC, None), (lz.FILTER_LZMA2, lz.lzma_opts(2))],
        [(lz.FILTER_ARM, lz.OptBcj(4096)), (lz.FILTER_LZMA2, lz.lzma_opts(2))],
        [(lz.FILTER_ARMTHUMB, None), (lz.FILTER_LZMA2, lz.lzma_opts(2))],
        [(lz.FILTER_SPARC, None), (lz.FILTER_LZMA2, lz.lzma_opts(2))],
        [(lz.FILTER_ARM64, lz.OptBcj(0xFFFFF000)), (lz.FILTER_LZMA2, lz.lzma_opts(2))],
        [(lz.FILTER_X86, lz.OptBcj(123)), (lz.FILTER_DELTA, lz.OptDelta(0, 4)), (lz.FILTER_ARM64, None),
         (lz.FILTER_LZMA2, lz.lzma_opts(0, lc=0, lp=4, pb=0))],
        [(lz.FILTER_LZMA2, lz.lzma_opts(4, lc=2, lp=2, pb=4, dict_size=4096))],
        [(lz.FILTER_LZMA2, lz.lzma_opts(5, lc=0, lp=0, pb=0, dict_size=1 << 16, mf=lz.MF_BT2, nice_len=2))],
        [(lz.FILTER_LZMA2, lz.lzma_opts(5, lc=4, lp=0, pb=1, dict_size=12345, mf=lz.MF_HC3, mode=lz.MODE_FAST))],
    ]
    codey = sample_code_like(rng, 20000)
    for chain in chains:
        for data in inputs[:5] + [codey]:
            f = lz.make_filters(chain)
            res = lib_run("lzma_stream_encoder", (f, lz.CHECK_CRC32), data, len(data) * 2 + 65536)
            if res['ret'] != lz.STREAM_END:
                fail('b2', 'stream_encoder failed', ret=rn(res['ret']), chain=[c[0] for c in chain])
                continue
            g = GX.parse(res['out'])
            if g.verdict != 'ok' or g.output != data:
                fail('b2', 'xz filter chain', chain=[c[0] for c in chain], verdict=g.verdict, detail=g.detail,
                     n=len(data), outeq=g.output == data)
            count('b2.chain')
    # b3 multi-block via the MT encoder
    for data in inputs:
        mt = lz.Mt()
        mt.threads = 2; mt.block_size = 4096; mt.preset = 1; mt.check = lz.CHECK_SHA256; mt.timeout = 0
        res = lib_run("lzma_stream_encoder_mt", (C.byref(mt),), data, len(data) * 2 + 65536 + (len(data) // 4096 + 1) * 64)
        if res['ret'] != lz.STREAM_END:
            fail('b3', 'encoder_mt failed', ret=rn(res['ret']))
            continue
        g = GX.parse(res['out'])
        nb = sum(len(s['blocks']) for s in g.streams)
        if g.verdict != 'ok' or g.output != data or nb != (len(data) + 4095) // 4096:
            fail('b3', 'xz mt', verdict=g.verdict, detail=g.detail, blocks=nb)
        count('b3.mt')
    # b4 alone encoder
    for (lc, lp, pb) in ((3, 0, 2), (0, 0, 0), (4, 0, 4), (0, 4, 0), (1, 3, 2)):
        for data in inputs:
            o = lz.lzma_opts(4, lc=lc, lp=lp, pb=pb, dict_size=1 << 16)
            res = lib_run("lzma_alone_encoder", (C.byref(o),), data, len(data) * 2 + 65536)
            if res['ret'] != lz.STREAM_END:
                fail('b4', 'alone_encoder failed', ret=rn(res['ret']))
                continue
            g = GA.parse(res['out'])
            if g.verdict != 'ok' or g.out != data or g.consumed != len(res['out']) or (g.lc, g.lp, g.pb) != (lc, lp, pb):
                fail('b4', '.lzma', verdict=g.verdict, lclppb=(lc, lp, pb))
            count('b4.alone')
    # b5 raw LZMA1/LZMA2 with preset dictionary
    for data in inputs:
        for pd in (b"", b"q", inputs[4][:777], inputs[4][:6000]):
            for fid in (lz.FILTER_LZMA1, lz.FILTER_LZMA2):
                o = lz.lzma_opts(2, lc=1, lp=2, pb=3, dict_size=4096, **({'preset_dict': pd} if pd else {}))
                res = lib_raw_enc(data, [(fid, o)])
                if res['ret'] != lz.STREAM_END:
                    fail('b5', 'raw encoder failed', ret=rn(res['ret']))
                    continue
                if fid == lz.FILTER_LZMA1:
                    g = GL.decode(res['out'], 1, 2, 3, 4096, preset_dict=pd)
                    ok = g.status == 'ok_eopm' and g.out == data and g.consumed == len(res['out'])
                    st = g.status
                else:
                    g = G2.decode(res['out'], 4096, preset_dict=pd)
                    ok = g.status == 'ok' and g.out == data and g.consumed == len(res['out'])
                    st = g.status
                if not ok:
                    fail('b5', 'raw + preset dict', fid=hex(fid), pd=len(pd), status=st, n=len(data))
                count('b5.raw')
    # b6 python decoder == C decoder on liblzma output (symbols, stats, chunk events)
    if chelper.available():
        for data in inputs[:6]:
            o = lz.lzma_opts(6, dict_size=1 << 16)
            res = lib_raw_enc(data, [(lz.FILTER_LZMA2, o)])
            p = G2.decode(res['out'], 1 << 16, impl='py', collect='full')
            c = G2.decode(res['out'], 1 << 16, impl='c', collect='full')
            if tuple(p) != tuple(c):
                fail('b6', 'py != c on liblzma LZMA2 output', n=len(data))
            count('b6.pyc')

def sample_code_like(rng, n):
    """Bytes that trigger the BCJ converters often (E8/E9 calls, BL, 0xEB, PPC branches...)."""
    out = bytearray()
    pats = [b"\xE8", b"\xE9", b"\xEB", b"\x48\x00\x00\x01", b"\x4B\xFF\xFF\xF1", b"\x00\x00\x00\x94", b"\x01\x00\x00\x90",
            b"\xFF\xFF\xFF\x97", b"\x40\x00\x00\x00", b"\x7F\xFF\xFF\xFF", b"\x00\xF0\x00\xF8", b"\xFF\xF7\xFF\xFF",
            b"\x00\x00\x00\xEB", b"\xE8\x00\x00\x00\x00", b"\xE8\xFF\xFF\xFF\xFF", b"\xE8\xE8\xE8\xE8", b"\x00", b"\xFF"]
    while len(out) < n:
        if rng.random() < 0.5:
            out += rng.choice(pats)
        else:
            out += bytes(rng.getrandbits(8) for _ in range(rng.randrange(1, 6)))
    return bytes(out[:n])

# ------------------------------------------------------------------ c: tests/files
FILES_NOTES = {
    # file: explanation of an accepted difference between the file name prefix and the glue verdict
    'unsupported-check.xz': "glue decodes it ('ok') with warning unsupported_check:2, as the format allows; "
                            "liblzma (without LZMA_TELL_UNSUPPORTED_CHECK) decodes it too",
}

def sec_c(rng, full):
    d = os.path.join(os.environ.get("VERIF_REPO", "/repo"), "tests", "files")
    for fn in sorted(os.listdir(d)):
        path = os.path.join(d, fn)
        if not fn.endswith(('.xz', '.lzma', '.lz')):
            continue
        data = open(path, 'rb').read()
        prefix = fn.split('-', 1)[0]
        if fn.endswith('.xz'):
            g = GX.parse(data)
            verdict, out = g.verdict, g.output
            res = lib_xz(data)
        elif fn.endswith('.lzma'):
            g = GA.parse(data)
            verdict, out = g.verdict, g.out
            if g.verdict == 'ok' and g.trailing:
                verdict = 'error:trailing'
            res = lib_alone(data)
        else:
            g = GZ.parse(data)
            verdict, out = g.verdict, g.output
            res = lib_lzip(data)
        if verdict == 'unsupported-by-glue':
            print("  note: %s uses a filter glue does not implement" % fn)
            count('c.skipped')
            continue
        cls = 'good' if verdict == 'ok' else ('unsupported' if verdict.startswith('unsupported:') else 'bad')
        if cls != prefix:
            if fn in FILES_NOTES and verdict == 'ok' and g.warnings:
                count('c.documented')
            else:
                fail('c', 'verdict vs file name', file=fn, verdict=verdict)
        want_ret = {'good': lz.STREAM_END, 'unsupported': lz.OPTIONS_ERROR}.get(cls)
        lib_cls = 'good' if res['ret'] == lz.STREAM_END else ('unsupported' if res['ret'] == lz.OPTIONS_ERROR else 'bad')
        if lib_cls != cls:
            fail('c', 'glue vs liblzma', file=fn, verdict=verdict, ret=rn(res['ret']))
        if GX.expected_ret(verdict) != rn(res['ret']) and fn.endswith('.xz'):
            fail('c', 'expected_ret', file=fn, verdict=verdict, ret=rn(res['ret']))
        if verdict == 'ok' and out != res['out']:
            fail('c', 'decoded bytes', file=fn)
        if verdict != 'ok' and not out.startswith(res['out']) and not res['out'].startswith(out):
            fail('c', 'partial output not prefix-compatible', file=fn)
        count('c.files')

# ------------------------------------------------------------------ d: verdict closure
def ret_class(r):
    return {lz.STREAM_END: 'ok', lz.BUF_ERROR: 'truncated', lz.FORMAT_ERROR: 'format', lz.OPTIONS_ERROR: 'unsupported',
            lz.DATA_ERROR: 'error', lz.OK: 'truncated'}.get(r, rn(r))

def verdict_class(v):
    if v == 'ok' or v == 'truncated':
        return v
    if v == 'error:format':
        return 'format'
    if v.startswith('unsupported:'):
        return 'unsupported'
    if v.startswith('error:'):
        return 'error'
    return v

KNOWN = []       # (section, predicate description) filled by the sections; see README "Known differences"

def crafted_xz_faults(rng):
    """(name, stream description, expected verdict) single-fault files built with xz.build overrides."""
    plan = [dict(kind='lzma', reset='all', lc=3, lp=0, pb=2, symbols=[('lit', 65), ('lit', 66), ('rep', 0, 5), ('lit', 10)]),
            dict(kind='end')]
    chunks, un = G2.encode_chunks(plan)
    payload = G2.write_chunks(chunks)
    def blk(**kw):
        b = dict(data=payload, uncompressed=un, dict_size=1 << 16)
        b.update(kw)
        return b
    def one(block=None, **skw):
        s = dict(check=1, blocks=[block if block is not None else blk()])
        s.update(skw)
        return [s]
    F = []
    F.append(('valid', one(), 'ok'))
    F.append(('header_magic', one(header=dict(magic=b"\xFD7zXZ\x01")), 'error:format'))
    F.append(('header_crc', one(header=dict(crc32=0)), 'error:stream_header_crc'))
    F.append(('flags_reserved0', one(header=dict(flags=b"\x01\x01"), footer=dict(flags=b"\x01\x01")), 'unsupported:stream_flags'))
    F.append(('flags_reserved1', one(header=dict(flags=b"\x00\x11"), footer=dict(flags=b"\x00\x11")), 'unsupported:stream_flags'))
    F.append(('bh_crc', one(blk(header_crc32=1)), 'error:block_header_crc'))
    F.append(('bh_flags_reserved', one(blk(flags=0x04)), 'unsupported:block_flags'))
    F.append(('bh_flags_reserved2', one(blk(flags=0x20)), 'unsupported:block_flags'))
    F.append(('bh_csize_zero', one(blk(compressed_size=0)), 'error:compressed_size'))
    F.append(('bh_csize_huge', one(blk(compressed_size=(1 << 63) - 1)), 'error:compressed_size'))
    F.append(('bh_csize_small', one(blk(compressed_size=len(payload) - 1)), 'error:compressed_size'))
    F.append(('bh_csize_big', one(blk(compressed_size=len(payload) + 1)), 'error:compressed_size'))
    F.append(('bh_usize_small', one(blk(uncompressed_size=len(un) - 1)), 'error:uncompressed_size'))
    F.append(('bh_usize_big', one(blk(uncompressed_size=len(un) + 1)), 'error:uncompressed_size'))
    F.append(('bh_vli_nonminimal', one(blk(uncompressed_size_bytes=vli.encode_padded(len(un), 2))), 'error:block_header_vli'))
    F.append(('bh_vli_10', one(blk(uncompressed_size_bytes=vli.encode_padded(len(un), 10))), 'error:block_header_vli'))
    F.append(('bh_padding_nonzero', one(blk(header_padding=b"\x00\x01")), 'unsupported:header_padding'))
    F.append(('bh_extra_padding_ok', one(blk(header_padding=8)), 'ok'))
    F.append(('bh_filter_unknown', one(blk(filters=[(0x7F, b""), (0x21, b"\x04")])), 'unsupported:filter_id'))
    F.append(('bh_filter_reserved', one(blk(filters=[(1 << 62, b""), (0x21, b"\x04")])), 'error:filter_id_reserved'))
    F.append(('bh_lzma2_not_last', one(blk(filters=[(0x21, b"\x04"), (0x21, b"\x04")])), 'unsupported:filter_chain'))
    F.append(('bh_delta_last', one(blk(filters=[(3, b"\x00")])), 'unsupported:filter_chain'))
    F.append(('bh_lzma2_props_41', one(blk(filters=[(0x21, b"\x29")])), 'unsupported:filter_props'))
    F.append(('bh_lzma2_props_resv', one(blk(filters=[(0x21, b"\x44")])), 'unsupported:filter_props'))
    F.append(('bh_lzma2_props_size2', one(blk(filters=[(0x21, b"\x04\x00")])), 'unsupported:filter_props'))
    F.append(('bh_lzma2_props_size0', one(blk(filters=[(0x21, b"")])), 'unsupported:filter_props'))
    F.append(('bh_delta_props_size0', one(blk(filters=[(3, b""), (0x21, b"\x04")])), 'unsupported:filter_props'))
    F.append(('bh_bcj_props_size1', one(blk(filters=[(4, b"\x00"), (0x21, b"\x04")])), 'unsupported:filter_props'))
    F.append(('bh_bcj_unaligned', one(blk(filters=[(5, b"\x02\x00\x00\x00"), (0x21, b"\x04")])), 'unsupported:filter_props'))
    F.append(('bh_props_past_end', one(blk(filters=[dict(id=0x21, props=b"\x04", props_size=100)])), 'error:block_header'))
    F.append(('bh_lzma2_dict_40', one(blk(filters=[(0x21, b"\x28")])), 'ok'))
    F.append(('block_padding_nonzero', one(blk(padding=bytes([1] * ((-len(payload)) % 4)) or None)), 'error:block_padding' if len(payload) % 4 else 'ok'))
    F.append(('check_wrong', one(blk(check=b"\0\0\0\0")), 'error:check'))
    F.append(('index_indicator', one(index=dict(raw=b"\x00\x02\x1b\x07\x00\x00\x00\x00")), None))
    F.append(('index_count_0', one(index=dict(count=0, records=[])), 'error:index_count'))
    F.append(('index_count_2', one(index=dict(count=2)), 'error:index_count'))
    F.append(('index_unpadded_wrong', one(blk(index_unpadded=12 + len(payload) + 4 + 1)), 'error:index_mismatch'))
    F.append(('index_unpadded_zero', one(blk(index_unpadded=0)), 'error:index_record'))
    F.append(('index_uncompressed_wrong', one(blk(index_uncompressed=len(un) + 1)), 'error:index_mismatch'))
    F.append(('index_vli', one(index=dict(record_bytes=[(None, vli.encode_padded(len(un), 3))])), 'error:index_vli'))
    F.append(('index_padding_nonzero', one(index=dict(padding=b"\x00\x01\x00"[:1])), None))
    F.append(('index_crc', one(index=dict(crc32=5)), 'error:index_crc'))
    F.append(('footer_magic', one(footer=dict(magic=b"YY")), 'error:footer_magic'))
    F.append(('footer_crc', one(footer=dict(crc32=7)), 'error:footer_crc'))
    F.append(('footer_backward', one(footer=dict(backward_size=5)), 'error:backward_size'))
    F.append(('footer_flags_differ', one(footer=dict(flags=b"\x00\x04")), 'error:footer_flags'))
    F.append(('footer_flags_reserved', one(footer=dict(flags=b"\x00\x21")), 'unsupported:footer_flags'))
    F.append(('stream_padding_4', one(padding=4), 'ok'))
    F.append(('stream_padding_3', one(padding=3), 'error:stream_padding'))
    F.append(('stream_padding_nonzero', one(padding=b"\x00\x00\x00\x01"), None))
    F.append(('second_magic', one() + one(header=dict(magic=b"\xFD7zXZ\x01")), 'error:magic'))
    F.append(('two_streams_pad', one(padding=8) + one(check=4), 'ok'))
    F.append(('unsupported_check_ids', one(check=2), 'ok'))
    F.append(('check_id_15', [dict(check=15, blocks=[blk(check=bytes(64))])], 'ok'))
    F.append(('no_blocks', [dict(check=0, blocks=[])], 'ok'))
    return F

def sec_d(rng, full):
    # d1 crafted single-fault .xz files
    for name, desc, want in crafted_xz_faults(rng):
        f, fmap = GX.build(desc)
        g = GX.parse(f)
        res = lib_xz(f)
        if want is not None and g.verdict != want:
            fail('d1', 'crafted verdict', name=name, verdict=g.verdict, want=want)
        if verdict_class(g.verdict) != ret_class(res['ret']):
            fail('d1', 'crafted: glue vs liblzma', name=name, verdict=g.verdict, ret=rn(res['ret']))
        elif g.verdict == 'ok' and g.output != res['out']:
            fail('d1', 'crafted: output', name=name)
        count('d1.crafted')
    # d2 random corruption / truncation of valid .xz files
    n2 = 400 if not full else 6000
    for it in range(n2):
        desc, want = random_xz(rng)
        f, fmap = GX.build(desc)
        m = mutate(rng, f, fmap)
        g = GX.parse(m)
        res = lib_xz(m, cap=len(want) * 2 + 70000)
        gc, lc = verdict_class(g.verdict), ret_class(res['ret'])
        if gc != lc and not known_xz_difference(g, res, m):
            fail('d2', 'mutated .xz: glue vs liblzma', verdict=g.verdict, detail=g.detail, ret=rn(res['ret']),
                 at=g.error_offset, file=m if len(m) < 200 else b"")
            if VERBOSE:
                open("/var/tmp/glue_selftest_fail_%d.xz" % len(FAILS), "wb").write(m)
        elif gc == 'ok' and g.output != res['out']:
            fail('d2', 'mutated .xz: output differs')
        count('d2.mut_xz')
    # d3 LZMA2 raw: invalid sequences + corruptions
    n3 = 400 if not full else 5000
    for it in range(n3):
        ds = rng.choice((4096, 1 << 16))
        plan, want = random_lzma2_plan(rng, ds, 4)
        chunks, _ = G2.encode_chunks(plan)
        mode = rng.randrange(6)
        if mode == 0 and len(chunks) > 1:
            # drop / change reset levels
            c = rng.choice(chunks[:-1])
            if c['kind'] == 'lzma':
                c['reset'] = rng.choice(('none', 'state', 'state+props', 'all'))
                if c['reset'] in ('state+props', 'all') and c.get('props') is None:
                    c['props'] = rng.choice((0x5D, 0, 224, 225, 44, 8 + 9 * 1))
                if c['reset'] in ('none', 'state'):
                    c.pop('props', None)
            else:
                c['dict_reset'] = not c.get('dict_reset')
        elif mode == 1:
            c = rng.choice(chunks)
            c['control'] = rng.choice((0x03, 0x7F, 0x10, 0x00, 0x01, 0x02, 0x80, 0xFF))
        elif mode == 2:
            c = rng.choice(chunks)
            if c['kind'] == 'lzma':
                if rng.random() < 0.5:
                    c['usize'] = max(1, c['usize'] + rng.choice((-1, 1, 5)))
                else:
                    c['csize'] = max(1, len(c['payload']) + rng.choice((-1, 1)))
        elif mode == 3:
            chunks = chunks[:-1]          # no end marker
        f = G2.write_chunks(chunks)
        if mode >= 4:
            f = mutate(rng, f, None)
        g = G2.decode(f, ds, impl='py')
        o = lz.lzma_opts(6, dict_size=ds)
        res = lib_raw(f, [(lz.FILTER_LZMA2, o)], cap=len(want) * 2 + (1 << 22))
        gcl = 'ok' if g.status == 'ok' else ('truncated' if g.status == 'need_more' else 'error')
        lcl = ret_class(res['ret'])
        if gcl != lcl and known_lzma2_difference(g, res, f, ds):
            pass
        elif gcl != lcl:
            fail('d3', 'LZMA2: glue vs liblzma', status=g.status, ret=rn(res['ret']), mode=mode, file=f if len(f) < 120 else b"")
        elif gcl == 'ok' and (g.out != res['out'] or g.consumed != res['consumed']):
            fail('d3', 'LZMA2: output/consumed', consumed=(g.consumed, res['consumed']))
        elif gcl != 'ok' and not (g.out.startswith(res['out']) or res['out'].startswith(g.out)):
            fail('d3', 'LZMA2: partial outputs incompatible', status=g.status)
        if chelper.available():
            c = G2.decode(f, ds, impl='c')
            if tuple(c) != tuple(g):
                fail('d3', 'LZMA2 c != py', c=c.status, py=g.status, file=f if len(f) < 120 else b"")
        count('d3.lzma2')
    # d4 .lzma: wrong sizes, corruptions, distances beyond the dictionary
    n4 = 400 if not full else 5000
    for it in range(n4):
        lc, lp, pb = rng.choice(combos())
        ds = rng.choice((4096, 1 << 16, 3 << 11))
        syms, n, _ = GL.random_symbols(rng, rng.choice((1, 10, 100)), ds)
        mode = rng.randrange(6)
        usize, eopm = rng.choice(((None, True), ('auto', False), ('auto', True)))
        kw = {}
        if mode == 0 and usize == 'auto':
            usize = max(0, n + rng.choice((-3, -1, 1, 2)))
        elif mode == 1:
            # a match reaching beyond the available data / dictionary
            k = rng.randrange(len(syms) + 1)
            avail = len(GL.expand(syms[:k]))
            syms = syms[:k] + [('match', min(avail, ds) + rng.choice((0, 1, 100)), rng.randrange(2, 20))] + syms[k:]
            if usize == 'auto':
                usize = len(GL.expand(syms, strict=False))
        elif mode == 2 and usize is None:
            eopm = False                       # unknown size without marker
        f = GA.build(symbols=syms, lc=lc, lp=lp, pb=pb, dict_size=ds, usize=usize, eopm=eopm)
        if mode >= 4:
            f = f[:13] + mutate(rng, f[13:], None)
        g = GA.parse(f, impl='py')
        res = lib_alone(f, cap=n * 2 + (1 << 20))
        gcl, lcl = verdict_class(g.verdict), ret_class(res['ret'])
        if gcl != lcl and not known_alone_difference(g, res, f):
            fail('d4', '.lzma: glue vs liblzma', verdict=g.verdict, ret=rn(res['ret']), mode=mode, lclppb=(lc, lp, pb),
                 usize=usize, eopm=eopm, file=f if len(f) < 100 else b"")
        elif gcl == 'ok' and (g.out != res['out'] or g.consumed != res['consumed']):
            fail('d4', '.lzma: output/consumed', consumed=(g.consumed, res['consumed']))
        if chelper.available():
            c = GA.parse(f, impl='c')
            if (c.verdict, c.out, c.consumed) != (g.verdict, g.out, g.consumed) or c.lzma.symbols != g.lzma.symbols:
                fail('d4', '.lzma c != py', c=c.verdict, py=g.verdict)
        count('d4.lzma')
    # d5 .lz
    n5 = 300 if not full else 4000
    for it in range(n5):
        ds = rng.choice((4096, 1 << 16, 5 << 12))
        syms, n, _ = GL.random_symbols(rng, rng.choice((0, 1, 10, 100)), ds)
        mode = rng.randrange(9)
        kw = dict(symbols=syms, version=rng.choice((0, 1)), dict_size=ds)
        if mode == 0:
            kw['crc32'] = rng.getrandbits(32)
        elif mode == 1:
            kw['data_size'] = n + rng.choice((-1, 1, 1 << 40)) if n else 1
        elif mode == 2 and kw['version'] == 1:
            kw['member_size'] = rng.choice((0, 1, 1 << 60))
        elif mode == 3:
            kw['ds_byte'] = rng.getrandbits(8)
        elif mode == 4:
            kw['version_byte'] = rng.choice((2, 3, 255))
        elif mode == 5:
            kw['eos'] = False
        elif mode == 6:
            kw['symbols'] = syms + [('match', 0xFFFFFFFF, rng.choice((3, 4, 273)))]
            kw['eos'] = False
        f = GZ.build([kw], rng.choice((b"", b"", b"LZIP", b"LZIP\x01", b"LZ", b"abc")))
        if mode == 7:
            f = mutate(rng, f, None)
        g = GZ.parse(f, impl='py')
        res = lib_lzip(f, cap=n * 2 + (1 << 20))
        gcl, lcl = verdict_class(g.verdict), ret_class(res['ret'])
        if gcl != lcl and not known_lzip_difference(g, res, f, kw):
            fail('d5', '.lz: glue vs liblzma', verdict=g.verdict, ret=rn(res['ret']), mode=mode, kw={k: v for k, v in kw.items() if k != 'symbols'},
                 file=f if len(f) < 100 else b"")
        elif gcl == 'ok' and g.output != res['out']:
            fail('d5', '.lz: output')
        count('d5.lz')

def sec_d_more(rng, full):
    # d6 every prefix of valid files: 'truncated' <=> LZMA_BUF_ERROR, partial outputs prefix-compatible
    desc, want = random_xz(rng)
    while not want or len(GX.build(desc)[0]) > 3000:
        desc, want = random_xz(rng)
    fx = GX.build(desc)[0]
    syms, n, _ = GL.random_symbols(rng, 60, 4096)
    files = [('xz', fx, lib_xz, lambda d: (lambda g: (g.verdict, g.output))(GX.parse(d, impl='py'))),
             ('lzma', GA.build(symbols=syms, usize='auto', eopm=False), lib_alone,
              lambda d: (lambda g: (g.verdict, g.out))(GA.parse(d, impl='py'))),
             ('lzma_eopm', GA.build(symbols=syms, usize=None), lib_alone,
              lambda d: (lambda g: (g.verdict, g.out))(GA.parse(d, impl='py'))),
             ('lz', GZ.build([dict(symbols=syms), dict(symbols=syms[:9], version=0)]), lib_lzip,
              lambda d: (lambda g: (g.verdict, g.output))(GZ.parse(d, impl='py')))]
    for name, f, libf, gluef in files:
        for k in range(len(f)):
            pre = f[:k]
            v, out = gluef(pre)
            res = libf(pre)
            # normally 'truncated'; 'ok' for .lz / multi-stream .xz cut at a member/stream boundary (or inside a
            # 1-3 byte magic prefix of .lz = trailing data); 'error' for .xz cut inside Stream Padding
            okc = verdict_class(v) == ret_class(res['ret']) and v != 'unsupported-by-glue'
            if verdict_class(v) == 'truncated':
                count('d6.truncated')
            if not okc:
                fail('d6', 'prefix verdict', fmt=name, k=k, n=len(f), verdict=v, ret=rn(res['ret']))
            elif not (out.startswith(res['out']) or res['out'].startswith(out)):
                fail('d6', 'prefix output', fmt=name, k=k)
            count('d6.prefix')
    # d7 dictionary size relaxation K3: liblzma == glue run with liblzma_dict_size(ds)
    for it in range(60 if not full else 600):
        ds = rng.choice((0, 1, 17, 4095, 4096, 4097, 5000, 8191, 8192, 8193, 65537, rng.randrange(1, 70000)))
        eff = GL.liblzma_dict_size(ds)
        D = rng.choice((ds, ds + 1, eff - 1, eff, eff + 1, eff + 16, max(1, ds - 1), 4096, 4097))
        if D < 1:
            D = 1
        nlit = D + rng.choice((0, 1, 50))
        syms = [('lit', (i * 7) & 255) for i in range(nlit)] + [('match', D - 1, 3), ('eopm',)]
        enc = GL.encode_symbols(syms, 3, 0, 2)
        res = lib_raw(enc, [(lz.FILTER_LZMA1, lz.lzma_opts(6, dict_size=ds))], cap=nlit + 4096)
        g_exact = GL.decode(enc, 3, 0, 2, ds)
        g_relaxed = GL.decode(enc, 3, 0, 2, eff)
        lib_ok = res['ret'] == lz.STREAM_END
        if lib_ok != (g_relaxed.status == 'ok_eopm') or (g_exact.status == 'ok_eopm' and not lib_ok):
            fail('d7', 'dict size relaxation', ds=ds, D=D, ret=rn(res['ret']), exact=g_exact.status, relaxed=g_relaxed.status)
        if (g_exact.status == 'ok_eopm') != lib_ok:
            count('known.K3_dict_rounding')
        count('d7.dictsize')

def mutate(rng, f, fmap):
    f = bytearray(f)
    if not f:
        return bytes(f)
    k = rng.random()
    if k < 0.3:
        return bytes(f[:rng.randrange(len(f))])            # truncation
    if fmap and k < 0.6:
        nm, o, l = rng.choice([e for e in fmap if e[2]])     # hit a random field
        p = o + rng.randrange(l)
    else:
        p = rng.randrange(len(f))
    if rng.random() < 0.5:
        f[p] ^= 1 << rng.randrange(8)
    else:
        f[p] = rng.choice((0, 1, 0xFF, 0x80, rng.getrandbits(8)))
    return bytes(f)

def late_detection(libf, data, cap):
    """K1: glue found an error inside the given bytes, liblzma asks for more input (LZMA_BUF_ERROR).  Accepted only
    if liblzma reports LZMA_DATA_ERROR as soon as more bytes (of any value) follow."""
    for fill in (b"\x00", b"\xff", b"\x5a"):
        r2 = libf(data + fill * 80, cap)
        if r2['ret'] != lz.DATA_ERROR:
            return False
    count('known.K1_late_detection')
    return True

def known_xz_difference(g, res, data):
    if g.verdict.startswith('error:') and res['ret'] in (lz.BUF_ERROR, lz.OK):
        return late_detection(lambda d, cap: lib_xz(d, cap), data, len(g.output) * 2 + (1 << 20))
    return False

def known_alone_difference(g, res, data):
    """K1 late detection, e.g. glue reports error:lzma:size at the first bit of the symbol that exceeds the declared
    size (like the LZMA SDK reference decoder); liblzma decodes the whole symbol first, so when the input ends
    inside that symbol it asks for more input (LZMA_BUF_ERROR)."""
    if g.verdict.startswith('error:') and res['ret'] in (lz.BUF_ERROR, lz.OK):
        return late_detection(lambda d, cap: lib_alone(d, cap), data, len(g.out) * 2 + (1 << 20))
    return False

def known_lzma2_difference(g, res, data, ds):
    """K1: an LZMA chunk that needs more than its csize bytes (error:chunk:csize_short) at the very end of the input:
    liblzma lets the LZMA decoder read past csize and notices only when such bytes exist."""
    if g.status.startswith('error:') and res['ret'] in (lz.BUF_ERROR, lz.OK):
        o = lz.lzma_opts(6, dict_size=ds)
        return late_detection(lambda d, cap: lib_raw(d, [(lz.FILTER_LZMA2, o)], cap), data, len(g.out) * 2 + (1 << 22))
    return False

def known_lzip_difference(g, res, data, kw):
    """K2: liblzma accepts an end marker of any length in .lz; the lzip manual defines length 2 only."""
    if g.verdict == 'error:eos_len':
        g2 = GZ.parse(data, impl='py', strict_eos=False)
        if verdict_class(g2.verdict) == ret_class(res['ret']) and (g2.verdict != 'ok' or g2.output == res['out']):
            count('known.K2_eos_len')
            return True
    return False

# ------------------------------------------------------------------ performance
def perf(rng):
    if not chelper.available():
        print("perf: C helper unavailable")
        return
    words = [bytes(rng.getrandbits(8) for _ in range(rng.randrange(1, 12))) for _ in range(3000)]
    data = b"".join(rng.choice(words) for _ in range(400000))
    res = lib_raw_enc(data, [(lz.FILTER_LZMA2, lz.lzma_opts(6))])
    e = res['out']
    for collect in ('stats', 'full'):
        t = time.time()
        r = G2.decode(e, 1 << 23, collect=collect)
        dt = time.time() - t
        assert r.status == 'ok' and r.out == data
        print("perf: LZMA2 tokenise collect=%-5s %d KiB compressed (%d KiB out) in %.2fs = %.0f KB/s compressed"
              % (collect, len(e) >> 10, len(data) >> 10, dt, len(e) / dt / 1e3))

def main():
    global VERBOSE
    ap = argparse.ArgumentParser()
    ap.add_argument("--full", action="store_true")
    ap.add_argument("--seed", type=int, default=int(os.environ.get("VERIF_SEED", "1")))
    ap.add_argument("--only", default="u,a,b,c,d,p")
    ap.add_argument("--variant", default="plain")
    ap.add_argument("-v", action="store_true")
    a = ap.parse_args()
    VERBOSE = a.v
    lz.load(build.lib(a.variant)['so'])
    rng = random.Random(a.seed)
    secs = dict(u=sec_u, a=sec_a, b=sec_b, c=sec_c, d=lambda r, f: (sec_d(r, f), sec_d_more(r, f)))
    t0 = time.time()
    for k in a.only.split(","):
        if k == 'p':
            perf(rng)
            continue
        t = time.time()
        secs[k](rng, a.full)
        print("section %s done in %.1fs, %d disagreement(s) so far" % (k, time.time() - t, len(FAILS)))
    print("counts:", " ".join("%s=%d" % kv for kv in sorted(COUNTS.items())))
    print("glue selftest: %s (%d disagreements, %.1fs, seed %d, C helper %s)" % (
        "PASS" if not FAILS else "FAIL", len(FAILS), time.time() - t0, a.seed,
        "yes" if chelper.available() else "NO"))
    return 1 if FAILS else 0

if __name__ == "__main__":
    sys.exit(main())
