"""Format codecs written independently of liblzma's sources (see README.md in this directory).

Modules: crc, vli, lzma (LZMA1 symbol codec), lzma2 (chunk level), xz (.xz container, field level),
alone (.lzma), lzip (.lz), filters (delta + simple BCJ), chelper (optional accelerated decoder).
"""

class FormatError(Exception):
    """Raised by low-level decoders (vli.decode, property decoding) on malformed input."""
    pass

class Truncated(Exception):
    """Raised by low-level readers when the buffer ends before the field does."""
    pass
