"""LZMA1 symbol-level codec written from the LZMA SDK specification (lzma-specification.txt),
independent of liblzma's sources.

SYMBOLS (tuples)
    ('lit', byte)                 one literal byte 0..255
    ('match', dist0, length)      "simple match": dist0 = distance - 1 (the value that is coded in the
                                  stream and that becomes rep0), 0 <= dist0 <= 0xFFFFFFFE; length 2..273.
                                  dist0 = 0 copies the previous byte.  ('match', 0xFFFFFFFF, n) is accepted
                                  by the ENcoder and produces an end marker with length n (n=2 is the
                                  canonical marker; lzip defines n=3 as "sync flush marker").
    ('rep', idx, length)          repeated match using rep[idx], idx 0..3, length 2..273
    ('shortrep',)                 one byte copied from distance rep0+1
    ('eopm',)                     end of payload marker == ('match', 0xFFFFFFFF, 2)
The decoder always reports an end marker as ('eopm',) and stores its length in result.eopm_len.

POSITION CONVENTION: the position used for pos_state / literal position bits counts the bytes
output since the last dictionary reset and does NOT include the preset dictionary (determined by
black-box experiment with liblzma; see selftest `preset`).  A preset dictionary longer than
dict_size is truncated to its last dict_size bytes by the decoder.

RANGE CODER CONVENTION: the decoder normalises lazily (before a bit is decoded) so that a truncated
input yields as many symbols as possible, and performs the pending normalisation when the stream
ends; `consumed` at a proper end therefore equals what the SDK reference decoder (eager
normalisation) and the range encoder flush (5 bytes) imply: 5 + number of normalisations.
"""
from . import FormatError

EOPM_DIST = 0xFFFFFFFF
MATCH_MIN, MATCH_MAX = 2, 273
NUM_STATES = 12
PROB_INIT = 1024
TOP = 1 << 24

def props_byte(lc, lp, pb):
    return (pb * 5 + lp) * 9 + lc

def props_decode(b, lzma2=False):
    """-> (lc, lp, pb). FormatError if b > 224, or (lzma2=True: also if lc+lp > 4)."""
    if b > (4 * 5 + 4) * 9 + 8:
        raise FormatError("lzma props byte %d" % b)
    pb = b // 45
    b -= pb * 45
    lp = b // 9
    lc = b - lp * 9
    if lzma2 and lc + lp > 4:
        raise FormatError("lc+lp > 4")
    return lc, lp, pb

def liblzma_dict_size(dict_size):
    """Documented liblzma relaxation (observed on 5.8.1, raw LZMA1 / .lzma decoders): the decoder allocates
    max(4096, dict_size rounded up to a multiple of 16) and accepts every distance up to that value."""
    return max(4096, (dict_size + 15) & ~15)

def _st_lit(s):
    return 0 if s < 4 else (s - 3 if s < 10 else s - 6)
def _st_match(s):
    return 7 if s < 7 else 10
def _st_rep(s):
    return 8 if s < 7 else 11
def _st_shortrep(s):
    return 9 if s < 7 else 11

class _Model:
    """All adaptive probabilities + state + reps (what a 'state reset' resets)."""
    def __init__(self, lc, lp, pb):
        self.set_props(lc, lp, pb)

    def set_props(self, lc, lp, pb):
        if not (0 <= lc <= 8 and 0 <= lp <= 4 and 0 <= pb <= 4):
            raise ValueError("lc/lp/pb out of range")
        self.lc, self.lp, self.pb = lc, lp, pb
        self.reset_state()

    def reset_state(self):
        I = PROB_INIT
        self.state = 0
        self.reps = [0, 0, 0, 0]
        self.is_match = [I] * (NUM_STATES << 4)
        self.is_rep = [I] * NUM_STATES
        self.is_rep_g0 = [I] * NUM_STATES
        self.is_rep_g1 = [I] * NUM_STATES
        self.is_rep_g2 = [I] * NUM_STATES
        self.is_rep0_long = [I] * (NUM_STATES << 4)
        self.pos_slot = [[I] * 64 for _ in range(4)]
        self.pos_special = [I] * (1 + 128 - 14)
        self.align = [I] * 16
        # length coders: [choice, choice2], low[16][8], mid[16][8], high[256]
        self.len_choice = [I, I]
        self.len_low = [[I] * 8 for _ in range(16)]
        self.len_mid = [[I] * 8 for _ in range(16)]
        self.len_high = [I] * 256
        self.rep_choice = [I, I]
        self.rep_low = [[I] * 8 for _ in range(16)]
        self.rep_mid = [[I] * 8 for _ in range(16)]
        self.rep_high = [I] * 256
        self.literal = [I] * (0x300 << (self.lc + self.lp))

# ====================================================================== range encoder
class RangeEncoder:
    def __init__(self):
        self.out = bytearray()
        self.reset()

    def reset(self):
        self.low = 0
        self.range = 0xFFFFFFFF
        self.cache = 0
        self.cache_size = 1

    def shift_low(self):
        low = self.low
        if low < 0xFF000000 or low >= 0x100000000:
            carry = low >> 32
            out = self.out
            out.append((self.cache + carry) & 0xFF)
            for _ in range(self.cache_size - 1):
                out.append((0xFF + carry) & 0xFF)
            self.cache_size = 0
            self.cache = (low >> 24) & 0xFF
        self.cache_size += 1
        self.low = (low & 0x00FFFFFF) << 8

    def bit(self, probs, i, b):
        p = probs[i]
        bound = (self.range >> 11) * p
        if b == 0:
            self.range = bound
            probs[i] = p + ((2048 - p) >> 5)
        else:
            self.low += bound
            self.range -= bound
            probs[i] = p - (p >> 5)
        while self.range < TOP:
            self.range = (self.range << 8) & 0xFFFFFFFF
            self.shift_low()

    def direct(self, value, nbits):
        for k in range(nbits - 1, -1, -1):
            self.range >>= 1
            if (value >> k) & 1:
                self.low += self.range
            while self.range < TOP:
                self.range = (self.range << 8) & 0xFFFFFFFF
                self.shift_low()

    def tree(self, probs, nbits, value):
        m = 1
        for k in range(nbits - 1, -1, -1):
            b = (value >> k) & 1
            self.bit(probs, m, b)
            m = (m << 1) | b

    def rtree(self, probs, base, nbits, value):
        m = 1
        for _ in range(nbits):
            b = value & 1
            value >>= 1
            self.bit(probs, base + m, b)
            m = (m << 1) | b

    def flush(self):
        for _ in range(5):
            self.shift_low()

    def take(self):
        o = bytes(self.out)
        del self.out[:]
        return o

def _dist_slot(d):
    if d < 4:
        return d
    n = d.bit_length() - 1
    return 2 * n + ((d >> (n - 1)) & 1)

class LzmaEncoder:
    """Stateful LZMA1 symbol encoder.

    enc = LzmaEncoder(lc, lp, pb, preset_dict=b'')
    enc.encode(symbols, flush=True) -> bytes   a new range-coder stream (5-byte flush at the end). With
                                               flush=False the range coder stays open and the next encode()
                                               call continues the same stream (bytes are returned as they
                                               become final).
    enc.reset_state()                          probabilities, state, reps (LZMA2 'state reset')
    enc.set_props(lc, lp, pb)                  new props, implies reset_state()
    enc.reset_dict()                           forget history and position (LZMA2 dictionary reset)
    enc.add_uncompressed(data)                 bytes that went through an LZMA2 uncompressed chunk
    enc.out                                    bytearray of everything produced since the last dict reset
                                               (excluding the preset dictionary)
    The encoder does NOT validate distances (so invalid streams can be produced) unless strict=True;
    bytes "copied" from before the start of the history are taken as 0x00.
    """
    def __init__(self, lc=3, lp=0, pb=2, preset_dict=b"", strict=False):
        self.m = _Model(lc, lp, pb)
        self.rc = RangeEncoder()
        self.rc_open = False
        self.strict = strict
        self.hist = bytearray(preset_dict)
        self.base = len(self.hist)      # hist[base:] == out

    @property
    def out(self):
        return self.hist[self.base:]

    @property
    def pos(self):
        return len(self.hist) - self.base

    def reset_state(self):
        self.m.reset_state()

    def set_props(self, lc, lp, pb):
        self.m.set_props(lc, lp, pb)

    def reset_dict(self):
        self.hist = bytearray()
        self.base = 0

    def add_uncompressed(self, data):
        self.hist += data

    def _len(self, choice, low, mid, high, pos_state, length):
        rc = self.rc
        l = length - MATCH_MIN
        if l < 8:
            rc.bit(choice, 0, 0)
            rc.tree(low[pos_state], 3, l)
        elif l < 16:
            rc.bit(choice, 0, 1)
            rc.bit(choice, 1, 0)
            rc.tree(mid[pos_state], 3, l - 8)
        else:
            rc.bit(choice, 0, 1)
            rc.bit(choice, 1, 1)
            rc.tree(high, 8, l - 16)

    def _copy(self, dist0, length):
        h = self.hist
        for _ in range(length):
            i = len(h) - dist0 - 1
            if i < 0:
                if self.strict:
                    raise ValueError("distance %d beyond history %d" % (dist0 + 1, len(h)))
                h.append(0)
            else:
                h.append(h[i])

    def encode(self, symbols, flush=True):
        m, rc = self.m, self.rc
        if not self.rc_open:
            rc.reset()
            self.rc_open = True
        pb_mask = (1 << m.pb) - 1
        lp_mask = (1 << m.lp) - 1
        lc = m.lc
        h = self.hist
        for sym in symbols:
            kind = sym[0]
            pos = len(h) - self.base
            ps = pos & pb_mask
            st = m.state
            if kind == 'lit':
                byte = sym[1]
                rc.bit(m.is_match, (st << 4) | ps, 0)
                prev = h[-1] if h else 0
                base = 0x300 * (((pos & lp_mask) << lc) + (prev >> (8 - lc)))
                lit = m.literal
                symbol = 1
                if st >= 7:
                    i = len(h) - m.reps[0] - 1
                    if i < 0 and self.strict:
                        raise ValueError("matched literal without match byte")
                    mb = h[i] if i >= 0 else 0
                    k = 7
                    while k >= 0:
                        mbit = (mb >> k) & 1
                        b = (byte >> k) & 1
                        rc.bit(lit, base + ((1 + mbit) << 8) + symbol, b)
                        symbol = (symbol << 1) | b
                        k -= 1
                        if mbit != b:
                            break
                    while k >= 0:
                        b = (byte >> k) & 1
                        rc.bit(lit, base + symbol, b)
                        symbol = (symbol << 1) | b
                        k -= 1
                else:
                    for k in range(7, -1, -1):
                        b = (byte >> k) & 1
                        rc.bit(lit, base + symbol, b)
                        symbol = (symbol << 1) | b
                h.append(byte)
                m.state = _st_lit(st)
                continue
            rc.bit(m.is_match, (st << 4) | ps, 1)
            if kind == 'match' or kind == 'eopm':
                if kind == 'eopm':
                    dist0, length = EOPM_DIST, (sym[1] if len(sym) > 1 else 2)
                else:
                    dist0, length = sym[1], sym[2]
                if not (MATCH_MIN <= length <= MATCH_MAX and 0 <= dist0 <= 0xFFFFFFFF):
                    raise ValueError("bad match %r" % (sym,))
                rc.bit(m.is_rep, st, 0)
                self._len(m.len_choice, m.len_low, m.len_mid, m.len_high, ps, length)
                slot = _dist_slot(dist0)
                ls = min(length - MATCH_MIN, 3)
                rc.tree(m.pos_slot[ls], 6, slot)
                if slot >= 4:
                    nd = (slot >> 1) - 1
                    basev = (2 | (slot & 1)) << nd
                    red = dist0 - basev
                    if slot < 14:
                        rc.rtree(m.pos_special, basev - slot, nd, red)
                    else:
                        rc.direct(red >> 4, nd - 4)
                        rc.rtree(m.align, 0, 4, red & 15)
                r = m.reps
                m.reps = [dist0, r[0], r[1], r[2]]
                m.state = _st_match(st)
                if dist0 != EOPM_DIST:
                    self._copy(dist0, length)
            elif kind == 'shortrep':
                rc.bit(m.is_rep, st, 1)
                rc.bit(m.is_rep_g0, st, 0)
                rc.bit(m.is_rep0_long, (st << 4) | ps, 0)
                m.state = _st_shortrep(st)
                self._copy(m.reps[0], 1)
            elif kind == 'rep':
                idx, length = sym[1], sym[2]
                if not (MATCH_MIN <= length <= MATCH_MAX and 0 <= idx <= 3):
                    raise ValueError("bad rep %r" % (sym,))
                rc.bit(m.is_rep, st, 1)
                r = m.reps
                if idx == 0:
                    rc.bit(m.is_rep_g0, st, 0)
                    rc.bit(m.is_rep0_long, (st << 4) | ps, 1)
                else:
                    rc.bit(m.is_rep_g0, st, 1)
                    if idx == 1:
                        rc.bit(m.is_rep_g1, st, 0)
                        m.reps = [r[1], r[0], r[2], r[3]]
                    else:
                        rc.bit(m.is_rep_g1, st, 1)
                        if idx == 2:
                            rc.bit(m.is_rep_g2, st, 0)
                            m.reps = [r[2], r[0], r[1], r[3]]
                        else:
                            rc.bit(m.is_rep_g2, st, 1)
                            m.reps = [r[3], r[0], r[1], r[2]]
                self._len(m.rep_choice, m.rep_low, m.rep_mid, m.rep_high, ps, length)
                m.state = _st_rep(st)
                self._copy(m.reps[0], length)
            else:
                raise ValueError("unknown symbol %r" % (sym,))
        if flush:
            rc.flush()
            self.rc_open = False
        return rc.take()

def encode_symbols(symbols, lc=3, lp=0, pb=2, preset_dict=b"", flush=True):
    """Serialise `symbols` as one LZMA1 range-coded stream (starts with the 0x00 byte)."""
    return LzmaEncoder(lc, lp, pb, preset_dict).encode(symbols, flush=flush)

def expand(symbols, preset_dict=b"", strict=True):
    """The bytes a symbol sequence stands for (LZ77 level only; stops at an end marker)."""
    h = bytearray(preset_dict)
    base = len(h)
    reps = [0, 0, 0, 0]
    def copy(d, n):
        for _ in range(n):
            i = len(h) - d - 1
            if i < 0:
                if strict:
                    raise ValueError("distance beyond history")
                h.append(0)
            else:
                h.append(h[i])
    for s in symbols:
        k = s[0]
        if k == 'lit':
            h.append(s[1])
        elif k == 'match':
            if s[1] == EOPM_DIST:
                break
            reps = [s[1], reps[0], reps[1], reps[2]]
            copy(s[1], s[2])
        elif k == 'rep':
            d = reps.pop(s[1])
            reps.insert(0, d)
            copy(d, s[2])
        elif k == 'shortrep':
            copy(reps[0], 1)
        elif k == 'eopm':
            break
        else:
            raise ValueError(s)
    return bytes(h[base:])

# ====================================================================== decoder
class Result:
    """symbols (list or None), stats (dict), out (bytes), consumed (int), status (str), eopm_len (int|None)."""
    __slots__ = ("symbols", "stats", "out", "consumed", "status", "eopm_len")
    def __init__(self, **kw):
        for k in self.__slots__:
            setattr(self, k, kw.get(k))
    def __repr__(self):
        return "Result(status=%r, consumed=%r, out=%d bytes, symbols=%s)" % (
            self.status, self.consumed, len(self.out or b""),
            "None" if self.symbols is None else len(self.symbols))

class _NeedMore(Exception):
    pass

def new_stats():
    return dict(lit=0, match=0, rep=[0, 0, 0, 0], shortrep=0, eopm=0, max_dist=0, max_len=0, min_slack=None)

class LzmaDecoder:
    """Stateful LZMA1 decoder/tokeniser.

    dec = LzmaDecoder(lc, lp, pb, dict_size, preset_dict=b'')
    dec.decode(data, start=0, end=None, usize=None, allow_eopm=True, collect='full') -> Result
        decodes ONE range-coded stream (5 init bytes first) found at data[start:end]; state, reps,
        probabilities and dictionary persist to the next call (LZMA2 chunk without reset).
        Result.out is the output of this call only.  collect: 'full' | 'stats' | None.
    dec.reset_state(), dec.set_props(lc, lp, pb), dec.reset_dict(), dec.add_uncompressed(data)
    dec.avail   bytes in the dictionary (since the last dictionary reset, incl. preset dictionary)
    """
    def __init__(self, lc=3, lp=0, pb=2, dict_size=1 << 23, preset_dict=b""):
        self.m = _Model(lc, lp, pb)
        self.dict_size = dict_size
        pd = bytes(preset_dict)
        if len(pd) > dict_size:
            pd = pd[len(pd) - dict_size:]
        self.hist = bytearray(pd)
        self.base = len(pd)

    @property
    def avail(self):
        return len(self.hist)

    def reset_state(self):
        self.m.reset_state()

    def set_props(self, lc, lp, pb):
        self.m.set_props(lc, lp, pb)

    def reset_dict(self):
        self.hist = bytearray()
        self.base = 0

    def add_uncompressed(self, data):
        self.hist += data

    def decode(self, data, start=0, end=None, usize=None, allow_eopm=True, collect='full'):
        if end is None:
            end = len(data)
        m = self.m
        h = self.hist
        h0 = len(h)
        syms = [] if collect == 'full' else None
        stats = new_stats()
        res = Result(symbols=syms, stats=stats, eopm_len=None)
        ip = start
        if end - ip < 5:
            # an error in the available part is still reported
            if end > ip and data[ip] != 0:
                res.status, res.consumed, res.out = 'error:rc_init', 1, b""
            else:
                res.status, res.consumed, res.out = 'need_more', end - start, b""
            return res
        if data[ip] != 0:
            res.status, res.consumed, res.out = 'error:rc_init', 1, b""
            return res
        code = int.from_bytes(data[ip + 1:ip + 5], "big")
        ip += 5
        rng = 0xFFFFFFFF
        # --- range decoder primitives as closures over (rng, code, ip)
        S = [rng, code, ip]
        def bit(probs, i):
            r = S[0]
            if r < TOP:
                p_ = S[2]
                if p_ >= end:
                    raise _NeedMore
                r = (r << 8) & 0xFFFFFFFF
                S[1] = ((S[1] << 8) | data[p_]) & 0xFFFFFFFF
                S[2] = p_ + 1
            p = probs[i]
            bound = (r >> 11) * p
            if S[1] < bound:
                S[0] = bound
                probs[i] = p + ((2048 - p) >> 5)
                return 0
            S[0] = r - bound
            S[1] -= bound
            probs[i] = p - (p >> 5)
            return 1
        def direct(n):
            v = 0
            for _ in range(n):
                r = S[0]
                if r < TOP:
                    p_ = S[2]
                    if p_ >= end:
                        raise _NeedMore
                    r = (r << 8) & 0xFFFFFFFF
                    S[1] = ((S[1] << 8) | data[p_]) & 0xFFFFFFFF
                    S[2] = p_ + 1
                r >>= 1
                S[0] = r
                if S[1] >= r:
                    S[1] -= r
                    v = (v << 1) | 1
                else:
                    v <<= 1
            return v
        def tree(probs, n):
            mm = 1
            for _ in range(n):
                mm = (mm << 1) | bit(probs, mm)
            return mm - (1 << n)
        def rtree(probs, base, n):
            mm = 1
            v = 0
            for k in range(n):
                b = bit(probs, base + mm)
                mm = (mm << 1) | b
                v |= b << k
            return v
        def declen(choice, low, mid, high, ps):
            if bit(choice, 0) == 0:
                return tree(low[ps], 3)
            if bit(choice, 1) == 0:
                return 8 + tree(mid[ps], 3)
            return 16 + tree(high, 8)
        def final_normalize():
            if S[0] < TOP:
                if S[2] >= end:
                    raise _NeedMore
                S[0] = (S[0] << 8) & 0xFFFFFFFF
                S[1] = ((S[1] << 8) | data[S[2]]) & 0xFFFFFFFF
                S[2] += 1

        pb_mask = (1 << m.pb) - 1
        lp_mask = (1 << m.lp) - 1
        lc = m.lc
        dict_size = self.dict_size
        remaining = usize
        status = None
        want_eopm_only = False
        full = syms is not None
        try:
            while True:
                if remaining == 0 and not want_eopm_only:
                    final_normalize()
                    if S[1] == 0:
                        status = 'ok_size'
                        break
                    if not allow_eopm:
                        status = 'error:rc_end'
                        break
                    want_eopm_only = True
                pos = len(h) - self.base
                ps = pos & pb_mask
                st = m.state
                if bit(m.is_match, (st << 4) | ps) == 0:
                    if remaining == 0:
                        status = 'error:size'
                        break
                    prev = h[-1] if h else 0
                    base = 0x300 * (((pos & lp_mask) << lc) + (prev >> (8 - lc)))
                    lit = m.literal
                    symbol = 1
                    if st >= 7:
                        i = len(h) - m.reps[0] - 1
                        mb = h[i] if i >= 0 else 0   # cannot happen after a validated match; be defensive
                        while symbol < 0x100:
                            mbit = (mb >> 7) & 1
                            mb = (mb << 1) & 0xFF
                            b = bit(lit, base + ((1 + mbit) << 8) + symbol)
                            symbol = (symbol << 1) | b
                            if mbit != b:
                                break
                    while symbol < 0x100:
                        symbol = (symbol << 1) | bit(lit, base + symbol)
                    byte = symbol & 0xFF
                    h.append(byte)
                    m.state = _st_lit(st)
                    if remaining is not None:
                        remaining -= 1
                    stats['lit'] += 1
                    if full:
                        syms.append(('lit', byte))
                    continue
                if bit(m.is_rep, st) == 0:
                    length = MATCH_MIN + declen(m.len_choice, m.len_low, m.len_mid, m.len_high, ps)
                    ls = min(length - MATCH_MIN, 3)
                    slot = tree(m.pos_slot[ls], 6)
                    if slot < 4:
                        dist0 = slot
                    else:
                        nd = (slot >> 1) - 1
                        dist0 = (2 | (slot & 1)) << nd
                        if slot < 14:
                            dist0 += rtree(m.pos_special, dist0 - slot, nd)
                        else:
                            dist0 += direct(nd - 4) << 4
                            dist0 += rtree(m.align, 0, 4)
                    r = m.reps
                    m.reps = [dist0, r[0], r[1], r[2]]
                    m.state = _st_match(st)
                    if dist0 == EOPM_DIST:
                        res.eopm_len = length
                        stats['eopm'] += 1
                        if full:
                            syms.append(('eopm',))
                        final_normalize()
                        if usize is not None and not allow_eopm:
                            status = 'error:eopm'
                        elif remaining is not None and remaining > 0:
                            status = 'error:eopm_early'
                        elif S[1] != 0:
                            status = 'error:rc_end'
                        else:
                            status = 'ok_eopm'
                        break
                    kindsym = ('match', dist0, length)
                    stats['match'] += 1
                else:
                    if bit(m.is_rep_g0, st) == 0:
                        if bit(m.is_rep0_long, (st << 4) | ps) == 0:
                            # short rep
                            if remaining == 0:
                                status = 'error:size'
                                break
                            d = m.reps[0]
                            if d >= len(h) or d >= dict_size:
                                status = 'error:dist'
                                break
                            m.state = _st_shortrep(st)
                            h.append(h[len(h) - d - 1])
                            if remaining is not None:
                                remaining -= 1
                            stats['shortrep'] += 1
                            if full:
                                syms.append(('shortrep',))
                            continue
                        idx = 0
                    else:
                        r = m.reps
                        if bit(m.is_rep_g1, st) == 0:
                            idx = 1
                            m.reps = [r[1], r[0], r[2], r[3]]
                        elif bit(m.is_rep_g2, st) == 0:
                            idx = 2
                            m.reps = [r[2], r[0], r[1], r[3]]
                        else:
                            idx = 3
                            m.reps = [r[3], r[0], r[1], r[2]]
                    length = MATCH_MIN + declen(m.rep_choice, m.rep_low, m.rep_mid, m.rep_high, ps)
                    m.state = _st_rep(st)
                    dist0 = m.reps[0]
                    kindsym = ('rep', idx, length)
                    stats['rep'][idx] += 1
                # ---- copy (match or rep)
                if remaining == 0:
                    status = 'error:size'
                    break
                n = len(h)
                if dist0 >= n or dist0 >= dict_size:
                    status = 'error:dist'
                    if full:
                        syms.append(kindsym)     # the offending symbol is reported last
                    break
                if full:
                    syms.append(kindsym)
                if dist0 + 1 > stats['max_dist']:
                    stats['max_dist'] = dist0 + 1
                if length > stats['max_len']:
                    stats['max_len'] = length
                slack = min(n, dict_size) - (dist0 + 1)
                if stats['min_slack'] is None or slack < stats['min_slack']:
                    stats['min_slack'] = slack
                cl = length
                err = False
                if remaining is not None and cl > remaining:
                    cl = remaining
                    err = True
                d1 = dist0 + 1
                if d1 >= cl:
                    s0 = n - d1
                    h += h[s0:s0 + cl]
                else:
                    seg = bytes(h[n - d1:])
                    reps_needed = cl // d1 + 1
                    h += (seg * reps_needed)[:cl]
                if remaining is not None:
                    remaining -= cl
                if err:
                    status = 'error:size'
                    break
        except _NeedMore:
            status = 'need_more'
        res.status = status
        res.consumed = S[2] - start
        res.out = bytes(h[h0:])
        if collect is None:
            res.stats = stats
        return res

def decode(data, lc=3, lp=0, pb=2, dict_size=1 << 23, usize=None, preset_dict=b"", allow_eopm=True,
           collect='full', impl='auto'):
    """Decode/tokenise one raw LZMA1 stream.

    status: 'ok_eopm'      end marker found (and, if usize is known, exactly usize bytes were produced)
            'ok_size'      usize bytes produced and the range coder ended cleanly (code == 0)
            'need_more'    input exhausted
            'error:rc_init'    first byte of the range coder is not 0x00
            'error:dist'       distance > bytes in dictionary, or >= dict_size (dist0 >= dict_size)
            'error:size'       more data than usize (literal/match past the end, match crossing the end)
            'error:eopm'       end marker although allow_eopm=False and usize known (LZMA2 chunk)
            'error:eopm_early' end marker before usize bytes were produced
            'error:rc_end'     range coder `code != 0` where the format requires 0 (after end marker;
                               at the end of a known-size stream when allow_eopm=False)
    usize known and allow_eopm=True (the .lzma rule, LZMA SDK): at usize bytes, if code == 0 -> ok_size,
    otherwise the next symbol must be an end marker (-> ok_eopm) else error:size.
    impl: 'py' | 'c' | 'auto' (C helper for inputs > 2 KiB when it can be built).
    """
    if impl != 'py':
        from . import chelper
        if impl == 'c' or (len(data) > 2048 and chelper.available()):
            return chelper.lzma1_decode(data, lc, lp, pb, dict_size, usize, preset_dict, allow_eopm, collect)
    d = LzmaDecoder(lc, lp, pb, dict_size, preset_dict)
    return d.decode(data, 0, None, usize, allow_eopm, collect)

# ====================================================================== random valid symbol sequences
def random_symbols(rng, count, dict_size=1 << 16, history=0, reps=None, max_out=None, eopm=False, p_lit=0.35):
    """`count` random symbols that form a VALID sequence given `history` bytes already in the dictionary
    (preset dictionary / earlier chunks) and the current rep distances (default [0,0,0,0] = after a state
    reset).  Distances are log-uniform up to min(available, dict_size); lengths cover the low/mid/high coders.
    Returns (symbols, out_len, reps_after).  max_out bounds the produced length (matches are shortened)."""
    reps = list(reps) if reps else [0, 0, 0, 0]
    avail = history
    out = 0
    syms = []
    def rlen():
        c = rng.randrange(4)
        if c == 0:
            return rng.randrange(2, 10)
        if c == 1:
            return rng.randrange(10, 18)
        if c == 2:
            return rng.randrange(18, 274)
        return rng.choice((2, 3, 9, 10, 17, 18, 272, 273))
    for _ in range(count):
        room = None if max_out is None else max_out - out
        if room is not None and room <= 0:
            break
        limit = min(avail, dict_size)
        k = rng.random()
        if limit == 0 or k < p_lit or (room is not None and room < 2 and k < 0.9):
            syms.append(('lit', rng.randrange(256) if rng.random() < 0.7 else rng.choice((0, 255, 0x80, 0x7F))))
            avail += 1; out += 1
            continue
        if k < p_lit + 0.3 and (room is None or room >= 2):
            bits = rng.randrange(0, limit.bit_length() + 1)
            d = min(rng.getrandbits(bits) if bits else 0, limit - 1)
            if rng.random() < 0.1:
                d = limit - 1
            n = rlen()
            if room is not None:
                n = min(n, room)
            syms.append(('match', d, n))
            reps = [d, reps[0], reps[1], reps[2]]
            avail += n; out += n
            continue
        if k < p_lit + 0.55 and (room is None or room >= 2):
            cands = [i for i in range(4) if reps[i] < limit]
            if cands:
                i = rng.choice(cands)
                n = rlen()
                if room is not None:
                    n = min(n, room)
                syms.append(('rep', i, n))
                d = reps.pop(i)
                reps.insert(0, d)
                avail += n; out += n
                continue
        if reps[0] < limit:
            syms.append(('shortrep',))
        else:
            syms.append(('lit', rng.randrange(256)))
        avail += 1; out += 1
    if eopm:
        syms.append(('eopm',))
    return syms, out, reps

# ====================================================================== LZ77 parser
def greedy_parse(data, dict_size=1 << 23, preset_dict=b"", nice_len=273, depth=16, min_len3_dist=1 << 17,
                 eopm=False, history=b"", reps=None, state_is_lit=True):
    """Greedy LZ77 parse of `data` into LZMA symbols (literals, matches, reps, shortreps).

    history/preset_dict: bytes already in the dictionary (matches may refer to them).
    reps: initial rep distances (list of 4 dist0) when continuing without state reset (default [0,0,0,0]).
    The result is always decodable: distances < min(dict_size, available).
    """
    prefix = bytes(preset_dict) + bytes(history)
    buf = prefix + bytes(data)
    base = len(prefix)
    n = len(buf)
    reps = list(reps) if reps else [0, 0, 0, 0]
    out = []
    table = {}
    def insert(i):
        if i + 3 <= n:
            k = buf[i:i + 3]
            l = table.get(k)
            if l is None:
                table[k] = [i]
            else:
                l.append(i)
                if len(l) > 4 * depth:
                    del l[:len(l) - depth]
    for i in range(max(0, base - dict_size), base):
        insert(i)
    def mlen(a, b, limit):
        # length of common prefix of buf[a:], buf[b:] (a < b), up to limit
        l = 0
        # compare in blocks for speed
        while l < limit:
            step = min(32, limit - l)
            if buf[a + l:a + l + step] == buf[b + l:b + l + step]:
                l += step
            else:
                while l < limit and buf[a + l] == buf[b + l]:
                    l += 1
                break
        return l
    i = base
    while i < n:
        limit = min(MATCH_MAX, n - i)
        avail = min(i, dict_size)
        best_len, best = 0, None
        if limit >= 2:
            for idx in range(4):
                d = reps[idx]
                if d < avail:
                    l = mlen(i - d - 1, i, limit)
                    if l >= 2 and l > best_len:
                        best_len, best = l, ('rep', idx, l)
            if best_len < nice_len and limit >= 3:
                cands = table.get(buf[i:i + 3])
                if cands:
                    for j in reversed(cands[-depth:]):
                        d = i - j - 1
                        if d >= avail:
                            break
                        l = mlen(j, i, limit)
                        # prefer a rep unless the match is clearly longer
                        if l > best_len + (1 if best and best[0] == 'rep' else 0) and \
                           not (l == 3 and d >= min_len3_dist):
                            best_len, best = l, ('match', d, l)
                            if l >= nice_len:
                                break
        if best is None:
            if reps[0] < avail and buf[i - reps[0] - 1] == buf[i] and (i * 7 + buf[i]) % 3 != 0:
                out.append(('shortrep',))
            else:
                out.append(('lit', buf[i]))
            insert(i)
            i += 1
            continue
        out.append(best)
        if best[0] == 'match':
            reps = [best[1], reps[0], reps[1], reps[2]]
        else:
            d = reps.pop(best[1])
            reps.insert(0, d)
        for k in range(i, i + best_len):
            insert(k)
        i += best_len
    if eopm:
        out.append(('eopm',))
    return out
